"""C13 — generated SQL is well-scoped, parameter-consistent and deterministic.

Evidence level: translation validation.

* Lean: `check q = true <-> WellScoped q` (Props/C13.lean) for the scope
  checker of Model/PgAst.lean against the declarative PostgreSQL scoping rules
  of Model/PgAstSpec.lean; `populate_argmap` numbering and `AliasGenerator`
  freshness theorems (Model/Argmap.lean).
* Tie: every SQL tree the REAL compiler (edb.edgeql.compiler ->
  edb.pgsql.compiler.compile_ir_to_sql_tree) emits for a generated population of
  queries over three schemas is exported node by node, the way
  edb.pgsql.codegen prints it, and run through the verified checker; parameter
  numbers are compared with the reported argmap; every query is compiled in two
  fresh processes with different PYTHONHASHSEED and SQL text, argmap, exported
  tree and (server compiler) type descriptors are compared byte for byte.
* Level 1: real `AliasGenerator` / `populate_argmap` vs the Lean models.
* `check` itself is validated on hand-written accept/reject cases derived from
  the PostgreSQL documentation (there is no server here: the rules as stated in
  PgAstSpec.lean are part of the trusted base).
"""
from __future__ import annotations

import collections
import hashlib
import json
import os
import re
import subprocess
import sys
import tempfile
import time

from lib import core

PROPS = 'EdbVerif/Props/C13.lean'
REQUIRED = [
    'EdbVerif.C13.check_sound', 'EdbVerif.C13.check_complete',
    'EdbVerif.C13.argmap_contig', 'EdbVerif.C13.alias_fresh',
]

# ===================================================================== exporter
# pgast tree -> one line of the protocol of lean/Driver/C13Lib.lean.  The walk
# follows edb/pgsql/codegen.py::SQLSourceGenerator method by method: what is
# printed is exported, what is not printed is not.

LITERAL_NAME = re.compile(r'^(excluded|column[0-9]+|\?column\?)$')


class Unmodelled(Exception):
    pass


class Exporter:
    def __init__(self, colfn=None):
        self.colfn = colfn                     # pgast.Relation -> column names | None
        self.names: dict[bytes, str] = {}
        self.long_names: set[str] = set()
        self.params: list[int] = []
        self.stats = collections.Counter()
        self.seen_ids: set[int] = set()      # ColumnRef / ParamRef node ids that were exported

    # ---------------------------------------------------------------- names
    def n(self, name) -> str:
        if not isinstance(name, str):
            raise Unmodelled(f'non-string name {name!r}')
        raw = name.encode('utf-8')
        if len(raw) > 63:                     # NAMEDATALEN - 1: PostgreSQL truncates identifiers
            self.long_names.add(name)
            raw = raw[:63]
            while raw and (raw[-1] & 0xC0) == 0x80:   # do not split a multibyte char (pg_mbcliplen)
                raw = raw[:-1]
            if raw and raw[-1] >= 0xC0:
                raw = raw[:-1]
        tok = self.names.get(raw)
        if tok is None:
            txt = raw.decode('utf-8', 'replace')
            tok = txt if LITERAL_NAME.match(txt) else f'n{len(self.names)}'
            self.names[raw] = tok
        return tok

    def optn(self, name) -> str:
        return self.n(name) if name else '-'

    def names_list(self, names) -> str:
        return '(' + ' '.join(self.n(x) for x in (names or [])) + ')'

    def table_cols(self, rel) -> str:
        """`K (cols)`: the catalog columns of a table when they can be computed from the schema"""
        cols = self.colfn(rel) if self.colfn is not None else None
        if cols is None:
            self.stats['table-columns-unknown'] += 1
            return '0 ()'
        self.stats['table-columns-known'] += 1
        return '1 ' + self.names_list(cols)

    # ---------------------------------------------------------- expressions
    def exprs(self, nodes) -> str:
        return '(' + ' '.join(self.expr(x) for x in nodes if x is not None) + ')'

    def node(self, *children) -> str:
        parts = [self.expr(c) for c in children if c is not None]
        parts = [p for p in parts if p != 'l']
        if not parts:
            return 'l'
        if len(parts) == 1:
            return parts[0]
        return '(n ' + ' '.join(parts) + ')'

    def expr(self, x) -> str:
        from edb.pgsql import ast as pgast
        st = self.stats
        if isinstance(x, (list, tuple)):
            return self.node(*x)
        if isinstance(x, pgast.ColumnRef):
            self.seen_ids.add(id(x))
            names = list(x.name)
            if isinstance(names[-1], pgast.Star):
                st['expr:star'] += 1
                return '(star' + ''.join(' ' + self.n(p) for p in names[:-1]) + ')'
            if names == ['VALUE'] or names[0] in ('OLD', 'NEW'):
                # visit_ColumnRef prints `VALUE`, and a leading `OLD` / `NEW`, WITHOUT quotes (they are meant
                # for domain constraints and trigger functions): PostgreSQL folds an unquoted identifier
                # to lower case, so the reference denotes value / old / new
                st['colref:unquoted-keyword'] += 1
                if any(isinstance(p, pgast.Star) for p in names):
                    raise Unmodelled('star inside a column reference')
                return '(c ' + ' '.join([self.n(names[0].lower())] + [self.n(p) for p in names[1:]]) + ')'
            st[f'colref:{len(names)}'] += 1
            if any(isinstance(p, pgast.Star) for p in names):
                raise Unmodelled('star inside a column reference')
            return '(c ' + ' '.join(self.n(p) for p in names) + ')'
        if isinstance(x, pgast.ParamRef):
            self.seen_ids.add(id(x))
            self.params.append(x.number)
            st['expr:param'] += 1
            return f'(p {x.number})'
        if isinstance(x, pgast.Query):          # SELECT / DML in expression position
            st['expr:subquery'] += 1
            return '(q ' + self.query(x) + ')'
        if isinstance(x, pgast.NullRelation):
            return '(q ' + self.null_relation(x) + ')'
        if isinstance(x, pgast.SubLink):
            st[f'sublink:{x.operator}'] += 1
            return self.node(x.test_expr, x.expr)
        if isinstance(x, (pgast.BaseConstant, pgast.LiteralExpr, pgast.Keyword, pgast.TypeName)):
            if isinstance(x, pgast.LiteralExpr):
                st['literal-expr'] += 1
                st[f'literal-expr-text:{x.expr[:40]}'] += 1
            return 'l'
        if isinstance(x, pgast.Star):
            return '(star)'
        if isinstance(x, pgast.ResTarget):       # e.g. in lists visited generically
            return self.expr(x.val)
        if isinstance(x, pgast.InsertTarget):
            # dml.py builds `SELECT <InsertTarget…> FROM contents_cte`: visit_InsertTarget prints
            # the bare quoted column name, i.e. an unqualified column reference
            st['colref:insert-target'] += 1
            return f'(c {self.n(x.name)})'
        if isinstance(x, pgast.Expr):
            return self.node(x.lexpr, x.rexpr)
        if isinstance(x, pgast.TypeCast):
            return self.node(x.arg)
        if isinstance(x, pgast.FuncCall):
            ch = list(x.args)
            if x.agg_order:
                ch += [s.node for s in x.agg_order]
            ch.append(x.agg_filter)
            if x.over:
                if x.over.name or x.over.refname:
                    raise Unmodelled('named window')
                ch += list(x.over.partition_clause or [])
                ch += [s.node for s in (x.over.order_clause or [])]
            for cd in (x.coldeflist or []):
                ch.append(cd.default_expr)
            return self.node(*ch)
        if isinstance(x, pgast.NamedFuncArg):
            return self.node(x.val)
        if isinstance(x, pgast.VariadicArgument):
            return self.node(x.expr)
        if isinstance(x, (pgast.CoalesceExpr, pgast.RowExpr, pgast.ImplicitRowExpr, pgast.MinMaxExpr,
                          pgast.GroupingOperation)):
            return self.node(*x.args)
        if isinstance(x, (pgast.ArrayExpr, pgast.ArrayDimension)):
            return self.node(*x.elements)
        if isinstance(x, (pgast.NullTest, pgast.BooleanTest, pgast.CollateClause)):
            return self.node(x.arg)
        if isinstance(x, pgast.CaseExpr):
            ch = [x.arg]
            for w in x.args:
                ch += [w.expr, w.result]
            ch.append(x.defresult)
            return self.node(*ch)
        if isinstance(x, pgast.CaseWhen):
            return self.node(x.expr, x.result)
        if isinstance(x, pgast.Indirection):
            ch = [x.arg]
            for op in x.indirection:
                ch += self.indirection_children(op)
            return self.node(*ch)
        if isinstance(x, (pgast.Index, pgast.Slice)):
            return self.node(*self.indirection_children(x))
        if isinstance(x, pgast.SortBy):
            return self.expr(x.node)
        if isinstance(x, pgast.ExprOutputVar):
            return self.expr(x.expr)
        if isinstance(x, pgast.SQLValueFunction):
            return self.node(x.arg)
        if isinstance(x, pgast.BaseRangeVar):
            raise Unmodelled(f'range var {type(x).__name__} in expression position')
        # anything else: keep every reference below it (never drop silently)
        st[f'generic-expr:{type(x).__name__}'] += 1
        return self.generic(x)

    def indirection_children(self, op):
        from edb.pgsql import ast as pgast
        if isinstance(op, pgast.Index):
            return [op.idx]
        if isinstance(op, pgast.Slice):
            return [op.lidx, op.ridx]
        return []       # Star, RecordIndirectionOp: no sub-expression

    def generic(self, x) -> str:
        from edb.common.ast import base as astbase
        from edb.pgsql import ast as pgast
        ch = []

        def collect(v):
            if isinstance(v, (list, tuple)):
                for i in v:
                    collect(i)
            elif isinstance(v, dict):
                for i in v.values():
                    collect(i)
            elif isinstance(v, pgast.Base):
                ch.append(v)

        for fname, val in astbase.iter_fields(x, include_meta=False):
            if x._fields[fname].hidden:
                continue
            collect(val)
        return self.node(*ch)

    # -------------------------------------------------------------- targets
    def figure_colname(self, v):
        """PostgreSQL's FigureColname for an unnamed target (None = '?column?')."""
        from edb.pgsql import ast as pgast
        if isinstance(v, pgast.ColumnRef):
            return None        # the model derives it (last part)
        if isinstance(v, pgast.InsertTarget):
            return None        # exported as a 1-part column reference
        if isinstance(v, pgast.Indirection):
            for op in reversed(v.indirection):
                if isinstance(op, pgast.RecordIndirectionOp):
                    return op.name
                if isinstance(op, pgast.Star):
                    return None
            return self.figure_colname(v.arg)
        if isinstance(v, pgast.FuncCall):
            return v.name[-1]
        if isinstance(v, pgast.TypeCast):
            inner = self.figure_colname(v.arg)
            if inner is None and isinstance(v.arg, pgast.ColumnRef) and \
                    not isinstance(v.arg.name[-1], pgast.Star):
                inner = v.arg.name[-1]
            if inner is not None:
                return inner
            tn = v.type_name.name[-1]
            return tn[:-2] if tn.endswith('[]') else tn
        if isinstance(v, pgast.CollateClause):
            return self.figure_colname(v.arg)
        if isinstance(v, pgast.CaseExpr):
            if v.defresult is not None:
                inner = self.figure_colname(v.defresult)
                if inner is None and isinstance(v.defresult, pgast.ColumnRef):
                    inner = v.defresult.name[-1]
                if inner is not None:
                    return inner
            return 'case'
        if isinstance(v, pgast.ArrayExpr):
            return 'array'
        if isinstance(v, pgast.RowExpr):
            return 'row'
        if isinstance(v, pgast.CoalesceExpr):
            return 'coalesce'
        if isinstance(v, pgast.MinMaxExpr):
            return v.op.lower()
        if isinstance(v, pgast.SubLink):
            if v.operator == 'EXISTS':
                return 'exists'
            if v.operator == 'ARRAY':
                return 'array'
            if v.operator is None:
                return self.figure_colname(v.expr)
            return None
        if isinstance(v, pgast.SelectStmt) and not v.op and not v.values and v.target_list:
            t = v.target_list[0]
            if t.name:
                return t.name
            r = self.figure_colname(t.val)
            if r is None and isinstance(t.val, pgast.ColumnRef) and \
                    not isinstance(t.val.name[-1], pgast.Star):
                return t.val.name[-1]
            return r
        return None

    def target(self, t) -> str:
        from edb.pgsql import ast as pgast
        if not isinstance(t, pgast.ResTarget):
            raise Unmodelled(f'{type(t).__name__} in a target list')
        name = t.name
        if not name:
            self.stats['target:unnamed'] += 1
            if not isinstance(t.val, (pgast.ColumnRef, pgast.InsertTarget)):
                name = self.figure_colname(t.val)
                self.stats[f'target:unnamed-noncol:{type(t.val).__name__}'] += 1
        return f'(t {self.optn(name)} {self.expr(t.val)})'

    def targets(self, ts) -> str:
        return '(' + ' '.join(self.target(t) for t in (ts or [])) + ')'

    # ----------------------------------------------------------- FROM items
    def from_item(self, r) -> str:
        from edb.pgsql import ast as pgast
        st = self.stats
        if isinstance(r, pgast.RelRangeVar):
            alias = r.alias.aliasname if r.alias and r.alias.aliasname else None
            cols = r.alias.colnames if alias else None
            rel = r.relation
            if isinstance(rel, pgast.NullRelation):
                st['from:nullrelation'] += 1
                if not alias:
                    raise Unmodelled('NullRelation without alias')
                return f'(subq 0 {self.null_relation(rel)} {self.n(alias)} {self.names_list(cols)})'
            if isinstance(rel, pgast.Relation):
                st['from:table' + ('' if rel.schemaname else '-noschema')] += 1
                if not alias:
                    st['from:table-unaliased'] += 1
                if not rel.name:
                    raise Unmodelled('Relation without a name')
                return (f'(rel {self.optn(rel.schemaname)} {self.n(rel.name)} '
                        f'{self.optn(alias)} {self.names_list(cols)} {self.table_cols(rel)})')
            if isinstance(rel, pgast.CommonTableExpr):
                st['from:cte-ref'] += 1
                return f'(cref {self.n(rel.name)} {self.optn(alias)} {self.names_list(cols)})'
            raise Unmodelled(f'RelRangeVar over {type(rel).__name__}')     # codegen raises too
        if isinstance(r, pgast.RangeSubselect):
            st['from:subselect' + ('-lateral' if r.lateral else '')] += 1
            if not (r.alias and r.alias.aliasname):
                raise Unmodelled('sub-select without alias')
            return (f'(subq {int(bool(r.lateral))} {self.query(r.subquery)} '
                    f'{self.n(r.alias.aliasname)} {self.names_list(r.alias.colnames)})')
        if isinstance(r, pgast.RangeFunction):
            st['from:function' + ('-lateral' if r.lateral else '')] += 1
            fns = list(r.functions)
            if r.alias and r.alias.aliasname:
                alias = r.alias.aliasname
                cols = list(r.alias.colnames or [])
            else:
                # no alias: PostgreSQL names the entry after the function
                st['from:function-unaliased'] += 1
                if len(fns) != 1 or not isinstance(fns[0], pgast.FuncCall):
                    raise Unmodelled('un-aliased function list in FROM')
                alias = fns[0].name[-1]
                cols = []
            coldefs = [cd.name for f in fns if isinstance(f, pgast.FuncCall)
                       for cd in (f.coldeflist or [])]
            ordinality = r.with_ordinality or any(getattr(f, 'with_ordinality', False) for f in fns)
            if coldefs and len(fns) == 1 and not ordinality:
                # `f(...) AS [alias] (a t, b t)`: the column definition list names the columns
                cols = cols + coldefs[len(cols):]
                known = True
            else:
                known = bool(cols) and not ordinality and not coldefs
            if not known:
                st['from:function-cols-unknown'] += 1
            return (f'(func {int(bool(r.lateral))} {self.exprs(fns)} {self.n(alias)} '
                    f'{int(known)} {self.names_list(cols)})')
        if isinstance(r, pgast.JoinExpr):
            if r.alias and r.alias.aliasname:
                raise Unmodelled('aliased join')
            out = self.from_item(r.larg)
            for j in r.joins:
                # visit_JoinExpr: no quals and no USING => printed as CROSS JOIN
                if j.quals is None and not j.using_clause:
                    kind = 'cross'
                else:
                    kind = j.type.lower()
                if kind not in ('inner', 'left', 'right', 'full', 'cross'):
                    raise Unmodelled(f'join type {j.type}')
                st[f'join:{kind}'] += 1
                if j.quals is not None:
                    on = self.exprs([j.quals])
                    using = '()'
                else:
                    on = '()'
                    ucols = []
                    for c in (j.using_clause or []):
                        self.seen_ids.add(id(c))
                        if len(c.name) != 1:
                            raise Unmodelled('qualified name in USING')
                        ucols.append(c.name[0])
                    using = self.names_list(ucols)
                out = f'(join {kind} {out} {self.from_item(j.rarg)} {on} {using})'
            return out
        raise Unmodelled(f'FROM item {type(r).__name__}')

    def from_list(self, items) -> str:
        from edb.pgsql import ast as pgast

        def nfuncs(r):
            if isinstance(r, pgast.RangeFunction):
                return 1
            if isinstance(r, pgast.JoinExpr):
                return nfuncs(r.larg) + sum(nfuncs(j.rarg) for j in r.joins)
            return 0
        n = sum(nfuncs(i) for i in (items or []))
        if n >= 2:
            # e.g. relctx.unpack_var: one `ROWS FROM (unnest(..) AS (coldefs))` per non-scalar level; an inner
            # level references the columns the enclosing level defines, so their ORDER in FROM matters
            self.stats['from:list-with-2+-functions'] += 1
        return '(' + ' '.join(self.from_item(i) for i in (items or [])) + ')'

    # -------------------------------------------------------------- queries
    def null_relation(self, rel) -> str:
        # visit_NullRelation: (SELECT targets WHERE where)
        return (f'(sel {self.targets(rel.target_list)} () '
                f'{self.exprs([rel.where_clause])} () ())')

    def with_wrap(self, node, body: str) -> str:
        ctes = node.ctes
        if not ctes:
            return body
        self.stats['with'] += 1
        rec = bool(getattr(ctes[0], 'recursive', None))      # gen_ctes: only the first one is looked at
        if any(c.recursive for c in ctes[1:]) and not rec:
            self.stats['with:recursive-flag-not-first'] += 1
        if rec:
            self.stats['with:recursive'] += 1
        parts = []
        for c in ctes:
            parts.append(f'(cte {self.n(c.name)} {self.names_list(c.aliascolnames)} {self.query(c.query)})')
        return f'(with {int(rec)} ({" ".join(parts)}) {body})'

    def dml_target(self, rvar):
        from edb.pgsql import ast as pgast
        if not isinstance(rvar, pgast.RelRangeVar) or not isinstance(rvar.relation, pgast.Relation):
            raise Unmodelled('DML target is not a table')
        alias = rvar.alias.aliasname if rvar.alias and rvar.alias.aliasname else None
        if alias and rvar.alias.colnames:
            raise Unmodelled('DML target with column aliases')
        rel = rvar.relation
        return f'{self.optn(rel.schemaname)} {self.n(rel.name)} {self.optn(alias)} {self.table_cols(rel)}'

    def update_targets(self, targets):
        from edb.pgsql import ast as pgast
        out = []
        for t in targets or []:
            if isinstance(t, pgast.UpdateTarget):
                out.append(t.val)
                for op in (t.indirection or []):
                    out += self.indirection_children(op)
            elif isinstance(t, pgast.MultiAssignRef):
                out.append(t.source)
            elif isinstance(t, pgast.InsertTarget):
                pass
            else:
                raise Unmodelled(f'{type(t).__name__} in SET')
        return out

    def query(self, q) -> str:
        from edb.pgsql import ast as pgast
        st = self.stats
        if isinstance(q, pgast.SelectStmt):
            if q.values:
                st['query:values'] += 1
                cells = []
                ncols = None
                for row in q.values:
                    if not isinstance(row, (pgast.ImplicitRowExpr, pgast.RowExpr)):
                        raise Unmodelled(f'VALUES row {type(row).__name__}')
                    ncols = len(row.args) if ncols is None else ncols
                    cells += list(row.args)
                # visit_SelectStmt returns right after the rows: nothing else is printed
                return self.with_wrap(q, f'(vals {ncols or 0} {self.exprs(cells)})')
            if q.locking_clause:
                raise Unmodelled('locking clause')
            if q.op:
                st[f'query:setop:{q.op.lower()}'] += 1
                if q.target_list or q.from_clause or q.where_clause is not None or q.group_clause \
                        or q.having_clause is not None or q.distinct_clause or q.window_clause:
                    raise Unmodelled('set operation node with its own SELECT clauses')
                order = self.exprs([s.node for s in (q.sort_clause or [])])
                limits = self.exprs([q.limit_offset, q.limit_count])
                return self.with_wrap(q, f'(setop {self.query(q.larg)} {self.query(q.rarg)} {order} {limits})')
            st['query:select'] += 1
            by = []
            if q.distinct_clause:
                if not (len(q.distinct_clause) == 1 and isinstance(q.distinct_clause[0], pgast.Star)):
                    by += list(q.distinct_clause)
            by += list(q.group_clause or [])
            by += [s.node for s in (q.sort_clause or [])]
            ex = [q.where_clause, q.having_clause]
            if q.window_clause:
                raise Unmodelled('WINDOW clause')       # codegen does not print it either
            body = (f'(sel {self.targets(q.target_list)} {self.from_list(q.from_clause)} '
                    f'{self.exprs(ex)} {self.exprs(by)} {self.exprs([q.limit_offset, q.limit_count])})')
            return self.with_wrap(q, body)
        if isinstance(q, pgast.InsertStmt):
            st['query:insert'] += 1
            if q.select_stmt is not None:
                src = self.query(q.select_stmt)
            else:
                src = '(vals 0 ())'
            infer, upd = [], []
            oc = q.on_conflict
            if oc is not None:
                st['insert:on-conflict:' + str(oc.action)] += 1
                if oc.infer is not None:
                    infer += list(oc.infer.index_elems or [])
                    # visit_InferClause does not print infer.where_clause
                    if oc.infer.where_clause is not None:
                        st['unprinted:infer.where_clause'] += 1
                upd += self.update_targets(oc.target_list)
                if oc.where is not None:
                    st['unprinted:on_conflict.where'] += 1     # visit_InsertStmt never prints it
            body = (f'(ins {self.dml_target(q.relation)} {src} {self.exprs(infer)} {self.exprs(upd)} '
                    f'{self.targets(q.returning_list)})')
            return self.with_wrap(q, body)
        if isinstance(q, pgast.UpdateStmt):
            st['query:update'] += 1
            ex = self.update_targets(q.targets) + [q.where_clause]
            body = (f'(upd {self.dml_target(q.relation)} {self.from_list(q.from_clause)} {self.exprs(ex)} '
                    f'{self.targets(q.returning_list)})')
            return self.with_wrap(q, body)
        if isinstance(q, pgast.DeleteStmt):
            st['query:delete'] += 1
            body = (f'(del {self.dml_target(q.relation)} {self.from_list(q.using_clause)} '
                    f'{self.exprs([q.where_clause])} {self.targets(q.returning_list)})')
            return self.with_wrap(q, body)
        if isinstance(q, pgast.NullRelation):
            return self.null_relation(q)
        raise Unmodelled(f'statement {type(q).__name__}')


def export_tree(tree, colfn=None):
    """-> (protocol line, exporter)"""
    ex = Exporter(colfn)
    line = 'Q ' + ex.query(tree)
    return line, ex


# ================================================================== population
# Three schemas: upstream's tests/schemas/issues.esdl (+ three globals),
# tests/schemas/cards.esdl and corpus/C13/shop.esdl.  Queries: a fixed list
# (mostly the ones upstream's tests/test_edgeql_sql_codegen.py uses, plus
# hand-written nesting cases) and a random generator driven by a description of
# the schema obtained by introspecting the REAL schema object.

ISSUES_EXTRA = '''
global cur_user: str;
global opt_g: int64 { default := 3 };
required global req_g: str { default := "x" };
'''


# identifiers longer than MAX_NAME_LENGTH (51): aliases built from them are shortened to
# `base64(md5) + ':' + tail` by edb.pgsql.compiler.aliases.AliasGenerator
LONG_T = 'AnExtremelyLongTypeNameThatGoesWellBeyondFiftyOneCharactersInTotal'
LONG_P = 'a_property_with_a_really_long_name_exceeding_fifty_one_characters_total'
LONG_L = 'a_multi_link_with_a_really_long_name_exceeding_fifty_one_characters'
LONG_SDL = f'''
type {LONG_T} {{
    {LONG_P}: str;
    multi {LONG_L}: {LONG_T};
    short: int64;
}}
'''


def schema_sources():
    rd = lambda p: open(p).read()
    return {
        'issues': rd(os.path.join(core.REPO, 'tests', 'schemas', 'issues.esdl')) + ISSUES_EXTRA,
        'cards': rd(os.path.join(core.REPO, 'tests', 'schemas', 'cards.esdl')),
        'shop': rd(os.path.join(core.VERIF, 'corpus', 'C13', 'shop.esdl')),
        'long': LONG_SDL,
        'policies': rd(os.path.join(core.VERIF, 'corpus', 'C13', 'policies.esdl')),
    }


def describe_schema(schema) -> dict:
    """JSON-able description of the user types of module `default` (drives the generator)."""
    from edb.schema import objtypes as s_objtypes, links as s_links, globals as s_globals, \
        scalars as s_scalars
    types = {}
    for obj in schema.get_objects(type=s_objtypes.ObjectType, exclude_stdlib=True):
        name = obj.get_name(schema)
        if (name.module != 'default' or obj.is_view(schema) or obj.is_union_type(schema)
                or obj.is_intersection_type(schema) or obj.get_from_alias(schema)):
            continue
        ptrs = {}
        for p in obj.get_pointers(schema).objects(schema):
            sn = p.get_shortname(schema).name
            if sn in ('id', '__type__'):
                continue
            tgt = p.get_target(schema)
            is_link = isinstance(p, s_links.Link)
            d = dict(link=is_link, multi=p.get_cardinality(schema).is_multi(),
                     required=bool(p.get_required(schema)),
                     computed=bool(p.is_pure_computable(schema)),
                     default=p.get_default(schema) is not None,
                     readonly=bool(p.get_readonly(schema)))
            if is_link:
                if tgt.is_union_type(schema):
                    d['target'] = sorted(c.get_name(schema).name
                                         for c in tgt.get_union_of(schema).objects(schema))
                else:
                    d['target'] = [tgt.get_name(schema).name]
                lps = {}
                for lp in p.get_pointers(schema).objects(schema):
                    lsn = lp.get_shortname(schema).name
                    if lsn in ('source', 'target'):
                        continue
                    lt = lp.get_target(schema)
                    lps[lsn] = dict(type=str(lt.get_displayname(schema)),
                                    computed=bool(lp.is_pure_computable(schema)))
                d['lprops'] = dict(sorted(lps.items()))
            else:
                d['type'] = str(tgt.get_displayname(schema))
                if isinstance(tgt, s_scalars.ScalarType):
                    d['base'] = str(tgt.get_topmost_concrete_base(schema).get_displayname(schema))
                else:
                    d['base'] = d['type']
            ptrs[sn] = d
        types[name.name] = dict(
            abstract=bool(obj.get_abstract(schema)),
            bases=sorted(b.get_name(schema).name for b in obj.get_bases(schema).objects(schema)
                         if b.get_name(schema).module == 'default'),
            ptrs=dict(sorted(ptrs.items())))
    for t, d in types.items():
        d['subtypes'] = sorted(s for s, sd in types.items() if t in sd['bases'])
    globs = {}
    for g in schema.get_objects(type=s_globals.Global, exclude_stdlib=True):
        n = g.get_name(schema)
        if n.module != 'default':
            continue
        tg = g.get_target(schema)
        globs[n.name] = dict(type=str(tg.get_displayname(schema)),
                             computed=g.get_expr(schema) is not None,
                             is_obj=bool(tg.is_object_type()))
    return dict(types=dict(sorted(types.items())), globals=dict(sorted(globs.items())))


LITS = {
    'std::str': ["'a'", "'b'", "'x y'", "'Open'"],
    'std::int64': ['0', '1', '2', '42'],
    'std::float64': ['1.5', '0.0'],
    'std::bool': ['true', 'false'],
    'std::datetime': ["<datetime>'2020-01-01T00:00:00+00'", 'datetime_current()'],
    'array<std::str>': ["['a', 'b']", '<array<str>>[]'],
}


class QGen:
    """Random EdgeQL queries over a schema description; biased to nesting."""

    def __init__(self, rng, desc):
        self.rng = rng
        self.types = desc['types']
        self.globals = desc['globals']
        self.concrete = [t for t, d in self.types.items() if not d['abstract']]
        self.reset()

    def reset(self):
        self.nparams = 0
        self.positional = self.rng.random() < 0.3
        self.nvar = 0

    # ------------------------------------------------------------ basics
    def ch(self, seq):
        return self.rng.choice(list(seq))

    def p(self, x):
        return self.rng.random() < x

    def var(self):
        self.nvar += 1
        return f'v{self.nvar}'

    def param(self, typ, optional=False):
        i = self.nparams
        self.nparams += 1
        name = str(i) if self.positional else self.ch(['p', 'arg', 'x']) + str(i)
        t = typ.replace('std::', '')
        return f'<{"optional " if optional else ""}{t}>${name}'

    def lit(self, d):
        base = d.get('base', d.get('type'))
        ls = LITS.get(base)
        if ls is None:
            return None
        v = self.ch(ls)
        if d.get('type') != base and base == 'std::str':
            v = f"<{d['type'].replace('default::', '')}>{v}"
        return v

    def value(self, d, allow_param=True):
        """a singleton value of the scalar type of pointer description d"""
        base = d.get('base', d.get('type'))
        if base not in LITS:
            return None
        r = self.rng.random()
        if allow_param and r < 0.35:
            v = self.param(base, optional=False)
            if d.get('type') != base:
                v = f"<{d['type'].replace('default::', '')}>{v}"
            return v
        if r < 0.45:
            gs = [g for g, gd in self.globals.items() if gd['type'] == base and not gd['is_obj']]
            if gs:
                g = self.ch(gs)
                dflt = self.lit(d)
                return f'(global {g} ?? {dflt})'
        return self.lit(d)

    def props(self, T, multi=None, computed=None, writable=False):
        out = []
        for n, d in self.types[T]['ptrs'].items():
            if d['link']:
                continue
            if multi is not None and d['multi'] != multi:
                continue
            if computed is not None and d['computed'] != computed:
                continue
            if writable and (d['computed'] or d['readonly']):
                continue
            if d.get('base') not in LITS:
                continue
            out.append((n, d))
        return out

    def links(self, T, multi=None, computed=None):
        out = []
        for n, d in self.types[T]['ptrs'].items():
            if not d['link']:
                continue
            if multi is not None and d['multi'] != multi:
                continue
            if computed is not None and d['computed'] != computed:
                continue
            out.append((n, d))
        return out

    def backlinks(self, T):
        """(source type, link name) pairs whose target includes T or an ancestor"""
        anc = self.ancestors(T) | {T}
        out = []
        for S, sd in self.types.items():
            for n, d in sd['ptrs'].items():
                if d['link'] and not d['computed'] and set(d['target']) & anc:
                    out.append((S, n))
        return out

    def ancestors(self, T):
        out = set()
        todo = list(self.types[T]['bases'])
        while todo:
            b = todo.pop()
            if b not in out:
                out.add(b)
                todo += self.types[b]['bases']
        return out

    # ------------------------------------------------- scalar expressions
    def single_scalar(self, T, root, depth=1):
        """(expr, base type) — a single-valued (possibly empty) scalar of an object at `root`"""
        cands = []
        for n, d in self.props(T, multi=False):
            cands.append((f'{root}.{n}', d['base']))
        if depth > 0:
            for ln, ld in self.links(T, multi=False):
                T2 = ld['target'][0]
                if len(ld['target']) > 1:
                    continue
                for n, d in self.props(T2, multi=False):
                    cands.append((f'{root}.{ln}.{n}', d['base']))
        for ln, ld in self.links(T, multi=True):
            cands.append((f'count({root}.{ln})', 'std::int64'))
        if not cands:
            return (f'<str>{root}.id', 'std::str')
        return self.ch(cands)

    def any_scalar(self, T, root):
        """(expr, base) possibly multi-valued"""
        cands = [self.single_scalar(T, root)]
        for n, d in self.props(T, multi=True):
            cands.append((f'{root}.{n}', d['base']))
        for ln, ld in self.links(T):
            if len(ld['target']) > 1:
                continue
            for n, d in self.props(ld['target'][0], multi=False):
                cands.append((f'{root}.{ln}.{n}', d['base']))
        return self.ch(cands)

    def bool_expr(self, T, root, depth=2):
        r = self.rng.random()
        if depth > 0 and r < 0.15:
            return f'({self.bool_expr(T, root, depth - 1)} {self.ch(["and", "or"])} ' \
                   f'{self.bool_expr(T, root, depth - 1)})'
        if depth > 0 and r < 0.2:
            return f'not {self.bool_expr(T, root, depth - 1)}'
        if r < 0.32:
            ls = self.links(T)
            if ls:
                ln, ld = self.ch(ls)
                return f'{self.ch(["exists", "not exists"])} {root}.{ln}'
        if r < 0.42:
            ls = [(n, d) for n, d in self.links(T) if len(d['target']) == 1]
            if ls:
                ln, ld = self.ch(ls)
                T2 = ld['target'][0]
                sub = self.obj_set(T2, depth=1)
                op = 'in' if ld['multi'] or self.p(0.5) else '='
                if op == '=':
                    return f'{root}.{ln} ?= assert_single({sub})' if self.p(0.3) else \
                        f'{root}.{ln} in {sub}'
                return f'{root}.{ln} in {sub}'
        if r < 0.5:
            bl = self.backlinks(T)
            if bl:
                S, ln = self.ch(bl)
                return f'exists {root}.<{ln}[is {S}]'
        e, base = self.any_scalar(T, root)
        d = {'base': base, 'type': base}
        r2 = self.rng.random()
        if r2 < 0.15:
            return f'{e} ?= {self.param(base, optional=True)}'
        if r2 < 0.3:
            return f'({e} ?? {self.lit(d)}) {self.ch(["=", "!="])} {self.value(d)}'
        if r2 < 0.4 and base == 'std::str':
            return f"{e} {self.ch(['like', 'ilike'])} {self.ch([chr(39) + 'a%' + chr(39), self.param(base)])}"
        if r2 < 0.5:
            return f'{e} in {{{self.lit(d)}, {self.value(d)}}}'
        if base in ('std::int64', 'std::float64', 'std::datetime', 'std::str'):
            return f'{e} {self.ch(["=", "!=", "<", ">=", ">"])} {self.value(d)}'
        if base == 'std::bool':
            return e if self.p(0.5) else f'{e} = {self.value(d)}'
        return f'{e} = {self.value(d)}'

    # --------------------------------------------------------- object sets
    def obj_set(self, T, depth=2):
        """an expression of type set of T (parenthesised when needed)"""
        r = self.rng.random()
        if depth <= 0 or r < 0.2:
            return T
        if r < 0.55:
            q = f'select {T} filter {self.bool_expr(T, T, depth - 1)}'
            if self.p(0.3):
                e, _ = self.single_scalar(T, T, 0)
                q += f' order by {e}'
                if self.p(0.5):
                    q += f' limit {self.ch(["1", "2", self.param("std::int64")])}'
            return f'({q})'
        if r < 0.7:
            subs = self.types[T]['subtypes']
            if subs:
                return f'(select {self.ch(subs)})'
        if r < 0.85:
            # via a link from another type
            srcs = [(S, n) for S, n in self.backlinks(T)
                    if self.types[S]['ptrs'][n]['target'] == [T]]
            if srcs:
                S, n = self.ch(srcs)
                return f'{self.obj_set(S, depth - 1)}.{n}'
        if r < 0.93:
            return f'(select {T} limit {self.ch(["1", "3"])})'
        return f'(select {T} offset 1 limit 2)'

    def single_obj(self, T):
        if self.p(0.5):
            return f'(select {T} limit 1)'
        props = self.props(T, multi=False, computed=False)
        if props and self.p(0.7):
            n, d = self.ch(props)
            return f'assert_single((select {T} filter .{n} = {self.value(d)}))'
        return f'assert_single({self.obj_set(T, 1)})'

    # --------------------------------------------------------------- shapes
    def shape(self, T, depth, root_alias=None):
        els = []
        props = self.props(T)
        for n, d in self.rng.sample(props, min(len(props), self.rng.randint(1, 3))):
            els.append(n)
        r = self.rng
        if depth > 0:
            for ln, ld in r.sample(self.links(T), min(len(self.links(T)), r.randint(0, 2))):
                if len(ld['target']) > 1:
                    T2 = self.ch(ld['target'])
                    els.append(f'{ln}[is {T2}]: {self.shape(T2, depth - 1)}')
                    continue
                T2 = ld['target'][0]
                sh = self.shape(T2, depth - 1)
                lps = [k for k, v in ld.get('lprops', {}).items()]
                if lps and self.p(0.6):
                    sh = sh[:-1].rstrip() + f', @{self.ch(lps)} }}'
                mods = ''
                if ld['multi'] and self.p(0.5):
                    if self.p(0.6):
                        mods += f' filter {self.bool_expr(T2, "", 0)}'
                    e, _ = self.single_scalar(T2, '', 0)
                    mods += f' order by {e}'
                    if self.p(0.5):
                        mods += ' limit 2'
                els.append(f'{ln}: {sh}{mods}')
        # computed elements
        for _ in range(r.randint(0, 2)):
            nm = self.ch(['c1', 'c2', 'comp', 'z'])
            if any(e.startswith(nm + ' :=') for e in els):
                continue
            k = r.random()
            if k < 0.25:
                e, b = self.any_scalar(T, '')
                d = {'base': b, 'type': b}
                els.append(f'{nm} := {e} ?? {self.lit(d)}')
            elif k < 0.4:
                ls = self.links(T, multi=True)
                if ls:
                    ln, ld = self.ch(ls)
                    els.append(f'{nm} := {self.ch(["count", "exists"])}(.{ln})'
                               .replace('exists(', 'exists ('))
            elif k < 0.55 and depth > 0:
                bl = self.backlinks(T)
                if bl:
                    S, ln = self.ch(bl)
                    els.append(f'{nm} := .<{ln}[is {S}] {self.shape(S, depth - 1)}')
            elif k < 0.7 and depth > 0:
                ls = [(n, d) for n, d in self.links(T) if len(d['target']) == 1]
                if ls:
                    ln, ld = self.ch(ls)
                    T2 = ld['target'][0]
                    e, _ = self.single_scalar(T2, '', 0)
                    q = f'(select .{ln} filter {self.bool_expr(T2, "", 0)}'
                    if e.startswith('.') and self.p(0.6):
                        q += f' order by {e} {self.ch(["asc", "desc"])}'
                        if self.p(0.6):
                            q += ' limit 1'
                    els.append(f'{nm} := {q}) {self.shape(T2, depth - 1)}')
            elif k < 0.8:
                els.append(f'{nm} := {self.ch(["random()", "<str>random()", "uuid_generate_v4()", "datetime_current()"])}')
            elif k < 0.9:
                subs = self.types[T]['subtypes']
                if subs:
                    S = self.ch(subs)
                    extra = [n for n, d in self.props(S) if n not in self.types[T]['ptrs']]
                    if extra:
                        els.append(f'[is {S}].{self.ch(extra)}')
            else:
                e, b = self.single_scalar(T, '', 1)
                els.append(f'{nm} := ({e}, {self.value({"base": b, "type": b})})')
        if not els:
            els = ['id']
        seen = set()
        uniq = []
        for e in els:
            key = re.split(r'[\s:\[]', e, maxsplit=1)[0]
            if key in seen:
                continue
            seen.add(key)
            uniq.append(e)
        return '{ ' + ', '.join(uniq) + ' }'

    # -------------------------------------------------------------- queries
    def q_select(self):
        T = self.ch(self.types)
        q = f'select {T} {self.shape(T, self.rng.randint(0, 3))}'
        if self.p(0.6):
            q += f' filter {self.bool_expr(T, "", 2)}'
        if self.p(0.5):
            e, _ = self.single_scalar(T, '', 1)
            q += f' order by {e} {self.ch(["", "asc", "desc", "desc empty last"])}'
            if self.p(0.3):
                e2, _ = self.single_scalar(T, '', 0)
                q += f' then {e2}'
        if self.p(0.3):
            q += f' offset {self.ch(["1", self.param("std::int64")])}'
        if self.p(0.4):
            q += f' limit {self.ch(["1", "5", self.param("std::int64"), f"(select count({self.ch(self.concrete)}))"])}'
        return 'select', q

    def q_path(self):
        T = self.ch(self.concrete)
        s = self.obj_set(T, 2)
        k = self.rng.random()
        if k < 0.3:
            e, _ = self.any_scalar(T, f'(X)')
            return 'path', f'with X := {s} select {e.replace("(X)", "X")}'
        if k < 0.5:
            ls = self.links(T)
            if ls:
                ln, ld = self.ch(ls)
                tgt = self.ch(ld['target'])
                suffix = f'[is {tgt}]' if len(ld['target']) > 1 or self.p(0.2) else ''
                return 'path', f'select {s}.{ln}{suffix} {self.shape(tgt, 1)}'
        if k < 0.7:
            bl = self.backlinks(T)
            if bl:
                S, ln = self.ch(bl)
                return 'backlink', f'select {s}.<{ln}[is {S}] {self.shape(S, 1)}'
        if k < 0.85:
            lks = [(n, d) for n, d in self.links(T, computed=False) if d.get('lprops')]
            if lks:
                ln, ld = self.ch(lks)
                lp = self.ch(ld['lprops'])
                return 'linkprop', f'select {T} {{ {ln}: {{ @{lp} }}, m := max(.{ln}@{lp}) }} ' \
                                   f'filter exists .{ln}@{lp}'
        return 'path', f'select distinct {s}'

    def q_tuple(self):
        T = self.ch(self.concrete)
        U = self.ch(self.concrete)
        a, _ = self.any_scalar(T, T)
        b, bt = self.single_scalar(U, U)
        k = self.rng.random()
        if k < 0.3:
            return 'tuple', f'select ({a}, {b}, {self.param(bt, optional=self.p(0.5))})'
        if k < 0.5:
            return 'tuple', f'select ({T} {self.shape(T, 1)}, {U} {self.shape(U, 0)})'
        if k < 0.7:
            return 'array', f'select [{a}] ++ array_agg({a})'
        if k < 0.85:
            return 'tuple-param', f'select (<tuple<str, int64>>${self.tparam()}).0 ++ {self.cast_str(a)}'
        return 'tuple-param', f'with t := <tuple<a: str, b: array<tuple<int64, str>>>>${self.tparam()} ' \
                              f'select (t.a, t.b, {b})'

    def tparam(self):
        i = self.nparams
        self.nparams += 1
        return str(i) if self.positional else f't{i}'

    def cast_str(self, e):
        return f'<str>{e}'

    def q_agg(self):
        T = self.ch(self.concrete)
        k = self.rng.random()
        nums = [(n, d) for n, d in self.props(T, multi=False) if d['base'] == 'std::int64']
        if k < 0.3 and nums:
            n, d = self.ch(nums)
            return 'aggregate', f'select ({self.ch(["sum", "max", "min"])}({T}.{n}), count({self.obj_set(T, 1)}))'
        if k < 0.6:
            ls = self.links(T)
            if ls:
                ln, ld = self.ch(ls)
                return 'aggregate', f'select {T} {{ n := count(.{ln}), r := random() }} ' \
                                    f'filter count(.{ln}) {self.ch([">", "="])} {self.value({"base": "std::int64", "type": "std::int64"})}'
        e, b = self.single_scalar(T, T, 0)
        return 'aggregate', f'select (count({T}), array_agg({e}), {self.ch(["random()", "1"])})'

    def q_group(self):
        T = self.ch(self.concrete)
        keys = [n for n, d in self.props(T, multi=False)] + \
               [n for n, d in self.links(T, multi=False, computed=False)]
        if not keys:
            return self.q_select()
        key = self.ch(keys)
        k = self.rng.random()
        if k < 0.4:
            return 'group', f'select (group {T} by .{key}) {{ k := .key.{key}, n := count(.elements) }}'
        if k < 0.7:
            return 'group', f'for g in (group {T} by .{key}) select (g.key.{key}, count(g.elements))'
        e, _ = self.single_scalar(T, '', 0)
        return 'group', f'group {T} {self.shape(T, 1)} using z := {e} by z'

    def q_for(self):
        T = self.ch(self.concrete)
        k = self.rng.random()
        v = self.var()
        if k < 0.3:
            if not self.first_link(T):
                return self.q_select()
            return 'for', f'for {v} in {{1, 2, 3}} union (select {T} {self.shape(T, 1)} ' \
                          f'filter count(.{self.first_link(T)}) = {v})'
        if k < 0.55:
            return 'for', f'select (for {v} in {self.obj_set(T, 1)} union ({v} {self.shape(T, 1)}, random()))'
        if k < 0.8:
            e, b = self.single_scalar(T, v, 1)
            w = self.var()
            return 'for', f'for {v} in {T} union (for {w} in {{1, 2}} union ({e}, {w}))'
        return 'for-dml', self.for_dml(T, v)

    def first_link(self, T):
        ls = self.links(T, multi=True)
        return ls[0][0] if ls else None

    def insert_body(self, T, depth=1, var=None):
        els = []
        for n, d in self.types[T]['ptrs'].items():
            if d['computed']:
                continue
            need = d['required'] and not d['default']
            if not need and not self.p(0.4):
                continue
            if d['link']:
                T2 = self.ch([t for t in d['target']])
                if self.types[T2]['abstract']:
                    subs = [s for s in self.concrete if T2 in self.ancestors(s)]
                    if not subs:
                        if need:
                            return None
                        continue
                    T2 = self.ch(subs)
                if depth > 0 and self.p(0.35):
                    body = self.insert_body(T2, depth - 1)
                    if body is None:
                        if need:
                            return None
                        continue
                    v = f'(insert {T2} {body})'
                elif d['multi']:
                    v = self.obj_set(T2, 1)
                    if v == T2:
                        v = f'(select {T2})'
                else:
                    v = self.single_obj(T2)
                lps = [k for k, lv in d.get('lprops', {}).items() if not lv['computed']
                       and lv['type'] in LITS]
                if lps and self.p(0.5) and not v.startswith('(insert'):
                    lp = self.ch(lps)
                    lv = self.lit({'base': d['lprops'][lp]['type'], 'type': d['lprops'][lp]['type']})
                    v = f'{v} {{ @{lp} := {lv} }}' if v.startswith('(') else f'(select {v} {{ @{lp} := {lv} }})'
                els.append(f'{n} := {v}')
            else:
                if d.get('base') not in LITS:
                    if need:
                        return None
                    continue
                if d['multi']:
                    v = f'{{{self.lit(d)}, {self.value(d)}}}'
                elif var is not None and d['base'] == 'std::str' and self.p(0.5):
                    v = f'<str>{var}'
                    if d['type'] != d['base']:
                        v = f"<{d['type'].replace('default::', '')}>{v}"
                elif var is not None and d['base'] == 'std::int64' and self.p(0.5):
                    v = var
                else:
                    v = self.value(d)
                els.append(f'{n} := {v}')
        return '{ ' + ', '.join(els) + ' }'

    def excl_props(self, T):
        return [n for n, d in self.props(T, multi=False, computed=False)]

    def q_insert(self):
        T = self.ch(self.concrete)
        body = self.insert_body(T, 2)
        if body is None:
            return self.q_select()
        q = f'insert {T} {body}'
        k = self.rng.random()
        kind = 'insert'
        if k < 0.2:
            q += ' unless conflict'
            kind = 'insert-unless-conflict'
        elif k < 0.45:
            ps = self.excl_props(T)
            if ps:
                pn = self.ch(ps)
                els = self.ch([f'(select {T})', f'(update {T} set {{ {pn} := .{pn} }})', T])
                q += f' unless conflict on .{pn} else {els}'
                kind = 'insert-unless-conflict-else'
        k2 = self.rng.random()
        if k2 < 0.3:
            q = f'select ({q}) {self.shape(T, 1)}'
            kind += '+select'
        elif k2 < 0.45:
            v = self.var()
            q = f'with {v} := ({q}) select ({v}, count({self.ch(self.concrete)}))'
            kind += '+with'
        return kind, q

    def for_dml(self, T, v):
        body = self.insert_body(T, 1, var=v)
        if body is None:
            return f'for {v} in {{1, 2}} union (select {v})'
        return f'for {v} in {{1, 2, 3}} union (insert {T} {body})'

    def q_update(self):
        T = self.ch(self.concrete)
        sets = []
        for n, d in self.rng.sample(self.props(T, writable=True),
                                    min(2, len(self.props(T, writable=True)))):
            if d['multi']:
                sets.append(f'{n} {self.ch([":=", "+=", "-="])} {{{self.lit(d)}}}')
            elif d['base'] == 'std::int64' and self.p(0.5):
                sets.append(f'{n} := (.{n} ?? 0) + {self.value(d)}')
            elif d['base'] == 'std::str' and d['type'] == d['base'] and self.p(0.5):
                sets.append(f"{n} := .{n} ++ '!'")
            else:
                sets.append(f'{n} := {self.value(d)}')
        for ln, ld in self.links(T, computed=False):
            if not self.p(0.4) or len(ld['target']) > 1:
                continue
            T2 = ld['target'][0]
            if self.types[T2]['abstract']:
                continue
            if ld['multi']:
                v = self.obj_set(T2, 1)
                if v == T2:
                    v = f'(select {T2})'
                sets.append(f'{ln} {self.ch([":=", "+=", "-="])} {v}')
            else:
                sets.append(f'{ln} := {self.single_obj(T2)}')
        if not sets:
            return self.q_select()
        q = f'update {T}'
        if self.p(0.8):
            q += f' filter {self.bool_expr(T, "", 1)}'
        q += ' set { ' + ', '.join(sets) + ' }'
        kind = 'update'
        if self.p(0.3):
            q = f'select ({q}) {self.shape(T, 1)}'
            kind = 'update+select'
        return kind, q

    def q_delete(self):
        T = self.ch(self.concrete)
        k = self.rng.random()
        if k < 0.5:
            q = f'delete {T} filter {self.bool_expr(T, "", 1)}'
        elif k < 0.8:
            e, _ = self.single_scalar(T, '', 0)
            q = f'delete (select {T} filter {self.bool_expr(T, "", 1)} order by {e} limit 1)'
        else:
            q = f'delete {self.obj_set(T, 1)}'
            if q == f'delete {T}':
                q = f'delete {T} filter {self.bool_expr(T, "", 0)}'
        kind = 'delete'
        if self.p(0.25):
            q = f'select ({q}) {self.shape(T, 0)}'
            kind = 'delete+select'
        return kind, q

    def q_setop(self):
        T = self.ch(self.concrete)
        k = self.rng.random()
        if k < 0.4:
            subs = [s for s in self.concrete if s != T]
            U = self.ch(subs) if subs else T
            return 'setop', f'select ({{{self.obj_set(T, 1)}, {self.obj_set(U, 1)}}}) {{ id }}'
        e1, b = self.single_scalar(T, T, 0)
        d = {'base': b, 'type': b}
        op = self.ch(['union', 'intersect', 'except'])
        return 'setop', f'select ({e1} ?? {self.lit(d)}) {op} {{{self.lit(d)}, {self.value(d)}}}'

    def q_misc(self):
        T = self.ch(self.concrete)
        k = self.rng.random()
        if k < 0.2:
            e, b = self.single_scalar(T, T, 1)
            d = {'base': b, 'type': b}
            return 'if-else', f'select {self.lit(d)} if exists {self.obj_set(T, 1)} else ({e} ?? {self.lit(d)})'
        if k < 0.4:
            v = self.var()
            w = self.var()
            U = self.ch(self.concrete)
            return 'with', f'with {v} := {self.obj_set(T, 2)}, {w} := (select {U} filter ' \
                           f'{self.bool_expr(U, U, 1)}) select ({v} {self.shape(T, 1)}, count({w}))'
        if k < 0.55:
            gs = list(self.globals)
            if gs:
                g = self.ch(gs)
                gd = self.globals[g]
                if gd['is_obj']:
                    T2 = gd['type'].replace('default::', '')
                    if T2 in self.types:
                        return 'global', f'select (global {g}) {self.shape(T2, 1)}'
                return 'global', f'select (global {g}, {T} {self.shape(T, 0)})'
        if k < 0.7:
            return 'json', f'select <json>(select {T} {self.shape(T, 1)})'
        if k < 0.85:
            e, bt = self.single_scalar(T, T, 1)
            return 'optional', f'select {T} filter {e} ?= {self.param(bt, optional=True)} ' \
                               f'or ({self.bool_expr(T, T, 1)}) ?? false'
        return 'detached', f'select {T} {{ same := (select detached {T} filter .id = {T}.id) {self.shape(T, 0)} }}'

    def q_pack(self):
        """volatile / multiply referenced bindings of nested-tuple or tuple-with-object values: the compiler
        packs them (array_agg) and unpacks them again (relctx.unpack_var)"""
        T = self.ch(self.concrete)
        v, x = self.var(), self.var()
        e1, _ = self.single_scalar(T, v, 0)
        e2, _ = self.single_scalar(T, v, 1)
        k = self.rng.random()
        if k < 0.3:
            return 'pack-unpack', f'with {x} := (for {v} in {self.obj_set(T, 1)} union ({e1}, (random(), {e2}))) ' \
                                  f'select ({x}, {x}.1)'
        if k < 0.55:
            return 'pack-unpack', f'with {x} := (for {v} in {T} union (random(), {v} {self.shape(T, 1)})) ' \
                                  f'select ({x}.0, {x})'
        if k < 0.8:
            p1, _ = self.single_scalar(T, '', 0)
            return 'pack-unpack', f'select {T} {{ pk := (random(), ({self.ch(["1", "true"])}, {p1})) }} ' \
                                  f'filter .pk.0 > 0.5'
        p1, _ = self.single_scalar(T, '', 0)
        p2, _ = self.single_scalar(T, '', 1)
        return 'pack-unpack', f'with {x} := (select {T} {{ pk := (random(), ({p1}, {p2})) }}) ' \
                              f'select ({x} {{ pk }}, {x}.pk.1)'

    def q_global(self):
        """queries whose only (or first) reference to a rewritten type is through a computed global"""
        gs = [(g, gd) for g, gd in self.globals.items() if gd['computed']]
        if not gs:
            return self.q_select()
        g, gd = self.ch(gs)
        T = self.ch(self.concrete)
        gt = gd['type'].replace('default::', '')
        k = self.rng.random()
        if gd['is_obj'] and gt in self.types:
            if k < 0.4:
                return 'global-only', f'select (global {g}) {self.shape(gt, 1)}'
            if k < 0.7:
                return 'global-first', f'select ((global {g}) {self.shape(gt, 0)}, {T} {self.shape(T, 0)})'
            return 'global-last', f'select ({T} {self.shape(T, 1)}, count(global {g}))'
        if k < 0.4:
            return 'global-only', f'select global {g}'
        if k < 0.7:
            return 'global-first', f'select (global {g}, count({self.obj_set(T, 1)}))'
        return 'global-last', f'select {T} {self.shape(T, 1)} filter exists (global {g})'

    KINDS = [('q_global', 5), ('q_pack', 8), ('q_select', 30), ('q_path', 10), ('q_tuple', 8), ('q_agg', 6), ('q_group', 6),
             ('q_for', 8), ('q_insert', 12), ('q_update', 8), ('q_delete', 5), ('q_setop', 4),
             ('q_misc', 8)]

    def gen(self):
        self.reset()
        names = [k for k, w in self.KINDS for _ in range(w)]
        r = self.rng.random()
        if r < 0.06:
            # a script: parameters are numbered through, each statement uses only its own
            self.positional = False
            k1, q1 = getattr(self, self.ch(names))()
            k2, q2 = getattr(self, self.ch(names))()
            return 'script', f'{q1}; {q2}'
        kind, q = getattr(self, self.ch(names))()
        if r < 0.16 and not self.positional and re.match(r'^(select|insert|update|delete|for) ', q):
            # a declared but unreferenced parameter (unused WITH binding), often next to a global
            t = self.ch(['std::str', 'std::int64', 'array<str>', 'tuple<str, int64>'])
            v = self.var()
            opt = self.p(0.3) and not t.startswith(('array', 'tuple'))
            q = f'with {v} := {self.param(t, optional=opt)} {q}'
            kind += '+unused-param'
        return kind, q


FIXED = {
    'issues': '''
select User {name, todo: {name, @rank}} filter .name = <str>$0
select Issue { te := .time_estimate ?? -1 }
SELECT (Issue.name, Issue.time_estimate ?= 60)
SELECT opt_test(0, <str>Issue.time_estimate)
select Owned { z := .owner.name ?= <optional str>$0 }
select User { z := .name ++ "!" } order by .z
update User set { name := .name ++ '!' }
select (group Issue by .status) { name := .key.status.name, num := count(.elements) } order by .name
for g in (group Issue by .status) select (g.key.status.name, count(g.elements))
select Named { [IS User].todo:{name} }
select Issue { z := .owner.todo }
select Issue { name } order by .name = <str>$0
select (select (1, 'foo'))
select fts::search(Issue, 'spiced', language := 'eng').object
select Issue { name, number, tid := .__type__.id }
for x in {1,2,3} union (for y in {3,4,5} union (x+y))
with x := materialized(1 + 2) select ({x}, {x})
with x := materialized((select User { x := (1 + 2) } filter .name = 'Alice')) select ({x {x}}, {x {x}})
insert User { name := "test" } unless conflict
insert User { name := "test" } unless conflict on (.name) else (User)
insert User { name := "test" } unless conflict on (.name) else (update User set {name := "foo"})
select Issue filter .owner.name = global cur_user
select (global opt_g, global req_g)
select Issue { name, watchers: {name} order by .name limit 2 } filter exists .watchers offset 1 limit <int64>$lim
select User { name, issues := .<owner[is Issue] {name, n := count(.watchers)} }
delete Issue filter .owner.name = 'x'
update Issue filter .name = 'a' set { watchers += (select User filter .name = 'b'), time_estimate := 3 }
update Issue filter .name = 'a' set { watchers -= (select User filter .name = 'b') }
for x in {1,2} union (insert User { name := <str>x })
with u := (insert User {name := 'z'}) select u { name, todo }
select random() + random()
select (for x in {1,2} union (x, random()))
select (Issue.name, Issue.owner.name) union ('a','b')
select {1,2} intersect {2,3}
select distinct Issue.owner
select Issue { refs := .references[is URL] { address } }
select if exists Issue.priority then Issue.priority.name else 'none'
select <tuple<str,int64>>$0
select enumerate(Issue.name)
select (Issue.name, Issue.time_estimate) order by .1 desc empty last then .0
select Issue { name, related_to: { name, related_to: {name} } }
select Issue { name, comments := .<issue[is Comment] { body, parent: {body} } }
with U := User select U { name, same := (select User filter .name = U.name) }
select <json>(select Issue {name, owner: {name}})
select Issue order by (select count(.watchers)) then .name limit (select count(User))
select sum((for x in Issue.time_spent_log union x.spent_time))
delete (select User filter .name = 'x' limit 1)
insert Issue { name := 'a', body := 'b', number := '1', owner := (select User filter .name = 'u' limit 1), status := (insert Status { name := 'Open' }) }
insert Issue { name := 'a', body := 'b', number := '1', owner := (insert User {name := 'z'} unless conflict on .name else (select User)), status := (select Status limit 1), watchers := (select User filter .name in {'a','b'}) }
select Text { body, [is Issue].name, [is Comment].issue: {name} }
select Issue { name, owner: { name, @since } }
select Issue filter .owner = (select User filter .name = <str>$n) and .time_estimate ?? 0 > <optional int64>$m
select (<optional str>$a ?? 'x', <str>$b, <optional tuple<int64, str>>$c)
with a := (select Issue filter .name = 'x'), b := (select a.owner) select (a.name, b.name)
select (update User filter .name = 'x' set { name := 'y' }) { name }
select Issue { name, has_high := .priority.name ?= 'High', w := (select .watchers filter .name != 'q' order by .name limit 1) { name } }
select Publication { title, title1, title5, authors: {name, @list_order} order by @list_order }
select (<str>$0, <optional int64>$1, <array<str>>$2)
select Issue { name } filter .tags = <array<str>>$tags and contains(.tags, <str>$t)
''',
    'cards': '''
select User { deck[is SpecialCard]: { name, @count } }
insert User { name := "x", avatar := (select Card filter .name = 'Dragon') } unless conflict on (.avatar) else (User)
select User { name, deck_cost, deck: { name, cost, @count, @total_cost } order by @count desc then .name }
select Card { name, owners: { name }, good_awards: { name }, best_award: { name } }
select Award { name, winner: { name, deck: { name } } }
select AirCard { name, owners: {name} }
select WaterOrEarthCard { name, owned_by_alice }
select AwardAlias { name, winner: { name, name_upper } }
select (global HighestCost, count(global CardsWithText))
select User { name, avatar: { name, @text, @tag } } filter .avatar.name ?= <optional str>$0
insert Bot { name := 'b', friends := (select User filter .name = 'Alice') { @nickname := 'al' } }
update User filter .name = 'Alice' set { deck += (select Card filter .element = 'Fire') { @count := 2 } }
update User filter .name = 'Alice' set { avatar := (select Card filter .name = 'Imp' limit 1) { @text := 'hi' } }
delete User filter .name = 'Dave'
for c in Card union (select User { name } filter c in .deck)
select Card { name, n := count(.<deck[is User]) } filter .cost > <int64>$0 order by .n desc then .name limit 3
select (for u in User union (u.name, count(u.deck), sum(u.deck.cost)))
select User { name, f := .friends { name, @nickname } } filter exists .friends@nickname
group Card { name } by .element
select (group Card by .element) { el := .key.element, total := sum(.elements.cost), cards := .elements { name } }
insert Card { name := 'c', element := 'Air', cost := 1, awards := (insert Award { name := 'A1' }) }
select Named { name, [is Card].element, [is User].deck_cost }
''',
    'shop': '''
select Order {number, total, lines: {qty, amount, item: {label}}} filter .customer.spent > 10
insert Tracked {name := "a", val := 1}
update Tracked filter .name = "a" set {val := .val + 1}
delete Tracked filter .val > 3
insert Customer {name := "x", email := "e"} unless conflict on .email else (select Customer)
insert VipCustomer {name := "x", email := "e"}
insert PlatinumCustomer {name := "x", email := "e", discount := 0.5, manager := (insert Employee {name := 'boss'})}
update Order filter .number = 1 set {status := "paid", lines += (insert OrderLine {item := (select Item limit 1)})}
select (global cur_cust) {name, orders: {total}}
select best_items(<int64>$n) {name, t := item_total(best_items(2), 3)}
select Cheap {name}
select Customer {name, order_count, spent, friends: {name, @since, @trust} order by @since} filter .tier = (global tenant ?? 0)
select Employee {name, reports: {name, reports: {name}}, manages: {name, perks}}
select Category {name, children: {name, children: {name}}, parent: {parent: {name}}}
select Item {name, label, expensive, w := .dims.w, related: {name, @weight}} filter .dims.h ?? 0 > <int64>$h
delete Order filter .status = 'cancelled'
for i in Item union (insert OrderLine {item := i, qty := 2})
with o := (insert Order {customer := assert_single((select Customer filter .name = <str>$c)), number := <int64>$n}) select o {number, customer: {name}}
update Customer filter .name = global cur_user set {nicknames += 'nick', friends += (select detached Customer filter .tier > 2) {@since := 2020}}
update Customer filter .name = 'a' set {favorite := (select Item filter .name = 'i' limit 1) {@note := 'n'}}
select Customer {name, [is VipCustomer].perks, [is PlatinumCustomer].discount, m := [is VipCustomer].manager {name}}
select (Order, Order.lines, Order.lines.item) {id}
select OrderLine {qty, amount, order: {number}}
select Item {name} filter .name in array_unpack(<array<str>>$names) order by .price limit <optional int64>$lim
insert Item {name := 'i', price := 3, category := (insert Category {name := 'c', parent := (insert Category {name := 'p'})})}
select (select Order filter .total > 100 order by .number desc limit 3) {number, lines: {amount} order by .amount desc limit 2}
''',
}


FIXED['long'] = f'''
select {LONG_T} {{ {LONG_P}, {LONG_L}: {{ {LONG_P}, {LONG_L}: {{ short }} }} }} filter .{LONG_P} = "x" order by .{LONG_P}
select ({LONG_T}.{LONG_P}, {LONG_T}.{LONG_L}.{LONG_P}, count({LONG_T}.{LONG_L}))
with x := (select {LONG_T} filter .short = 1) select x {{ {LONG_P}, y := .{LONG_L}.{LONG_P} ?? "a" }}
select <tuple<a_very_long_tuple_element_name_that_is_longer_than_fifty_one_chars: str, b: int64>>$0
for v in {LONG_T} union (v.{LONG_P}, (select v.{LONG_L} {{ {LONG_P} }} limit 1))
insert {LONG_T} {{ {LONG_P} := "a", {LONG_L} := (select detached {LONG_T} filter .{LONG_P} = "b") }}
update {LONG_T} filter .{LONG_P} = "a" set {{ {LONG_L} += (select detached {LONG_T} filter .short = 2) }}
select (group {LONG_T} by .{LONG_P}) {{ k := .key.{LONG_P}, n := count(.elements) }}
'''


# declared-but-unreferenced parameters (an unused WITH binding is not compiled into the SQL, so the
# parameter must end up in the `__unused_vars` CTE) next to optional globals WITH a default (one
# query_params entry, two placeholders: value + `present__`), tuple parameters, and scripts
FIXED['issues'] += '''
with y := <int64>$x select global opt_g
with unused := <str>$p select (global opt_g ?? 0, count(Issue))
with a := <optional str>$a, b := <int64>$b select Issue { name } filter .time_estimate ?= (global opt_g)
with t := <tuple<str, int64>>$t select (global opt_g ?? 1, global req_g)
with u := <array<str>>$tags select (global opt_g, <str>$used)
select <str>$a; select <int64>$b + (global opt_g ?? 0)
select (global opt_g, <optional str>$a ?? 'x'); select (global opt_g ?? 1) + <int64>$b; select global req_g
select (<tuple<str,int64>>$t).0; select (global opt_g ?? 0, <str>$s)
'''
FIXED['shop'] += '''
with u := <optional str>$q select Order { number } filter .number > (global tenant ?? 0)
with u := <int64>$n, v := <str>$s select (global tenant, global region)
with z := <datetime>$d select Customer { name } filter .tier = (global tenant ?? 0) and .name = <str>$nm
select (global tenant ?? 0) + <int64>$k; insert AuditLog { what := <str>$w }
with unused := <int64>$u update Tracked filter .val = (global tenant ?? 0) set { val := <int64>$v }
'''


# pack / unpack of nested-tuple and tuple-with-object values (relctx.unpack_var emits several
# `ROWS FROM (unnest(..) AS (_tK ..))` functions into one FROM list; the inner ones reference the
# columns the outer ones define)
FIXED['issues'] += '''
with x := (for i in {1,2} union (i, (random(), i))) select (x, x)
with x := (for u in User union (random(), u { name })) select (x.1.name, x.0, x)
select User { name, r := (random(), (1, .name)) } filter .r.0 > 0.5
with x := (for i in Issue union (i.name, (random(), i.owner { name }))) select (x.1.1.name, x)
with x := (select (1, (random(), 2))) select (x, x)
with x := (for i in {1,2} union ((a := i, b := (c := random(), d := (e := i, f := 'x'))))) select (x.b.d.f, x, x.b)
with a := array_agg((for i in {1,2} union (i, (random(), i)))) select (array_unpack(a), array_unpack(a))
for g in (group Issue using t := (.name, (.body, .time_estimate ?? 0)) by t) union (g.key.t, count(g.elements))
'''
FIXED['cards'] += '''
with x := (for c in Card union ((n := c.name, o := (r := random(), c := c { name, cost })))) select (x.o.c.cost, x, x.o)
with u := (select User { name, p := (for d in .deck union (d.name, (random(), d.cost))) }) select (u { name, p }, u.p)
with x := (select User { name, r := random(), d := .deck { name, c := random() } }) select (x { name, r, d: {name, c} }, x.r)
'''
FIXED['shop'] += '''
with x := (for i in Item union (i.price, (datetime_current(), i.dims, random()))) select (x, x.1.1)
with c := (select Customer { name, t := (random(), (.tier, .name)) }) select (c { name, t }, c.t.1)
'''


# dependent type-rewrite CTEs (access policies, computed globals; corpus/C13/policies.esdl): queries that
# mention ONLY the outer type / global, so that the inner rewritten type is first met while the outer
# rewrite's body is compiled, and queries that mention both in either order
FIXED['policies'] = '''
select Doc { title }
select Audit { what }
select Memo { body }
select Ledger { entry }
select Board { title, pinned: { title } }
select global n_people
select (global top_person) { name }
select global n_visible
select (global my_team) { name, members: { name } }
select (global visible_docs) { title, owner: { name } }
select (count(Person), global n_people)
select (global n_people, count(Person))
select (Doc, global visible_docs)
select (global n_visible, count(Doc))
select Plain { val, board: { title } }
select Person { name } filter .rank in global ranks
select count(Board) + global n_visible
insert Ledger { entry := <str>$e }
update Board filter .title = 'a' set { pinned += (global visible_docs) }
delete Audit filter .what = 'x'
select (global top_person).boss { name }
with t := global my_team select (t.name, count(Person), global n_people)
select Note { text, doc: { title } } filter .doc in global visible_docs
select sys::Database { name }
select (global n_people, count(sys::Database))
select Folder { label, notes: { text, doc: { title, team: { name, lead: { name } } } } }
select Tag { label, docs: { title } } filter exists (global top_person)
select (Person, Doc)
select (Doc, Person)
for d in (global visible_docs) union (d.title, global n_people)
select (group Doc by .owner) { k := .key.owner.name, n := count(.elements), m := global n_visible }
'''


# JSON output mode (json_build_object / json_agg serialisation paths), incl. named tuples whose element
# names are OLD / NEW / VALUE or contain upper-case letters
FIXED_JSON = {
    'issues': '''
select <tuple<OLD: int64, VALUE: str>>$0
select <tuple<NEW: int64, b: str>>$0
select <tuple<Alpha: int64, beta: array<tuple<Gamma: str, delta: int64>>>>$0
select (OLD := 1, VALUE := 'x', NEW := [1, 2])
select (for x in {(OLD := 1, VALUE := 'a')} union (x.OLD, x))
with x := (for i in {1, 2} union (VALUE := i, Rest := (random(), i))) select (x, x.VALUE)
select Issue { name, owner: { name }, t := (OLD := .name, New := .time_estimate) }
select User { name, todo: { name, @rank } } filter .name = <str>$0
select (Issue.name, (Issue.body, count(Issue.watchers)))
select array_agg((a := Issue.name, B := Issue.time_estimate ?? 0))
select <json>(select Issue { name, owner: { name } })
select (group Issue by .status) { k := .key.status.name, n := count(.elements) }
''',
    'cards': '''
select User { name, deck: { name, @count }, t := (VALUE := .deck_cost, n := count(.friends)) }
select (for u in User union (NEW := u.name, d := array_agg(u.deck.name)))
''',
    'shop': '''
select Item { name, dims, d2 := (W := .dims.w, H := .dims.h) }
select Order { number, total, lines: { qty, amount } } filter .number = <int64>$n
''',
}


# ---------------------------------------------------- tuple-parameter family
# Queries whose parameters include tuple-typed ones (tuple_args: an encoded PARENT parameter without a physical
# slot + its decoded sub-parameters) in every position of the parameter list, with and without globals.  Each is
# compiled by the real server compiler twice: as an uncached request (detach_params=False) and as a cacheable one
# (cache key => detach_params=True, CompileResult.detached_params, __qh_ wrapper function).

TP_SHAPES = [
    # (tag, type, use of the parameter P)
    ('tuple', 'tuple<int64, str>', '({P}).1'),
    ('named-tuple', 'tuple<a: str, b: int64>', '({P}).a'),
    ('array-of-tuple', 'array<tuple<int64, str>>', 'len({P})'),
    ('nested-tuple', 'tuple<int64, tuple<str, int64>>', '({P}).1.0'),
    ('tuple-with-array-of-tuple', 'tuple<str, array<tuple<int64, str>>>', '({P}).0'),
    ('array-of-nested-tuple', 'array<tuple<str, tuple<int64, bool>>>', '{P}'),
]
TP_SCALARS = ['int64', 'str', 'bool', 'float64', 'array<int64>']
TP_POSITIONS = ['only', 'first', 'middle', 'last', 'two-tuples', 'last-after-two']


def tuple_param_query(rng, pos, shape, globs, named=False, optional=False):
    tag, typ, use = shape
    def pname(i):
        return f'p{i}' if named else str(i)
    def scal(i):
        t = rng.choice(TP_SCALARS)
        return f'<{"optional " if rng.random() < 0.3 else ""}{t}>${pname(i)}'
    def tup(i, sh=None):
        _, ty, us = sh or shape
        return us.replace('{P}', f'<{"optional " if optional else ""}{ty}>${pname(i)}')
    if pos == 'only':
        items = [tup(0)]
    elif pos == 'first':
        items = [tup(0), scal(1)]
    elif pos == 'middle':
        items = [scal(0), tup(1), scal(2)]
    elif pos == 'last':
        items = [scal(0), tup(1)]
    elif pos == 'two-tuples':
        items = [tup(0), tup(1, rng.choice(TP_SHAPES))]
    else:
        items = [scal(0), scal(1), tup(2)]
    items += [f'global {g}' for g in globs]
    if len(items) == 1:
        return f'select {items[0]}'
    return 'select (' + ', '.join(items) + ')'


def gen_tuple_param_family(rng, descs):
    out = []
    gschema = 'issues' if 'issues' in descs else sorted(descs)[0]
    gnames = sorted(g for g, gd in descs[gschema].get('globals', {}).items() if not gd.get('computed')) \
        if isinstance(descs[gschema].get('globals'), dict) else []
    gsets = [()] + [(g,) for g in gnames] + ([tuple(gnames[:2])] if len(gnames) > 1 else [])
    others = sorted(descs)
    def add(pos, shape, globs, **kw):
        text = tuple_param_query(rng, pos, shape, globs, **kw)
        sch = gschema if globs else rng.choice(others)
        out.append(dict(schema=sch, kind=f'tuple-param-family:{pos}:{shape[0]}:{"globals" if globs else "no-globals"}',
                        text=text, pdetach=True))
    # core: every position x {no globals, each global set in turn}; every shape in the LAST position without globals
    for i, pos in enumerate(TP_POSITIONS):
        add(pos, TP_SHAPES[i % len(TP_SHAPES)], ())
        if len(gsets) > 1:
            add(pos, TP_SHAPES[(i + 1) % len(TP_SHAPES)], gsets[1 + i % (len(gsets) - 1)])
    for shape in TP_SHAPES:
        add('last', shape, ())
        add('only', shape, (), optional=True)
    # random part of the product
    for _ in range(24):
        add(rng.choice(TP_POSITIONS), rng.choice(TP_SHAPES), rng.choice(gsets),
            named=rng.random() < 0.3, optional=rng.random() < 0.3)
    seen, uniq = set(), []
    for q in out:
        if q['text'] not in seen:
            seen.add(q['text'])
            uniq.append(q)
    return uniq


def detach_oracle(r, want_detach):
    """(a) placeholders of the SQL are exactly $1..$N, N = physical parameters (no tuple parents) + globals + their
    present flags, numbered as the argmap says; (b) under detach_params the reported parameter list has exactly N
    entries and entry i is the pg type of what the argmap binds at $i (so: no entry for a tuple parent).
    -> list of (subkey, message)"""
    bad = []
    parents = [n for n, _, has_sub, _ in r['ir_params'] if has_sub]
    slots = [n for n, _, has_sub, _ in r['ir_params'] if not has_sub]
    flags = set()
    for n, _, has_present in r['ir_globals']:
        slots.append(n)
        if has_present:
            slots.append(n + 'present__')
            flags.add(n + 'present__')
    N = len(slots)
    am = {k: ix for k, ix, _, _ in r['argmap']}
    missing = [k for k in slots if k not in am]
    if missing:
        return [('count', f'argmap lacks {missing}')]
    bound = {}
    for k in slots:
        bound.setdefault(am[k], []).append(k)
    if sorted(bound) != list(range(1, N + 1)) or any(len(v) > 1 for v in bound.values()):
        bad.append(('count', f'the argmap binds the {N} physical parameters to {sorted(am[k] for k in slots)}, '
                             f'not to 1..{N}'))
    want = list(range(1, N + 1))
    if r['params_codegen'] != want:
        bad.append(('count', f'placeholders in the SQL tree are {r["params_codegen"]}, expected exactly 1..{N}'))
    if r.get('params_unit_text') is not None and r['params_unit_text'] != want:
        bad.append(('count', f'placeholders in the SQL text are {r["params_unit_text"]}, expected exactly 1..{N}'))
    dp = r.get('detached_params')
    if not want_detach:
        if dp:
            bad.append(('count', f'detach_params is off but detached_params = {dp}'))
        return bad
    dp = dp or []
    types = r.get('param_pg_types') or {}
    if len(dp) != N:
        # is the difference exactly the present flags of the globals ?
        nonflag = sorted(ix for ix, ks in bound.items() if ks[0] not in flags)
        if flags and len(dp) == len(nonflag) and all(
                dp[j] == types.get(bound[ix][0]) for j, ix in enumerate(nonflag)):
            bad.append(('present-flag',
                        f'detached_params has {len(dp)} entries {dp} but the SQL and the argmap use ${1}..${N}: the '
                        f'present flag(s) {sorted(flags)} (bound at {sorted(am[f] for f in flags)}) have no entry'))
        else:
            extra = ''
            if len(dp) > N and parents:
                extra = f' (tuple parent(s) {parents} own no physical slot and must have no entry)'
            bad.append(('count', f'detached_params has {len(dp)} entries {dp} but the SQL and the argmap use '
                                 f'{N} parameters $1..${N}{extra}'))
        return bad
    for ix in range(1, N + 1):
        k = bound.get(ix, [None])[0]
        if k is None or k in flags:
            continue
        if dp[ix - 1] != types.get(k):
            bad.append(('type', f'detached_params[{ix - 1}] = {dp[ix - 1]} but ${ix} is bound to {k!r} of pg type '
                                f'{types.get(k)}'))
    cf = r.get('cache_func')
    if isinstance(cf, dict) and cf.get('declared') is not None and len(cf['declared']) != N:
        bad.append(('count', f'the cache function is declared with {len(cf["declared"])} arguments, the query binds {N}'))
    if isinstance(cf, dict) and cf.get('call_placeholders') is not None and cf['call_placeholders'] != want:
        bad.append(('count', f'the cache function call passes {cf["call_placeholders"]}, expected 1..{N}'))
    return bad


def load_regressions():
    path = os.path.join(core.VERIF, 'corpus', 'C13', 'regressions.json')
    if not os.path.exists(path):
        return []
    return [dict(schema=c['schema'], kind='regression', text=c['text'], **({'fmt': c['fmt']} if c.get('fmt') else {}))
            for c in json.load(open(path))['cases']]


def gen_population(rng, descs, n_random):
    """-> list of dict(schema, kind, text); the regression corpus comes first"""
    out = load_regressions()
    have = {(o['schema'], o['text']) for o in out}
    for sname, txt in FIXED.items():
        for line in txt.strip().split('\n'):
            if line.strip() and (sname, line.strip()) not in have:
                out.append(dict(schema=sname, kind='fixed', text=line.strip()))
    gens = {s: QGen(rng, d) for s, d in sorted(descs.items())}
    snames = sorted(gens)
    for sname, txt in FIXED_JSON.items():
        for line in txt.strip().split('\n'):
            if line.strip():
                out.append(dict(schema=sname, kind='fixed-json', text=line.strip(), fmt='json'))
    have_t = {o['text'] for o in out}
    out.extend(q for q in gen_tuple_param_family(rng, descs) if q['text'] not in have_t)
    seen = {o['text'] for o in out}
    tries = 0
    n_fixed = len(out)
    while len(out) < n_random + n_fixed and tries < n_random * 5:
        tries += 1
        s = rng.choice([x for x in snames if x != 'long'] * 4 + ['long', 'policies', 'policies'])
        try:
            kind, text = gens[s].gen()
        except (IndexError, ValueError):
            continue
        if text in seen:
            continue
        seen.add(text)
        q = dict(schema=s, kind=kind, text=text)
        if rng.random() < 0.15:
            q['fmt'] = 'json'
            q['kind'] = kind + '@json'
        out.append(q)
    return out


# ======================================================================= worker
# A fresh interpreter (own PYTHONHASHSEED) that compiles every query of the
# population with the REAL compiler stack and writes what it saw.

def audit_unexported(tree, ex: Exporter):
    """ColumnRef/ParamRef nodes reachable through printable fields that the exporter did not
    visit (the exporter must never drop a reference silently)."""
    from edb.common.ast import base as astbase
    from edb.pgsql import ast as pgast
    missing = []
    seen = set()

    def walk(node, path):
        if isinstance(node, (list, tuple)):
            for n in node:
                walk(n, path)
            return
        if isinstance(node, dict):
            for n in node.values():
                walk(n, path)
            return
        if not isinstance(node, pgast.Base) or id(node) in seen:
            return
        seen.add(id(node))
        if isinstance(node, (pgast.ColumnRef, pgast.ParamRef)) and id(node) not in ex.seen_ids:
            what = '.'.join(map(str, node.name)) if isinstance(node, pgast.ColumnRef) else f'${node.number}'
            missing.append(f'{path}:{what}')
        for fname, val in astbase.iter_fields(node, include_meta=False):
            spec = node._fields[fname]
            if spec.hidden:
                continue
            if isinstance(node, pgast.SelectStmt) and node.values and fname not in ('values', 'ctes'):
                continue      # visit_SelectStmt prints only the rows of a VALUES node
            if fname in ('for_dml_stmt', 'type_or_ptr_ref', 'typeref', 'ir_origins', 'cols'):
                continue      # IR back-references / INSERT column name list
            walk(val, type(node).__name__ + '.' + fname)

    walk(tree, 'top')
    return missing


def split_unused(tree):
    """ParamRef numbers inside the `__unused_vars` CTE vs everywhere else."""
    from edb.common.ast import visitor
    from edb.pgsql import ast as pgast
    flagged = set()
    for cte in (getattr(tree, 'ctes', None) or []):
        if cte.name == '__unused_vars':
            flagged |= {p.number for p in visitor.find_children(cte.query, pgast.ParamRef)}
    return flagged


CANON_SKIP = {'for_dml_stmt', 'type_or_ptr_ref', 'typeref', 'ir_origins', 'ser_safe', 'is_packed_multi',
              'optional', 'strip_output_namespaces', 'span'}


def canon_tree(node):
    """JSON-able dump of a pgast tree (real names, operators, flags): what the two processes'
    trees are diffed on when their SQL texts differ.  A superset of what codegen prints."""
    import enum
    import uuid as _uuid
    from edb.common.ast import base as astbase
    from edb.pgsql import ast as pgast
    if isinstance(node, (list, tuple)):
        return [canon_tree(x) for x in node]
    if isinstance(node, (set, frozenset)):
        return sorted((canon_tree(x) for x in node), key=lambda x: json.dumps(x, sort_keys=True))
    if isinstance(node, dict):
        return {str(k): canon_tree(v) for k, v in node.items()}
    if isinstance(node, pgast.Base):
        out = {'_': type(node).__name__}
        for fname, val in astbase.iter_fields(node, include_meta=False):
            if node._fields[fname].hidden or fname in CANON_SKIP:
                continue
            if val is None or val == [] or val is False:
                continue
            if fname == 'relation' and isinstance(val, pgast.CommonTableExpr):
                out[fname] = {'_': 'CteRef', 'name': val.name}      # printed as the bare name
                continue
            if isinstance(node, pgast.SelectStmt) and node.values and fname not in ('values', 'ctes'):
                continue                                            # not printed for a VALUES node
            out[fname] = canon_tree(val)
        return out
    if isinstance(node, (str, int, float, bool)) or node is None:
        return node
    if isinstance(node, bytes):
        return node.hex()
    if isinstance(node, (enum.Enum, _uuid.UUID)):
        return str(node)
    return f'<{type(node).__name__}>'


class Capture:
    """Observes the real `edb.pgsql.compiler.compile_ir_to_sql_tree` from outside (wrapping the
    module attribute the server compiler calls): the IR statement, its CompileResult, and the names
    of the hoisted type-rewrite CTEs (`ctx.ordered_type_ctes`, seen by wrapping `clauses.insert_ctes`)."""

    def __init__(self):
        from edb.pgsql import compiler as pgc
        from edb.pgsql.compiler import clauses
        self.pgc = pgc
        self.orig = pgc.compile_ir_to_sql_tree
        self.calls = []
        self.detach_flags = []
        self._type_ctes = None
        orig_insert = clauses.insert_ctes

        def insert_ctes(stmt, ctx):
            self._type_ctes = [c.name for c in ctx.ordered_type_ctes]
            return orig_insert(stmt, ctx)

        clauses.insert_ctes = insert_ctes

        def wrapper(ir_expr, **kw):
            self._type_ctes = None
            res = self.orig(ir_expr, **kw)
            self.calls.append((ir_expr, res, self._type_ctes or []))
            self.detach_flags.append(bool(kw.get('detach_params')))
            return res

        pgc.compile_ir_to_sql_tree = wrapper
        self.probes = collections.Counter()
        self._install_probes()

    def _install_probes(self):
        """Observation-only wrappers around three places of the unmodified compiler that a code reading
        flagged as suspicious; a hit means the suspicious situation was REACHED by a real compilation."""
        from edb.ir import typeutils as irtyputils
        from edb.pgsql import ast as pgast, types as pg_types
        from edb.pgsql.compiler import astutils, pathctx
        probes = self.probes

        # (a) astutils.collapse_query collapsing a query that carries more than the one target
        orig_collapse = astutils.collapse_query

        def collapse_query(query):
            res = orig_collapse(query)
            if isinstance(query, pgast.SelectStmt) and res is not query and (
                    query.where_clause is not None or query.sort_clause or query.group_clause
                    or query.having_clause is not None or query.limit_count is not None
                    or query.limit_offset is not None or query.distinct_clause or query.ctes or query.op):
                probes['collapse-query-dropped-clause'] += 1
            return res
        astutils.collapse_query = collapse_query

        # (b) pathctx.reverse_map_path_id: more than one map entry applies and they disagree
        orig_rev = pathctx.reverse_map_path_id

        def reverse_map_path_id(path_id, path_id_map):
            if len(path_id_map) > 1:
                outs = []
                for outer_id, inner_id in path_id_map.items():
                    new = irtyputils.replace_pathid_prefix(path_id, inner_id, outer_id)
                    if new != path_id and new not in outs:
                        outs.append(new)
                if len(outs) > 1:
                    probes['reverse-map-path-id-ambiguous'] += 1
            return orig_rev(path_id, path_id_map)
        pathctx.reverse_map_path_id = reverse_map_path_id

        # (c) pg_types._get_ptrref_storage_info (lru_cache keyed on mutable PointerRef objects): a cached
        #     answer that differs from a fresh computation
        cached = pg_types._get_ptrref_storage_info
        raw = getattr(cached, '__wrapped__', None)
        if raw is not None:
            def _get_ptrref_storage_info(ptrref, **kw):
                res = cached(ptrref, **kw)
                try:
                    fresh = raw(ptrref, **kw)
                except Exception:
                    fresh = res
                def tup(x):
                    return None if x is None else (x.table_name, x.table_type, x.column_name, x.column_type)
                if tup(fresh) != tup(res):
                    probes['ptrref-storage-info-stale-cache'] += 1
                return res
            pg_types._get_ptrref_storage_info = _get_ptrref_storage_info


def rewrite_cte_dependencies(tree, type_cte_names):
    """(number of type-rewrite CTEs in the top-level WITH, [(A, B)] with A's body selecting from B)"""
    from edb.common.ast import visitor
    from edb.pgsql import ast as pgast
    names = set(type_cte_names)
    ctes = [c for c in (getattr(tree, 'ctes', None) or []) if c.name in names]
    deps = []
    for c in ctes:
        for rv in visitor.find_children(c.query, pgast.RelRangeVar):
            if isinstance(rv.relation, pgast.CommonTableExpr) and rv.relation.name in names \
                    and rv.relation.name != c.name and (c.name, rv.relation.name) not in deps:
                deps.append((c.name, rv.relation.name))
    return len(ctes), deps


def describe_units(grp):
    units = []
    for u in grp:
        sql = u.sql
        if isinstance(sql, (list, tuple)):
            sql = b';'.join(x if isinstance(x, bytes) else str(x).encode() for x in sql)
        units.append(dict(
            sql=sql.decode('utf-8', 'replace') if isinstance(sql, bytes) else str(sql),
            out_type_id=u.out_type_id.hex(), out_type_data=u.out_type_data.hex(),
            in_type_id=u.in_type_id.hex(), in_type_data=u.in_type_data.hex(),
            in_type_args=repr(u.in_type_args), capabilities=int(u.capabilities),
            cardinality=str(u.cardinality)))
    return units


SYSTEM_COLUMNS = ['tableoid', 'ctid', 'xmin', 'xmax', 'cmin', 'cmax']


class Catalog:
    """Column names of the tables behind `pgast.Relation` nodes, computed from the schema with the
    REAL storage mapping `edb.pgsql.types.get_pointer_storage_info` (the function the DDL side uses
    to create the columns).  None = not determinable (the model then accepts any column)."""

    def __init__(self, schema):
        self.schema = schema
        self.cache = {}

    def __call__(self, rel):
        ref = getattr(rel, 'type_or_ptr_ref', None)
        if ref is None:
            return None
        key = (type(ref).__name__, ref.id)
        if key not in self.cache:
            try:
                self.cache[key] = self.compute(ref)
            except Exception:
                self.cache[key] = None
        return self.cache[key]

    def compute(self, ref):
        from edb.pgsql import types as pgtypes
        from edb.schema import objtypes as s_objtypes, pointers as s_pointers, links as s_links
        schema = self.schema
        obj = schema.get_by_id(ref.id, default=None)
        cols = set()
        if isinstance(obj, s_objtypes.ObjectType):
            for ptr in obj.get_pointers(schema).objects(schema):
                if ptr.is_pure_computable(schema):
                    continue
                info = pgtypes.get_pointer_storage_info(ptr, schema=schema, link_bias=False)
                if info.table_type == 'ObjectType':
                    cols.add(info.column_name)
            # columns that are not pointers (`__fts_document__`, ext::ai embeddings): the real
            # `Source.get_addon_columns`
            cols |= {c[0] for c in obj.get_addon_columns(schema)}
        elif isinstance(obj, s_pointers.Pointer):
            cols |= {'source', 'target'}
            if hasattr(obj, 'get_addon_columns'):
                cols |= {c[0] for c in obj.get_addon_columns(schema)}
            if isinstance(obj, s_links.Link):
                for lp in obj.get_pointers(schema).objects(schema):
                    if lp.is_pure_computable(schema):
                        continue
                    if lp.get_shortname(schema).name in ('source', 'target'):
                        continue
                    info = pgtypes.get_pointer_storage_info(lp, schema=schema, link_bias=True)
                    cols.add(info.column_name)
        else:
            return None
        return sorted(cols) + SYSTEM_COLUMNS


def compile_one(envm, cap: Capture, codegen, schema, text, tree_path=None, fmt=None, cache_key=None):
    """One query through the REAL server compiler (edb.server.compiler.compile: EdgeQL -> IR -> SQL
    tree -> SQL text + type descriptors); the SQL tree and argmap are captured on the way."""
    from edb import errors
    rec = {}
    cap.calls.clear()
    cap.detach_flags.clear()
    cap.probes.clear()
    try:
        if fmt == 'json':
            from edb.server.compiler import enums as _enums
            ctx = envm.server_context(schema, output_format=_enums.OutputFormat.JSON)
        else:
            ctx = envm.server_context(schema)
        if cache_key is not None:
            # what the server's compile request does for a cacheable query (`cache_key=request.get_cache_key()`):
            # with the default query_cache_mode (PgFunc) `_compile_ql_query` then passes detach_params=True and
            # builds the `__qh_<key>` wrapper function from CompileResult.detached_params
            import dataclasses as _dc
            ctx = _dc.replace(ctx, cache_key=cache_key)
        grp = envm.server_compile(ctx, text)
    except errors.InternalServerError as e:
        return dict(status='ise', err=f'{type(e).__name__}: {str(e)[:300]}')
    except errors.EdgeDBError as e:
        return dict(status='rejected', err=f'{type(e).__name__}: {str(e)[:200]}')
    except RecursionError:
        return dict(status='ise', err='RecursionError')
    except Exception as e:       # any other exception of the REAL compiler: an internal error, not infra
        return dict(status='ise', err=f'{type(e).__name__}: {str(e)[:300]}')
    probes = dict(cap.probes)
    cap.probes.clear()
    units = describe_units(grp)
    if not cap.calls:
        return dict(status='unmodelled', err='no SQL tree compiled for this statement', sql='', argmap=[],
                    server=units)
    # a script compiles one SQL tree per statement; QueryUnits correspond to them in order
    recs = []
    for k, (ir, res, type_ctes) in enumerate(cap.calls):
        if len(units) == len(cap.calls):
            server = [units[k]]
        else:
            server = units if k == 0 else []
        tp = None
        if tree_path is not None:
            tp = tree_path if k == 0 else tree_path.replace('.json.gz', f'.{k}.json.gz')
        recs.append(statement_record(ir, res, server, codegen, tp, type_ctes))
        recs[-1]['detach'] = cap.detach_flags[k] if k < len(cap.detach_flags) else None
        if cache_key is not None and len(units) == len(cap.calls):
            recs[-1]['cache_func'] = cache_function_args(grp, k)
    rec = recs[0]
    rec['probes'] = probes
    if len(recs) > 1:
        rec['extra'] = recs[1:]
    return rec


def cache_function_args(grp, k):
    """what the server made of detached_params: argument types of the CREATE FUNCTION __qh_<key>(...) statement and
    the `$n::type` arguments of the call that replaces the query (None if the unit has no cache function)"""
    try:
        u = list(grp)[k]
        cs = getattr(u, 'cache_sql', None)
        call = getattr(u, 'cache_func_call', None)
        if not cs or not cs[0]:
            return None
        m = re.search(r'CREATE\s+FUNCTION\s+\S+?__qh_[0-9a-f]+\((.*?)\)\s*RETURNS', cs[0].decode('utf-8', 'replace'), re.S)
        out = {'declared': [x.strip() for x in m.group(1).split(',') if x.strip()] if m else None}
        if call:
            ct = call[0] if isinstance(call, (tuple, list)) else call
            ct = ct.decode('utf-8', 'replace') if isinstance(ct, bytes) else str(ct)
            mm = re.search(r'__qh_[0-9a-f]+"?\((.*?)\)\s*(AS|$)', ct, re.S)
            out['call_placeholders'] = sorted({int(x) for x in re.findall(r'\$(\d+)', mm.group(1) if mm else ct)})
        return out
    except Exception as e:       # observation only
        return {'error': f'{type(e).__name__}: {e}'}


def param_pg_types(ir):
    """name -> pg type the SQL compiler's own type mapping gives the parameter / global (computed here, outside
    compile_ir_to_sql_tree, from the IR alone)"""
    from edb.pgsql import types as pgtypes
    out = {}
    for p in list(ir.params) + list(ir.globals):
        try:
            out[p.name] = list(pgtypes.pg_type_from_ir_typeref(p.ir_type.base_type or p.ir_type, serialized=True))
        except Exception as e:
            out[p.name] = [f'<{type(e).__name__}>']
    return out


def statement_record(ir, res, server, codegen, tree_path, type_ctes=()):
    rec = {'server': server}
    n_rw, rw_deps = rewrite_cte_dependencies(res.ast, type_ctes)
    rec['rewrite_ctes'] = n_rw
    rec['rewrite_cte_deps'] = rw_deps[:6]
    src = codegen.generate(res.ast, pretty=False)
    rec['sql'] = src.text
    if tree_path is not None:
        import gzip
        with gzip.open(tree_path, 'wt', compresslevel=1) as tf:
            json.dump(canon_tree(res.ast), tf)
    rec['sql_is_unit_sql'] = any(src.text in u['sql'] for u in rec['server'])
    # placeholders occurring in the text the server would send (independent of the tree walk)
    # (string literals and quoted identifiers removed first; the text is the one contained in QueryUnit.sql)
    bare = re.sub("'(?:[^']|'')*'" + '|"(?:[^"]|"")*"', ' ', src.text)
    rec['params_unit_text'] = sorted({int(m) for m in re.findall(r'\$(\d+)', bare)}) \
        if rec['sql_is_unit_sql'] else None
    rec['params_codegen'] = sorted(src.param_index)
    rec['argmap'] = [[k, v.index, v.logical_index, bool(v.required)] for k, v in res.argmap.items()]
    rec['ir_params'] = [[p.name, bool(p.required), bool(p.sub_params), bool(p.is_sub_param)]
                        for p in ir.params]
    rec['ir_globals'] = [[g.name, bool(g.required), bool(g.has_present_arg)] for g in ir.globals]
    rec['detached_params'] = None if res.detached_params is None else [list(x) for x in res.detached_params]
    rec['param_pg_types'] = param_pg_types(ir)
    rec['flagged_unused'] = sorted(split_unused(res.ast))
    try:
        from edb.common.ast import visitor as _visitor
        from edb.ir import ast as _irast
        pids = [str(x.path_id) for x in _visitor.find_children(ir.expr, _irast.Set)]
        rec['ir_fp'] = hashlib.md5('\n'.join(pids).encode()).hexdigest()
        rec['ir_fp_masked'] = hashlib.md5('\n'.join(
            sorted(re.sub(r'~\d+', '~#', x) for x in pids)).encode()).hexdigest()
        rec['ir_conflict_checks'] = max(
            [len(x.conflict_checks or []) for x in _visitor.find_children(ir.expr, _irast.MutatingStmt)] or [0])
    except Exception:
        rec['ir_fp'] = rec['ir_fp_masked'] = None
        rec['ir_conflict_checks'] = 0
    try:
        line, ex = export_tree(res.ast, Catalog(ir.schema))
    except Unmodelled as e:
        rec['status'] = 'unmodelled'
        rec['err'] = str(e)
        return rec
    rec['status'] = 'ok'
    rec['line'] = line
    rec['params_export'] = sorted(set(ex.params))
    rec['stats'] = dict(ex.stats)
    rec['long_names'] = sorted(ex.long_names)
    rec['names'] = {tok: raw.decode('utf-8', 'replace') for raw, tok in ex.names.items()}
    rec['unexported'] = audit_unexported(res.ast, ex)
    return rec


PDETACH_FIELDS = ('status', 'err', 'sql', 'params_codegen', 'params_unit_text', 'argmap', 'ir_params', 'ir_globals',
                  'detached_params', 'param_pg_types', 'detach', 'cache_func', 'flagged_unused')


def wants_detach_probe(q) -> bool:
    """the tuple-parameter family, replays, regressions, and every query that mentions a tuple-typed parameter or
    uses parameters together with globals"""
    t = q['text']
    return bool(q.get('pdetach') or q['kind'] in ('replay', 'regression')
                or ('$' in t and ('tuple<' in t or 'global ' in t)))


def detach_probe(envm, cap, codegen, schema, text, fmt):
    """the same query once more through the REAL server compiler, now with a cache key as a cacheable request has
    (persistent PgFunc query cache => compile_ir_to_sql_tree(detach_params=True) + _build_cache_function)"""
    import uuid as _uuid
    r = compile_one(envm, cap, codegen, schema, text, fmt=fmt,
                    cache_key=_uuid.UUID(hashlib.md5(text.encode()).hexdigest()))
    out = {f: r.get(f) for f in PDETACH_FIELDS if f in r}
    if r.get('extra'):
        out['extra'] = [{f: x.get(f) for f in PDETACH_FIELDS if f in x} for x in r['extra']]
    return out


def worker_main(spec_path: str, out_path: str):
    import pickle
    import traceback
    t0 = time.time()
    spec = json.load(open(spec_path))
    from bridge import env as envm
    from lib import rustlex
    # the parent rebuilt the Rust tokenizer just before spawning us; concurrent rebuilds would race
    rustlex.build = lambda: (True, 'built by the parent process')
    envm.setup()
    envm.std_schema()
    from edb.pgsql import codegen
    cap = Capture()
    schemas = {}
    for name, path in spec['schemas'].items():
        with open(path, 'rb') as f:
            schemas[name] = pickle.load(f)
    envm.new_compiler()
    tree_dir = out_path + '.trees'
    os.makedirs(tree_dir, exist_ok=True)
    t_start = time.time() - t0
    with open(out_path, 'w') as out:
        out.write(json.dumps(dict(meta=dict(hashseed=os.environ.get('PYTHONHASHSEED'),
                                            startup_s=round(t_start, 1)))) + '\n')
        order = list(enumerate(spec['queries']))
        if spec.get('reverse'):
            # the second process of a pair compiles the statements in the opposite order: the comparison then
            # also shows whether the output depends on the compile HISTORY of the process (caches)
            order.reverse()
        for i, q in order:
            try:
                rec = compile_one(envm, cap, codegen, schemas[q['schema']], q['text'],
                                  tree_path=os.path.join(tree_dir, f'{i}.json.gz'), fmt=q.get('fmt'))
                if wants_detach_probe(q):
                    rec['pdetach'] = detach_probe(envm, cap, codegen, schemas[q['schema']], q['text'], q.get('fmt'))
            except Exception:
                rec = dict(status='worker-error', err=traceback.format_exc()[-1500:])
            rec['i'] = i
            out.write(json.dumps(rec) + '\n')
        out.write(json.dumps(dict(done=True, total_s=round(time.time() - t0, 1))) + '\n')


def spawn_worker(spec_path, out_path, hashseed):
    envv = dict(os.environ)
    envv['PYTHONHASHSEED'] = str(hashseed)
    code = ('import sys; from props import c13; '
            f'c13.worker_main({spec_path!r}, {out_path!r})')
    return subprocess.Popen([sys.executable, '-X', 'faulthandler', '-c', code], env=envv,
                            cwd=core.VERIF, stdout=subprocess.PIPE, stderr=subprocess.PIPE, text=True)


# ---------------------------------------------------------------- schema cache
def load_schemas(ctx):
    """-> ({name: pickle path}, {name: description}); built once per (sources, SDL) hash"""
    import pickle
    from bridge import env as envm
    srcs = schema_sources()
    paths, descs = {}, {}
    os.makedirs(envm.CACHE_DIR, exist_ok=True)
    shash = envm.source_hash()
    for name, sdl in sorted(srcs.items()):
        h = hashlib.sha256((shash + '\0' + sdl).encode()).hexdigest()[:20]
        base = os.path.join(envm.CACHE_DIR, f'c13-{name}-{h}')
        if not (os.path.exists(base + '.pickle') and os.path.exists(base + '.json')):
            t0 = time.time()
            envm.setup()
            envm.std_schema()
            sch = envm.load_schema(sdl)
            desc = describe_schema(sch)
            for fn in os.listdir(envm.CACHE_DIR):
                if fn.startswith(f'c13-{name}-'):
                    os.unlink(os.path.join(envm.CACHE_DIR, fn))
            with open(base + '.pickle.tmp', 'wb') as f:
                pickle.dump(sch, f, -1)
            os.replace(base + '.pickle.tmp', base + '.pickle')
            with open(base + '.json', 'w') as f:
                json.dump(desc, f)
            ctx.log(f'schema {name}: built in {time.time() - t0:.1f}s')
        paths[name] = base + '.pickle'
        descs[name] = json.load(open(base + '.json'))
    # warm the std / reflection caches here once, instead of in every worker at the same time
    if not all(os.path.exists(os.path.join(envm.CACHE_DIR, f'{n}-{shash}.pickle')) for n in ('std', 'refl')):
        t0 = time.time()
        envm.setup()
        envm.reflection()
        ctx.log(f'std/reflection schema caches rebuilt in {time.time() - t0:.1f}s')
    return paths, descs


# ====================================================== hand-written scope cases
# Accept / reject cases derived from the PostgreSQL documentation.  They validate
# `check` (and with it the rules stated in Model/PgAstSpec.lean) the only way
# possible without a server; each carries the place in the documentation it is
# taken from.  Term builders mirror the protocol grammar.

def _l(xs):
    return '(' + ' '.join(xs) + ')'


def C(*parts):
    return '(c ' + ' '.join(parts) + ')'


def STAR(*q):
    return '(star' + ''.join(' ' + x for x in q) + ')'


def N(*es):
    return '(n ' + ' '.join(es) + ')'


def SUB(q):
    return f'(q {q})'


def P(i):
    return f'(p {i})'


L = 'l'


def T(name, e):
    return f'(t {name or "-"} {e})'


def SEL(targets, frm=(), exprs=(), by=(), limits=()):
    return f'(sel {_l(targets)} {_l(frm)} {_l(exprs)} {_l(by)} {_l(limits)})'


def _tc(tcols):
    return f'{int(tcols is not None)} {_l(tcols or ())}'


def REL(schema, name, alias=None, cols=(), tcols=None):
    return f'(rel {schema or "-"} {name} {alias or "-"} {_l(cols)} {_tc(tcols)})'


def CREF(name, alias=None, cols=()):
    return f'(cref {name} {alias or "-"} {_l(cols)})'


def SUBQ(lateral, q, alias, cols=()):
    return f'(subq {int(lateral)} {q} {alias} {_l(cols)})'


def FUNC(lateral, fns, alias, cols=None):
    return f'(func {int(lateral)} {_l(fns)} {alias} {int(cols is not None)} {_l(cols or ())})'


def JOIN(kind, l, r, on=(), using=()):
    return f'(join {kind} {l} {r} {_l(on)} {_l(using)})'


def WITH(rec, ctes, body):
    return f'(with {int(rec)} {_l(ctes)} {body})'


def CTE(name, cols, q):
    return f'(cte {name} {_l(cols)} {q})'


def VALS(n, cells):
    return f'(vals {n} {_l(cells)})'


def SETOP(l, r, order=(), limits=()):
    return f'(setop {l} {r} {_l(order)} {_l(limits)})'


def INS(schema, name, alias, src, infer=(), upd=(), ret=(), tcols=None):
    return (f'(ins {schema or "-"} {name} {alias or "-"} {_tc(tcols)} {src} {_l(infer)} {_l(upd)} '
            f'{_l(ret)})')


def UPD(schema, name, alias, frm=(), exprs=(), ret=(), tcols=None):
    return f'(upd {schema or "-"} {name} {alias or "-"} {_tc(tcols)} {_l(frm)} {_l(exprs)} {_l(ret)})'


def DEL(schema, name, alias, frm=(), exprs=(), ret=(), tcols=None):
    return f'(del {schema or "-"} {name} {alias or "-"} {_tc(tcols)} {_l(frm)} {_l(exprs)} {_l(ret)})'


def hand_cases():
    """[(id, expected_ok, line, source)]"""
    one = SEL([T('x', L)])                                   # SELECT 1 AS x
    xy = SEL([T('x', L), T('y', L)])                         # SELECT 1 AS x, 2 AS y
    foo, bar = REL('s', 'foo', 'foo'), REL('s', 'bar', 'bar')
    cs = []

    def case(cid, ok, q, src):
        cs.append((cid, ok, 'Q ' + q, src))

    # --- 7.2.1 FROM clause / table aliases
    case('from-alias', True, SEL([T('x', C('a', 'x'))], [REL('s', 't', 'a')]),
         'SELECT a.x FROM s.t AS a  [7.2.1.2]')
    case('from-missing-entry', False, SEL([T('x', C('b', 'x'))], [REL('s', 't', 'a')]),
         'SELECT b.x FROM s.t AS a -- missing FROM-clause entry for table "b"  [7.2.1.2]')
    case('alias-hides-name', False, SEL([T('x', C('t', 'x'))], [REL(None, 't', 'a')]),
         'SELECT t.x FROM t AS a -- "the original name is hidden"  [7.2.1.2]')
    case('dup-alias', False, SEL([T('x', L)], [REL('s', 't', 'a'), REL('s', 'u', 'a')]),
         'FROM s.t a, s.u a -- table name "a" specified more than once  [7.2.1.2]')
    case('self-join-two-aliases', True,
         SEL([T('x', C('a', 'x'))], [REL('s', 't', 'a'), REL('s', 't', 'b')], [N(C('a', 'k'), C('b', 'k'))]),
         'FROM my_table AS a CROSS JOIN my_table AS b  [7.2.1.2]')
    case('subquery-alias-columns', True,
         SEL([T(None, C('s2', 'x')), T(None, C('s2', 'y'))], [SUBQ(False, xy, 's2', ['x'])]),
         'FROM (SELECT 1 AS x, 2 AS y) AS s2(x): column aliases rename the first columns  [7.2.1.2]')
    case('subquery-renamed-column-gone', False,
         SEL([T(None, C('s2', 'x'))], [SUBQ(False, xy, 's2', ['z'])]),
         'FROM (SELECT 1 AS x, 2 AS y) AS s2(z): s2.x no longer exists  [7.2.1.2]')
    case('subquery-too-many-aliases', False,
         SEL([T(None, L)], [SUBQ(False, one, 's2', ['a', 'b'])]),
         'table "s2" has 1 columns available but 2 columns specified')
    case('subquery-unknown-column', False, SEL([T(None, C('q', 'nope'))], [SUBQ(False, one, 'q')]),
         'column q.nope does not exist')
    case('values-columns', True, SEL([T(None, C('v', 'column1'))], [SUBQ(False, VALS(1, [L, L]), 'v')]),
         'FROM (VALUES (1),(2)) AS v: default column names column1…  [7.7]')
    case('values-columns-bad', False, SEL([T(None, C('v', 'column2'))], [SUBQ(False, VALS(1, [L, L]), 'v')]),
         'only column1 exists  [7.7]')
    # --- 7.2.1.1 joins
    case('join-on-both-arms', True,
         SEL([T(None, L)], [JOIN('inner', foo, bar, [N(C('foo', 'a'), C('bar', 'b'))])]),
         'FROM foo JOIN bar ON foo.a = bar.b  [7.2.1.1]')
    case('join-binds-tighter-than-comma', False,
         SEL([T(None, L)], [REL('s', 't1', 't1'),
                            JOIN('inner', REL('s', 't2', 't2'), REL('s', 't3', 't3'),
                                 [N(C('t1', 'a'), C('t3', 'b'))])]),
         'FROM T1, T2 INNER JOIN T3 ON condition: "the condition can reference T1 in the first case '
         'but not the second"  [7.2.1.1]')
    case('join-chain-left-assoc', True,
         SEL([T(None, L)], [JOIN('inner', JOIN('cross', REL('s', 't1', 't1'), REL('s', 't2', 't2')),
                                 REL('s', 't3', 't3'), [N(C('t1', 'a'), C('t3', 'b'))])]),
         'FROM T1 CROSS JOIN T2 INNER JOIN T3 ON condition may reference T1  [7.2.1.1]')
    case('join-using', True,
         SEL([T(None, C('k'))], [JOIN('inner', SUBQ(False, SEL([T('k', L)]), 'a'),
                                      SUBQ(False, SEL([T('k', L)]), 'b'), (), ['k'])]),
         'a JOIN b USING (k): the merged column k is not ambiguous  [7.2.1.1]')
    case('join-using-missing', False,
         SEL([T(None, L)], [JOIN('inner', SUBQ(False, SEL([T('k', L)]), 'a'),
                                 SUBQ(False, SEL([T('j', L)]), 'b'), (), ['k'])]),
         'USING (k) needs k on both sides  [7.2.1.1]')
    case('unqualified-ambiguous', False,
         SEL([T(None, C('x'))], [SUBQ(False, one, 'a'), SUBQ(False, one, 'b')]),
         'column reference "x" is ambiguous')
    case('unqualified-unique', True,
         SEL([T(None, C('y'))], [SUBQ(False, one, 'a'), SUBQ(False, xy, 'b')]),
         'y exists only in b')
    case('star-qualified', True, SEL([T(None, STAR('a'))], [REL('s', 't', 'a')]), 'SELECT a.* FROM s.t a')
    case('star-qualified-bad', False, SEL([T(None, STAR('b'))], [REL('s', 't', 'a')]), 'SELECT b.* FROM s.t a')
    case('three-part-unaliased', True, SEL([T(None, C('s', 't', 'x'))], [REL('s', 't')]),
         'SELECT s.t.x FROM s.t')
    case('three-part-aliased', False, SEL([T(None, C('s', 't', 'x'))], [REL('s', 't', 'a')]),
         'SELECT s.t.x FROM s.t AS a')
    case('same-name-two-schemas', True, SEL([T(None, C('s1', 't', 'x'))], [REL('s1', 't'), REL('s2', 't')]),
         'FROM s1.t, s2.t: no conflict per SQL rule (checkNameSpaceConflicts)')
    # --- 7.2.1.5 LATERAL
    lat_inner = SEL([T(None, STAR())], [bar], [N(C('bar', 'id'), C('foo', 'bar_id'))])
    case('lateral-subquery', True, SEL([T(None, STAR())], [foo, SUBQ(True, lat_inner, 'ss')]),
         'SELECT * FROM foo, LATERAL (SELECT * FROM bar WHERE bar.id = foo.bar_id) ss  [7.2.1.5]')
    case('non-lateral-subquery-sibling-ref', False, SEL([T(None, STAR())], [foo, SUBQ(False, lat_inner, 'ss')]),
         'same without LATERAL: "a subquery … cannot refer to any other FROM item" [7.2.1.5]')
    case('lateral-only-earlier-items', False, SEL([T(None, STAR())], [SUBQ(True, lat_inner, 'ss'), foo]),
         'LATERAL sees only preceding FROM items  [7.2.1.5]')
    p1, p2 = REL('s', 'polygons', 'p1'), REL('s', 'polygons', 'p2')
    case('lateral-functions', True,
         SEL([T(None, C('p1', 'id')), T(None, C('v1', 'v')), T(None, C('v2', 'v'))],
             [p1, p2, FUNC(True, [N(C('p1', 'poly'))], 'v1', ['v']),
              FUNC(True, [N(C('p2', 'poly'))], 'v2', ['v'])],
             [N(C('v1', 'v'), C('v2', 'v'))]),
         'FROM polygons p1, polygons p2, LATERAL vertices(p1.poly) v1, LATERAL vertices(p2.poly) v2 [7.2.1.5]')
    case('functions-implicitly-lateral', True,
         SEL([T(None, C('v1', 'v'))], [p1, FUNC(False, [N(C('p1', 'poly'))], 'v1', ['v'])]),
         '"for functions the key word is optional"  [7.2.1.5]')
    case('function-sees-only-earlier', False,
         SEL([T(None, C('v1', 'v'))], [FUNC(False, [N(C('p1', 'poly'))], 'v1', ['v']), p1]),
         'a function sees preceding FROM items only  [7.2.1.5]')
    # relctx.unpack_var: one `ROWS FROM (unnest(..) AS (_tK ..))` per non-scalar level of a packed value
    packed = SUBQ(False, SEL([T('arr', L)]), 'p')
    u_outer = FUNC(False, [N(C('p', 'arr'))], 'u1', ['_t0', '_t1'])
    u_inner = FUNC(False, [N(C('_t1'))], 'u2', ['_t2', '_t3'])
    case('unnest-chain-outer-first', True,
         SEL([T(None, C('_t0')), T(None, C('_t3'))], [packed, u_outer, u_inner]),
         'FROM p, ROWS FROM (unnest(p.arr) AS (_t0 int8, _t1 record)) u1, ROWS FROM (unnest(ARRAY[_t1]) AS '
         '(_t2 float8, _t3 int8)) u2: the column definition list names the columns, the next function may use them')
    case('unnest-chain-inner-first', False,
         SEL([T(None, C('_t0')), T(None, C('_t3'))], [packed, u_inner, u_outer]),
         'the same with the inner unnest BEFORE the one that defines _t1: column "_t1" does not exist '
         '(a function sees preceding FROM items only) [7.2.1.5]')
    m = REL('s', 'manufacturers', 'm')
    case('left-join-lateral', True,
         SEL([T(None, C('m', 'name'))],
             [JOIN('left', m, FUNC(True, [N(C('m', 'id'))], 'pname'), [L])],
             [N(C('pname'))]),
         'FROM manufacturers m LEFT JOIN LATERAL get_product_names(m.id) pname ON true [7.2.1.5]')
    case('right-join-lateral-ref', False,
         SEL([T(None, L)], [JOIN('right', m, SUBQ(True, SEL([T('z', C('m', 'id'))]), 'q'), [L])]),
         'RIGHT JOIN LATERAL (… m.id …): "The combining JOIN type must be INNER or LEFT for a LATERAL reference"')
    case('lateral-in-join-sees-earlier-sibling', True,
         SEL([T(None, L)], [foo, JOIN('inner', bar, SUBQ(True, SEL([T('z', N(C('foo', 'a'), C('bar', 'b')))]), 'q'), [L])]),
         'FROM foo, bar JOIN LATERAL (SELECT foo.a + bar.b) q ON true')
    case('nested-lateral-depth', True,
         SEL([T(None, L)], [foo, SUBQ(True, SEL([T('z', L)], [SUBQ(False, SEL([T('w', C('foo', 'a'))]), 'i')]), 'o')]),
         'a plain sub-select nested in a LATERAL one still sees what the LATERAL one sees (outer query level)')
    # --- correlated sub-queries (9.23 / 4.2.11)
    case('correlated-exists', True,
         SEL([T(None, C('a', 'x'))], [REL('s', 't', 'a')],
             [SUB(SEL([T(None, L)], [REL('s', 'u', 'b')], [N(C('b', 'k'), C('a', 'k'))]))]),
         'WHERE EXISTS (SELECT 1 FROM u b WHERE b.k = a.k)  [9.23.1]')
    case('inner-alias-not-visible-outside', False,
         SEL([T(None, C('b', 'x'))], [REL('s', 't', 'a')],
             [SUB(SEL([T(None, L)], [REL('s', 'u', 'b')], []))]),
         'an alias of a sub-query is not visible in the outer query')
    case('inner-alias-shadows', True,
         SEL([T(None, SUB(SEL([T(None, C('a', 'x'))], [SUBQ(False, one, 'a')])))], [SUBQ(False, SEL([T('y', L)]), 'a')]),
         'SELECT (SELECT a.x FROM (SELECT 1 AS x) a) FROM (SELECT 2 AS y) a: the inner a wins')
    case('inner-alias-shadows-bad', False,
         SEL([T(None, SUB(SEL([T(None, C('a', 'y'))], [SUBQ(False, one, 'a')])))], [SUBQ(False, SEL([T('y', L)]), 'a')]),
         '… a.y would be the outer a, but the inner a is found first')
    # --- 7.5 / SELECT: ORDER BY, GROUP BY, LIMIT
    src1 = SUBQ(False, one, 'a')
    case('order-by-output-name', True, SEL([T('s2', C('a', 'x'))], [src1], (), [C('s2')]),
         'SELECT a.x AS s2 … ORDER BY s2  [7.5]')
    case('order-by-output-name-in-expr', False, SEL([T('s2', C('a', 'x'))], [src1], (), [N(C('s2'), L)]),
         'ORDER BY s2 + 1: "an output column name has to stand alone"  [7.5]')
    case('order-by-input-column', True, SEL([T('s2', L)], [src1], (), [N(C('a', 'x'), L)]),
         'ORDER BY a.x + 1  [7.5]')
    case('limit-own-level', False, SEL([T(None, L)], [src1], (), (), [C('a', 'x')]),
         'LIMIT a.x: argument of LIMIT must not contain variables')
    case('limit-outer-level', True,
         SEL([T(None, SUB(SEL([T(None, L)], [REL('s', 'u', 'b')], (), (), [C('a', 'x')])))], [src1]),
         'a LIMIT inside a sub-query may use the outer query\'s columns')
    # --- 7.4 set operations
    case('setop-order-by-output', True, SETOP(one, SEL([T('y', L)]), [C('x')]),
         'SELECT 1 AS x UNION SELECT 2 AS y ORDER BY x  [7.4, SELECT/ORDER BY]')
    case('setop-order-by-right-name', False, SETOP(one, SEL([T('y', L)]), [C('y')]),
         '… ORDER BY y: only result column names (of the first arm)')
    case('setop-arms-independent', False,
         SETOP(SEL([T('x', L)], [REL('s', 't', 'a')]), SEL([T('y', C('a', 'k'))], [REL('s', 'u', 'b')])),
         'the right arm cannot see the left arm\'s FROM items')
    # --- 7.8 WITH
    w = CTE('w', (), one)
    case('cte-basic', True, WITH(False, [w], SEL([T(None, C('w', 'x'))], [CREF('w')])),
         'WITH w AS (SELECT 1 AS x) SELECT w.x FROM w  [7.8.1]')
    case('cte-unknown-column', False, WITH(False, [w], SEL([T(None, C('w', 'y'))], [CREF('w')])),
         'w has no column y')
    case('cte-column-aliases', True, WITH(False, [CTE('w', ['n'], one)], SEL([T(None, C('w', 'n'))], [CREF('w')])),
         'WITH w(n) AS (SELECT 1 AS x) SELECT w.n FROM w  [7.8]')
    case('cte-later-sees-earlier', True,
         WITH(False, [w, CTE('v', (), SEL([T('z', C('w', 'x'))], [CREF('w')]))],
              SEL([T(None, C('v', 'z'))], [CREF('v')])),
         'WITH w AS (…), v AS (SELECT … FROM w) …  [7.8.1]')
    case('cte-forward-reference', False,
         WITH(False, [CTE('v', (), SEL([T('z', C('w', 'x'))], [CREF('w')])), w],
              SEL([T(None, C('v', 'z'))], [CREF('v')])),
         'a CTE cannot see a later sibling without RECURSIVE  [7.8]')
    case('cte-forward-reference-recursive', True,
         WITH(True, [CTE('v', (), SEL([T('z', C('w', 'x'))], [CREF('w')])), w],
              SEL([T(None, C('v', 'z'))], [CREF('v')])),
         'WITH RECURSIVE allows forward references (SELECT: "RECURSIVE … forward references")')
    rec_body = SETOP(VALS(1, [L]), SEL([T(None, N(C('n'), L))], [CREF('t')], [N(C('n'), L)]))
    case('cte-recursive-self', True,
         WITH(True, [CTE('t', ['n'], rec_body)], SEL([T(None, N(C('n')))], [CREF('t')])),
         'WITH RECURSIVE t(n) AS (VALUES (1) UNION ALL SELECT n+1 FROM t WHERE n < 100) SELECT sum(n) FROM t [7.8.2]')
    case('cte-self-without-recursive', False,
         WITH(False, [CTE('t', ['n'], rec_body)], SEL([T(None, N(C('n')))], [CREF('t')])),
         'the same without RECURSIVE: relation "t" does not exist')
    case('cte-visible-in-subquery', True,
         WITH(False, [w], SEL([T(None, C('q', 'x'))], [SUBQ(False, SEL([T('x', C('w', 'x'))], [CREF('w')]), 'q')])),
         'CTE names are visible in sub-queries of the body  [7.8]')
    case('cte-not-visible-outside', False,
         SEL([T(None, SUB(WITH(False, [w], SEL([T(None, C('w', 'x'))], [CREF('w')]))))], [CREF('w', 'z')]),
         'a CTE of a sub-query is not visible in the outer query')
    case('cte-duplicate-name', False, WITH(False, [w, w], SEL([T(None, L)], [CREF('w')])),
         'WITH query name "w" specified more than once')
    case('cte-inner-shadows-outer', True,
         WITH(False, [w], SEL([T(None, SUB(WITH(False, [CTE('w', (), SEL([T('k', L)]))],
                                                 SEL([T(None, C('w', 'k'))], [CREF('w')]))))], [])),
         'an inner WITH shadows an outer CTE of the same name')
    case('cte-dml-returning', True,
         WITH(False, [CTE('d', (), DEL('s', 't', 'a', (), [N(C('a', 'k'), L)], [T('id', C('a', 'id'))]))],
              SEL([T(None, C('d', 'id'))], [CREF('d')])),
         'WITH d AS (DELETE FROM t a WHERE … RETURNING a.id AS id) SELECT d.id FROM d  [7.8.4]')
    case('table-captured-by-cte', False,
         WITH(False, [CTE('t', (), one)], SEL([T(None, L)], [REL(None, 't', 'a')])),
         'an unqualified table name that is also a CTE name denotes the CTE (exporter emits `rel` only for tables)')
    # --- INSERT / UPDATE / DELETE
    case('insert-on-conflict-excluded', True,
         INS('s', 't', 'a', VALS(2, [L, L]), [C('k')], [N(C('excluded', 'v')), N(C('a', 'v'), L)], [T(None, C('a', 'k'))]),
         'INSERT INTO t AS a VALUES (…) ON CONFLICT (k) DO UPDATE SET v = excluded.v WHERE a.v <> 0 RETURNING a.k [INSERT]')
    case('insert-excluded-in-returning', False,
         INS('s', 't', 'a', VALS(1, [L]), (), (), [T(None, C('excluded', 'k'))]),
         'excluded is only visible in ON CONFLICT DO UPDATE  [INSERT]')
    case('insert-source-sees-target', False,
         INS('s', 't', 'a', SEL([T(None, C('a', 'k'))]), (), (), ()),
         'the source query of INSERT cannot reference the target table')
    case('insert-arbiter-qualified', False,
         INS('s', 't', 'a', VALS(1, [L]), [C('a', 'k')], (), ()),
         'ON CONFLICT (a.k): only column names of the target are allowed in the arbiter')
    case('update-from', True,
         UPD('s', 't', 'a', [REL('s', 'u', 'b')], [N(C('b', 'y')), N(C('a', 'k'), C('b', 'k'))],
             [T(None, C('a', 'x')), T(None, C('b', 'y'))]),
         'UPDATE t a SET x = b.y FROM u b WHERE a.k = b.k RETURNING a.x, b.y  [UPDATE]')
    case('update-from-lateral-target', False,
         UPD('s', 't', 'a', [SUBQ(True, SEL([T('z', C('a', 'x'))]), 'q')], [L]),
         'UPDATE t a … FROM LATERAL (SELECT a.x) q: invalid reference to FROM-clause entry for table "a"')
    case('update-from-subquery-target', False,
         UPD('s', 't', 'a', [SUBQ(False, SEL([T('z', C('a', 'x'))]), 'q')], [L]),
         '"subqueries in FROM cannot access the result relation" (analyze.c)')
    case('update-alias-conflict', False, UPD('s', 't', 'a', [REL('s', 'u', 'a')], [L]),
         'UPDATE t a … FROM u a: table name "a" specified more than once')
    case('delete-using', True,
         DEL('s', 't', 'a', [REL('s', 'u', 'b')], [N(C('a', 'k'), C('b', 'k'))], [T(None, C('a', 'id'))]),
         'DELETE FROM t a USING u b WHERE a.k = b.k RETURNING a.id  [DELETE]')
    case('delete-where-unknown-alias', False, DEL('s', 't', 'a', (), [N(C('b', 'k'))]),
         'DELETE FROM t a WHERE b.k …')
    case('table-known-column', True,
         SEL([T(None, C('a', 'k')), T(None, C('v'))], [REL('s', 't', 'a', (), ['k', 'v'])]),
         'SELECT a.k, v FROM s.t a  -- s.t(k, v) known from the schema')
    case('table-unknown-column', False, SEL([T(None, C('a', 'w'))], [REL('s', 't', 'a', (), ['k', 'v'])]),
         'column a.w does not exist')
    case('table-column-aliases', True, SEL([T(None, C('a', 'x')), T(None, C('a', 'v'))],
                                           [REL('s', 't', 'a', ['x'], ['k', 'v'])]),
         'FROM s.t AS a(x): first column renamed  [7.2.1.2]')
    case('two-tables-ambiguous', False,
         SEL([T(None, C('k'))], [REL('s', 't', 'a', (), ['k']), REL('s', 'u', 'b', (), ['k'])]),
         'column reference "k" is ambiguous')
    case('insert-excluded-unknown-column', False,
         INS('s', 't', 'a', VALS(1, [L]), [C('k')], [N(C('excluded', 'w'))], (), ['k', 'v']),
         'excluded has the columns of the target table')
    case('update-set-known-column', True,
         UPD('s', 't', 'a', (), [N(C('a', 'v'), C('k'))], [T(None, C('a', 'k'))], ['k', 'v']),
         'UPDATE s.t a SET v = a.v + k RETURNING a.k')
    case('delete-target-unaliased', True, DEL('s', 't', None, (), [N(C('t', 'k')), N(C('k'))]),
         'DELETE FROM s.t WHERE t.k … AND k …')
    return cs


# ===================================================================== level 1
def enc(s: str) -> str:
    return '.'.join(str(ord(c)) for c in s) if s else '-'


def dec(s: str) -> str:
    return '' if s == '-' else ''.join(chr(int(x)) for x in s.split('.'))


HINT_ATOMS = ['a', 'b', 'v', 'q', '~', '~', '0', '1', '9', '12', '\n', ' ', '٣', '１', '-', 'expr']
HINT_FIXED = ['', 'v', 'a', 'a~1', 'a~1~2', 'a~1~1', '~', '~1', '~~1', 'a~', 'a~1\n', 'a~1\n\n', 'a~٣',
              'a~1٣', 'a~1x', 'a~1~', 'v~1', 'v~2', 'a~01', 'a~1 ', 'a\n~1', '~1~2~3', 'a~1~2\n']


def gen_alias_case(rng):
    n = rng.randint(1, 12)
    hints = []
    pool = list(HINT_FIXED)
    for _ in range(n):
        r = rng.random()
        if r < 0.5:
            h = rng.choice(pool)
        elif r < 0.7 and hints:
            h = rng.choice(hints)
        else:
            h = ''.join(rng.choice(HINT_ATOMS) for _ in range(rng.randint(0, 5)))
        hints.append(h)
    return hints


PNAMES = ['0', '1', '2', '3', '10', 'x', 'y', 'name', '__edb_arg_1', '__edb_arg_7', '__edb_arg_x',
          '__edb_decoded_0_0__', '__edb_decoded_0_1__', '__edb_decoded_x_0__', '__edb_decoded_',
          '__edb_decoded___', '__edb_decoded_x', '٣', '1a', '', '__edb_arg_', '__edb_decoded_1_0__']
GNAMES = ['__edb_global_0__', '__edb_global_1__', '__edb_global_2__', 'g', '__edb_global_0__present__', 'x']


def gen_argmap_case(rng):
    dup = rng.random() < 0.2
    k = rng.randint(0, 7)
    names = [rng.choice(PNAMES) for _ in range(k)] if dup else rng.sample(PNAMES, k)
    params = [(n, rng.random() < 0.5, rng.random() < 0.25) for n in names]
    kg = rng.randint(0, 3)
    gnames = [rng.choice(GNAMES) for _ in range(kg)] if dup else rng.sample(GNAMES, kg)
    globs = [(n, rng.random() < 0.5, rng.random() < 0.5) for n in gnames]
    return (rng.random() < 0.25, params, globs)


def argmap_line(case):
    np_, params, globs = case
    items = [f'p:{enc(n)}:{int(r)}:{int(s)}' for n, r, s in params] + \
            [f'g:{enc(n)}:{int(r)}:{int(h)}' for n, r, h in globs]
    return 'M ' + ' '.join([str(int(np_))] + items)


def real_argmap(case):
    import types
    from edb.ir import ast as irast
    from edb.pgsql.compiler import clauses
    np_, params, globs = case
    sub = irast.SubParams(trans_type=None, decoder_edgeql=None, params=())
    ps = [irast.Param(name=n, required=r, schema_type=None, ir_type=None, sub_params=sub if s else None)
          for n, r, s in params]
    gs = [irast.Global(name=n, required=r, schema_type=None, ir_type=None, global_name=None,
                       has_present_arg=h) for n, r, h in globs]
    ctx = types.SimpleNamespace(env=types.SimpleNamespace(named_param_prefix=('p',) if np_ else None),
                                argmap=collections.OrderedDict())
    clauses.populate_argmap(ps, gs, ctx=ctx)
    return [(k, v.index, v.logical_index, bool(v.required)) for k, v in ctx.argmap.items()]


def show_argmap(am):
    return ' '.join(f'{enc(k)}:{i}:{l}:{int(r)}' for k, i, l, r in am) if am else '-'


def argmap_oracle(case, am):
    """argmap_contig, evaluated independently on the real output (for inputs with distinct keys)."""
    np_, params, globs = case
    bad = []
    keys = [k for k, *_ in am]
    proc = [(n, r, s) for n, r, s in params if not (np_ and not n.isdecimal())]
    proc = [p for p in proc if not p[0].startswith('__edb_arg_')] + \
           [p for p in proc if p[0].startswith('__edb_arg_')]
    expect_keys = [p[0] for p in proc]
    for n, r, h in globs:
        expect_keys.append(n)
        if h:
            expect_keys.append(n + 'present__')
    if len(set(expect_keys)) != len(expect_keys):
        return bad           # duplicate keys: dict overwrite; only the differential applies
    if keys != expect_keys:
        bad.append(f'keys {keys} != expected order {expect_keys}')
        return bad
    byk = {k: (i, l, r) for k, i, l, r in am}
    real = [byk[p[0]][0] for p in proc if not p[2]]          # non-tuple parameters
    for n, r, h in globs:
        real.append(byk[n][0])
        if h:
            real.append(byk[n + 'present__'][0])
            if byk[n + 'present__'][0] != byk[n][0] + 1:
                bad.append('present__ slot not adjacent to its global')
    if real != list(range(1, len(real) + 1)):
        bad.append(f'physical indexes {real} are not exactly 1..{len(real)} in order')
    nreal_params = sum(1 for p in proc if not p[2])
    for n, r, h in globs:
        if byk[n][0] <= nreal_params:
            bad.append('global numbered before a parameter')
    # a tuple parameter shares the index of the next physical slot
    nxt = 1
    for n, r, s in proc:
        if byk[n][0] != nxt:
            bad.append(f'parameter {n!r} has index {byk[n][0]}, expected {nxt}')
        if not s:
            nxt += 1
    logical = [byk[p[0]][1] for p in proc
               if not (p[0].startswith('__edb_decoded_') and p[0].endswith('__'))]
    if logical != list(range(1, len(logical) + 1)):
        bad.append(f'logical indexes {logical} are not 1..n over non-sub-params')
    for n, r, h in globs:
        if byk[n][1] != -1:
            bad.append('global with a logical index')
    return bad


# ==================================================================== mutation
def mutants(line: str, rng):
    """protocol-level mutants of an accepted tree (non-vacuity of the checker on real trees)"""
    out = []
    if '(subq 1 ' in line:
        out.append(('drop-all-lateral', line.replace('(subq 1 ', '(subq 0 ')))
        idxs = [m.start() for m in re.finditer(r'\(subq 1 ', line)]
        i = rng.choice(idxs)
        out.append(('drop-one-lateral', line[:i] + '(subq 0 ' + line[i + 8:]))
    refs = list(re.finditer(r'\(c (n\d+) (n\d+)\)', line))
    if refs:
        aliases = sorted({m.group(1) for m in refs})
        m = rng.choice(refs)
        others = [a for a in aliases if a != m.group(1)]
        if others:
            o = rng.choice(others)
            out.append(('swap-qualifier', line[:m.start()] + f'(c {o} {m.group(2)})' + line[m.end():]))
        out.append(('fresh-qualifier', line[:m.start()] + f'(c zz9 {m.group(2)})' + line[m.end():]))
    crefs = list(re.finditer(r'\(cref (n\d+) ', line))
    ctes = list(re.finditer(r'\(cte (n\d+) ', line))
    if len(ctes) >= 2:
        # move the last CTE of the statement to the front of its list: only textual approximation —
        # rename the first CTE reference to the last defined CTE name
        if crefs:
            m = crefs[0]
            last = ctes[-1].group(1)
            if last != m.group(1):
                out.append(('cte-ref-to-later', line[:m.start()] + f'(cref {last} ' + line[m.end():]))
    return out


# ========================================================================= run
def qkey(q):
    h = hashlib.sha1((q['text'] + ('\0' + q['fmt'] if q.get('fmt') else '')).encode()).hexdigest()[:10]
    return f"{q['schema']}:{h}"


# the integer literal `clauses.scan_check_ctes` draws with random.randint (non-pretty text)
CHECK_SCAN_RE = re.compile(r'(_dml_dummy SET flag = TRUE WHERE \(id = \(*)\d+')


def mask_check_scan(sql: str) -> str:
    return CHECK_SCAN_RE.sub(lambda m: m.group(1) + 'N', sql)


# ----- root-cause classification of a difference between the two processes' SQL TREES -----
# Every class corresponds to an iteration over a hash container that was located in the source;
# a pair of trees belongs to a set of classes when the trees become equal after undoing exactly
# those re-orderings.  Anything else is `unclassified` (an ordinary violation).
ROOT_CAUSES = {
    'conjunct-order':
        'order of the AND-conjuncts of a WHERE / JOIN ON condition: relctx._plain_join and '
        '_lateral_union_join iterate the SET right_rvar.query.path_bonds '
        '(edb/pgsql/compiler/relctx.py:1426, 1482; pgast.EdgeQLPathInfo.path_bonds is typing.Set, '
        'PathId.__hash__ hashes self.__class__)',
    'union-arm-order':
        'order of the arms of an inheritance UNION: relctx._get_typeref_descendants iterates the set returned '
        'by irtyputils.get_typeref_descendants (edb/ir/typeutils.py:1099 -> edb/pgsql/compiler/relctx.py:1811), '
        '_get_ptrref_descendants iterates BasePointerRef.descendants() (a set, edb/ir/ast.py:288 -> '
        'relctx.py:2393) and range_for_ptrref iterates the set union_components (relctx.py:2132)',
    'dml-column-order':
        'order of the columns of the ins_/upd_ rewrites CTE (and with it of the value outputs of the contents '
        'CTE and of the INSERT/UPDATE column list): dml.process_insert_rewrites / process_update_rewrites '
        'iterate the set comprehension `not_rewritten` (edb/pgsql/compiler/dml.py:987-991, 1970-1974)',
    'check-scan-random':
        'clauses.scan_check_ctes embeds random.randint(0, 2**60-1) into the UPDATE _dml_dummy statement '
        '(edb/pgsql/compiler/clauses.py:478)',
    'ir-conflict-check-order':
        'the IR itself differs between the processes (numbering of the __derived__::expr~N path ids and order of '
        'the inheritance conflict checks of a DML statement): conflicts.compile_inheritance_conflict_checks collects '
        '(type, ancestor, statement) triples into the SET modified_ancestors and iterates it '
        '(edb/edgeql/compiler/conflicts.py:761, 821; IR statement nodes hash by identity)',
    'join-equivalent-column':
        'which of two columns that `=` conditions of the statement equate is referenced: '
        'relctx._pull_path_namespace collects the paths of a range var into the SET s_paths and iterates it '
        '(edb/pgsql/compiler/relctx.py:92, 112), so the dict path_rvar_map of the target query is filled in hash '
        'order and later first-match look-ups pick a different provider range var for the same path',
}
RENUMBER_WITH = {'union-arm-order', 'dml-column-order'}      # re-orderings that shift alias counters
DML_CTE_RE = re.compile(r'^(ins|upd)_(contents|rewrites)~\d+$')
ALIAS_NUM_RE = re.compile(r'~\d+')


def _mkey(x) -> str:
    """sort key that does not depend on alias counters"""
    return ALIAS_NUM_RE.sub('~#', json.dumps(x, sort_keys=True))


def _flatten_and(e):
    if isinstance(e, dict) and e.get('_') == 'Expr' and str(e.get('name', '')).upper() == 'AND' \
            and 'lexpr' in e and 'rexpr' in e:
        return _flatten_and(e['lexpr']) + _flatten_and(e['rexpr'])
    if isinstance(e, dict) and e.get('_') == 'AND*':
        return list(e['args'])
    return [e]


def _mask_big_ints(t):
    if isinstance(t, list):
        return [_mask_big_ints(x) for x in t]
    if isinstance(t, dict):
        if t.get('_') == 'NumericConstant' and re.fullmatch(r'\d{1,19}', str(t.get('val', ''))):
            return dict(t, val='N')
        return {k: _mask_big_ints(v) for k, v in t.items()}
    return t


def tree_normalise(t, classes, renumber):
    """undo the re-orderings of `classes` (bottom-up), then optionally renumber alias counters"""
    def fix(node):
        if 'subselect-outputs' in classes and node.get('_') == 'RangeSubselect':
            q = node.get('subquery')
            if isinstance(q, dict) and q.get('_') == 'SelectStmt' and 'op' not in q and 'values' not in q \
                    and q.get('target_list') \
                    and all(isinstance(t, dict) and t.get('name') for t in q['target_list']):
                q['target_list'] = sorted(q['target_list'], key=_mkey)
        if 'conjunct-order' in classes:
            for fld in ('where_clause', 'quals'):
                if fld in node:
                    cs = _flatten_and(node[fld])
                    if len(cs) > 1:
                        node[fld] = {'_': 'AND*', 'args': sorted(cs, key=_mkey)}
        if 'union-arm-order' in classes and node.get('_') == 'SelectStmt' \
                and str(node.get('op', '')).upper() == 'UNION' and 'larg' in node and 'rarg' in node:
            arms = []
            for arm in (node['larg'], node['rarg']):
                if isinstance(arm, dict) and arm.get('_') == 'UNION*' and arm.get('all') == node.get('all') \
                        and set(arm) <= {'_', 'all', 'arms'}:
                    arms += arm['arms']
                else:
                    arms.append(arm)
            rest = {k: v for k, v in node.items() if k not in ('larg', 'rarg', 'op', '_')}
            node = dict(rest, _='UNION*', arms=sorted(arms, key=_mkey))
        if 'dml-column-order' in classes:
            if node.get('_') == 'CommonTableExpr' and DML_CTE_RE.match(str(node.get('name', ''))) \
                    and isinstance(node.get('query'), dict) and 'target_list' in node['query']:
                node['query']['target_list'] = sorted(node['query']['target_list'], key=_mkey)
            if node.get('_') == 'InsertStmt':
                if 'cols' in node:
                    node['cols'] = sorted(node['cols'], key=_mkey)
                sel = node.get('select_stmt')
                if isinstance(sel, dict) and 'target_list' in sel:
                    sel['target_list'] = sorted(sel['target_list'], key=_mkey)
            if node.get('_') == 'UpdateStmt' and 'targets' in node:
                node['targets'] = sorted(node['targets'], key=_mkey)
            if node.get('_') == 'MultiAssignRef':
                # `(c1, …, cn) = (SELECT r.c1, …, r.cn FROM upd_rewrites r)`: both lists in parallel
                if isinstance(node.get('columns'), list):
                    node['columns'] = sorted(node['columns'])
                src = node.get('source')
                if isinstance(src, dict) and isinstance(src.get('target_list'), list):
                    src['target_list'] = sorted(src['target_list'], key=_mkey)
        if 'check-scan-random' in classes and node.get('_') == 'UpdateStmt':
            rel = (node.get('relation') or {}).get('relation') or {}
            if rel.get('name') == '_dml_dummy' and 'where_clause' in node:
                node['where_clause'] = _mask_big_ints(node['where_clause'])
        return node

    def walk(x):
        if isinstance(x, list):
            return [walk(y) for y in x]
        if isinstance(x, dict):
            return fix({k: walk(v) for k, v in x.items()})
        return x

    out = walk(t)
    if renumber:
        counters: dict = {}
        mapping: dict = {}

        def assign(x):
            m = re.fullmatch(r'(.*)~(\d+)', x, re.S)
            if m and x not in mapping:
                h = m.group(1)
                counters[h] = counters.get(h, 0) + 1
                mapping[x] = f'{h}~{counters[h]}'

        def defs(x):
            # numbers are handed out in the order of the DEFINITION sites (range-variable aliases, CTE
            # names, output column names), so that a differing reference cannot shift them
            if isinstance(x, list):
                for y in x:
                    defs(y)
            elif isinstance(x, dict):
                t = x.get('_')
                if t == 'Alias':
                    for n in [x.get('aliasname')] + list(x.get('colnames') or []):
                        if isinstance(n, str):
                            assign(n)
                elif t in ('ResTarget', 'CommonTableExpr') and isinstance(x.get('name'), str):
                    assign(x['name'])
                for v in x.values():
                    defs(v)

        def ren(x, key=None):
            if isinstance(x, list):
                return [ren(y, key) for y in x]
            if isinstance(x, dict):
                return {k: ren(v, k) for k, v in x.items()}
            if isinstance(x, str) and key not in ('val', 'expr'):
                assign(x)
                return mapping.get(x, x)
            return x
        defs(out)
        out = ren(out)
    return out


class _Equated:
    """Columns that some `=` conjunct of the statement equates (union-find over qualified column
    names; the compiler's aliases are unique within a statement)."""

    def __init__(self, tree):
        self.parent = {}
        self._scan(tree)

    def _find(self, x):
        while self.parent.setdefault(x, x) != x:
            self.parent[x] = self.parent[self.parent[x]]
            x = self.parent[x]
        return x

    def _scan(self, x):
        if isinstance(x, list):
            for y in x:
                self._scan(y)
        elif isinstance(x, dict):
            if x.get('_') == 'Expr' and x.get('name') == '=':
                l, r = x.get('lexpr'), x.get('rexpr')
                if isinstance(l, dict) and isinstance(r, dict) and l.get('_') == r.get('_') == 'ColumnRef':
                    a, b = self._find(json.dumps(l.get('name'))), self._find(json.dumps(r.get('name')))
                    self.parent[a] = b
            for v in x.values():
                self._scan(v)

    def same(self, x, y) -> bool:
        return self._find(json.dumps(x)) == self._find(json.dumps(y))


def equal_mod_equated(a, b, eq_a=None, eq_b=None):
    """-> (equal?, number of column references that differ but are equated (transitively) by `=`
    conditions of the statement, in both trees)"""
    if eq_a is None:
        eq_a, eq_b = _Equated(a), _Equated(b)
    if isinstance(a, dict) and isinstance(b, dict):
        if a.get('_') == 'ColumnRef' and b.get('_') == 'ColumnRef' and a != b:
            if eq_a.same(a.get('name'), b.get('name')) and eq_b.same(a.get('name'), b.get('name')) \
                    and {k: v for k, v in a.items() if k != 'name'} == {k: v for k, v in b.items() if k != 'name'}:
                return True, 1
            return False, 0
        if a.get('_') != b.get('_') or set(a) != set(b):
            return False, 0
        n = 0
        for k in a:
            ok, m = equal_mod_equated(a[k], b[k], eq_a, eq_b)
            if not ok:
                return False, 0
            n += m
        return True, n
    if isinstance(a, list) and isinstance(b, list):
        if len(a) != len(b):
            return False, 0
        n = 0
        for x, y in zip(a, b):
            ok, m = equal_mod_equated(x, y, eq_a, eq_b)
            if not ok:
                return False, 0
            n += m
        return True, n
    return a == b, 0


def classify_tree_diff(ta, tb):
    """-> sorted list of root-cause classes explaining the difference, or None (unclassified).

    `conjunct-order` also tolerates a different order of the (named) output columns of FROM sub-selects,
    because the same loop over `path_bonds` injects those outputs (`get_rvar_path_var(right_rvar, …)`);
    but only when the order of conjuncts really differs: a pair explained by the order of sub-select
    outputs alone is NOT attributed to it."""
    import itertools
    reorders = [c for c in ROOT_CAUSES if c not in ('join-equivalent-column', 'ir-conflict-check-order')]

    def expand(ss):
        return ss | {'subselect-outputs'} if 'conjunct-order' in ss else ss

    full = expand(set(reorders))
    if not equal_mod_equated(tree_normalise(ta, full, True), tree_normalise(tb, full, True))[0] and \
            not equal_mod_equated(tree_normalise(ta, full, False), tree_normalise(tb, full, False))[0]:
        return None
    for r in range(0, len(reorders) + 1):
        for sub in itertools.combinations(reorders, r):
            ss = set(sub)
            for renum in ((False, True) if ss & RENUMBER_WITH else (False,)):
                na, nb = tree_normalise(ta, expand(ss), renum), tree_normalise(tb, expand(ss), renum)
                ok, n = equal_mod_equated(na, nb)
                if not ok or (not ss and n == 0):
                    continue
                if 'conjunct-order' in ss:
                    # would the order of sub-select outputs alone (no conjunct re-ordering) explain it?
                    alt = (ss - {'conjunct-order'}) | {'subselect-outputs'}
                    if equal_mod_equated(tree_normalise(ta, alt, renum), tree_normalise(tb, alt, renum))[0]:
                        return None
                return sorted(ss | ({'join-equivalent-column'} if n > 0 else set()))
    return None


def coarse_ir_equal(ta, tb) -> bool:
    """Only used when the IR of the two processes is known to differ by numbering / order of conflict
    checks: are the SQL trees equal after undoing every identified re-ordering, sorting CTE lists and
    masking every number that follows `~` or `-` in a name?"""
    full = {c for c in ROOT_CAUSES if c not in ('join-equivalent-column', 'ir-conflict-check-order')} \
        | {'subselect-outputs'}

    def mask(x, key=None):
        if isinstance(x, list):
            return [mask(y, key) for y in x]
        if isinstance(x, dict):
            d = {k: mask(v, k) for k, v in x.items()}
            if isinstance(d.get('ctes'), list):
                d['ctes'] = sorted(d['ctes'], key=_mkey)
            for k in ('target_list', 'args'):
                if isinstance(d.get(k), list) and d.get('_') in ('SelectStmt', 'AND*'):
                    d[k] = sorted(d[k], key=_mkey)
            if d.get('_') == 'UNION*':
                d['arms'] = sorted(d['arms'], key=_mkey)
            return d
        if isinstance(x, str) and key not in ('val', 'expr'):
            return re.sub(r'(?<=[~-])\d+', '#', x)
        return x

    return equal_mod_equated(mask(tree_normalise(ta, full, False)), mask(tree_normalise(tb, full, False)))[0]


def load_tree(path):
    import gzip
    with gzip.open(path, 'rt') as f:
        return json.load(f)


def descriptor_canon(data_hex: str, sort_components: bool, mask_derived_ids: bool = False):
    """structural form of a type descriptor via the REAL parser; optionally with the components of
    compound (union / intersection) object types sorted by type id, and with the ids of compound types
    and of the ids computed from them (sets, shapes, collections) masked.
    -> (structure, contains a compound type?)"""
    import dataclasses
    from edb.server import defines as edbdef
    from edb.server.compiler import sertypes
    td = sertypes.parse(bytes.fromhex(data_hex), edbdef.CURRENT_PROTOCOL)
    derived = (sertypes.CompoundDesc, sertypes.ShapeDesc, sertypes.SequenceDesc, sertypes.TupleDesc,
               sertypes.NamedTupleDesc)
    seen = {'compound': False}

    def conv(x):
        if dataclasses.is_dataclass(x) and not isinstance(x, type):
            tid = str(getattr(x, 'tid', None))
            if isinstance(x, sertypes.CompoundDesc):
                seen['compound'] = True
            if mask_derived_ids and isinstance(x, derived):
                tid = '<derived>'
            d = {'_': type(x).__name__, 'tid': tid}
            for f in dataclasses.fields(x):
                if f.name != 'tid':
                    d[f.name] = conv(getattr(x, f.name))
            if sort_components and isinstance(x, sertypes.CompoundDesc):
                d['components'] = sorted(d['components'], key=lambda c: json.dumps(c, sort_keys=True))
            return d
        if isinstance(x, dict):
            return {str(k): conv(v) for k, v in x.items()}
        if isinstance(x, (list, tuple)):
            return [conv(v) for v in x]
        if isinstance(x, (str, int, float, bool)) or x is None:
            return x
        return str(x)
    return conv(td), seen['compound']


def classify_descriptor_diff(va: str, vb: str):
    """-> list of root-cause classes, or None"""
    for sort, mask, classes in ((True, False, ['compound-type-component-order']),
                                (False, True, ['compound-type-fresh-id']),
                                (True, True, ['compound-type-component-order', 'compound-type-fresh-id'])):
        ca, has_a = descriptor_canon(va, sort, mask)
        cb, has_b = descriptor_canon(vb, sort, mask)
        if has_a and has_b and ca == cb:
            return classes
    return None


DESCRIPTOR_ROOT_CAUSES = {
    'compound-type-component-order':
        'order of the components of a compound (union) object type in the output type descriptor: '
        'sertypes._describe_compound_object_type iterates t.get_union_of(schema).objects(schema), an unordered '
        'object set (edb/server/compiler/sertypes.py:727)',
    'compound-type-fresh-id':
        'the id of a compound (union) object type written into the descriptor, and the set / shape ids computed '
        'from it: objtypes.get_or_create_union_type derives the union type at compile time '
        '(edb/schema/objtypes.py:385) without a stable id, so Object._prepare_id draws uuidgen.uuid1mc() '
        '(edb/schema/objects.py:1184); sertypes._describe_compound_object_type emits t.id '
        '(edb/server/compiler/sertypes.py:721-740)',
}

def first_diff(a: str, b: str, width=60):
    n = min(len(a), len(b))
    i = next((k for k in range(n) if a[k] != b[k]), n)
    return dict(at=i, a=a[max(0, i - width):i + width], b=b[max(0, i - width):i + width])


def read_worker(path):
    recs = {}
    meta, done = None, None
    with open(path) as f:
        for ln in f:
            r = json.loads(ln)
            if 'meta' in r:
                meta = r['meta']
            elif 'done' in r:
                done = r
            else:
                recs[r['i']] = r
    return meta, recs, done


def run(ctx: core.Ctx):
    import shim  # noqa: F401  (stubs for the native modules; must precede any `edb` import)
    ctx.level = 'translation_validation'
    rng = ctx.rng

    proved = ctx.proof_stage(PROPS, ['EdbVerif.Props.C13', 'Driver.C13'], required=REQUIRED)
    ctx.log('proof stage:', 'ok' if proved else ctx.proof['broken'])

    # ---------------------------------------------------------- population
    paths, descs = load_schemas(ctx)
    if ctx.replay:
        rp = json.load(open(ctx.replay))
        pop = []
        for f in rp['failures']:
            d = f.get('detail')
            if isinstance(d, dict) and 'schema' in d and 'text' in d:
                pop.append(dict(schema=d['schema'], kind='replay', text=d['text'], fmt=d.get('fmt')))
        if not pop:
            pop = gen_population(rng, descs, 0)
    else:
        pop = gen_population(rng, descs, ctx.budget(180, 3000))
    nshards = 1 if len(pop) < 40 else ctx.budget(2, 6)
    from lib import rustlex
    ok, log = rustlex.build()         # once, here; the workers reuse the binary
    if not ok:
        raise core.Infra('cannot build edb_lex: ' + log[-400:])
    # two hash seeds under which the small sets of PathAspect (a StrEnum: str hashes) iterate in opposite
    # orders: {IDENTITY, VALUE}, {VALUE, SOURCE}, {VALUE, SERIALIZED} are va-id/va-so/va-se under 1 and
    # id-va/so-va/se-va under 10
    seeds = (1, 10)
    tmp = tempfile.mkdtemp(prefix='c13-')
    procs = []
    for sh in range(nshards):
        idx = list(range(sh, len(pop), nshards))
        for hs in seeds:
            spec = dict(schemas=paths, queries=[pop[i] for i in idx], reverse=(hs == seeds[1]))
            sp = os.path.join(tmp, f'spec{sh}-{hs}.json')
            json.dump(spec, open(sp, 'w'))
            op = os.path.join(tmp, f'out{sh}-{hs}.jsonl')
            procs.append((sh, hs, idx, op, spawn_worker(sp, op, hs)))
    ctx.log(f'{len(pop)} queries, {len(procs)} worker processes started '
            f'({nshards} shard(s) x PYTHONHASHSEED {seeds})')

    # -------------------------------------- meanwhile: level 1 + hand cases
    from edb.common.compiler import AliasGenerator
    lines = []
    expect = []          # (kind, payload)
    # (d) hand-written accept / reject cases
    hc = hand_cases()
    for cid, ok, line, src in hc:
        lines.append(line)
        expect.append(('hand', (cid, ok, src)))
    # (e) AliasGenerator
    n_alias = ctx.budget(1500, 40000)
    alias_cases = [list(HINT_FIXED)] + [gen_alias_case(rng) for _ in range(n_alias)]
    n_alias_distinct = len({tuple(h) for h in alias_cases})
    for hints in alias_cases:
        g = AliasGenerator()
        try:
            real = [g.get(h) for h in hints]
        except Exception as e:       # the real code under test
            real = [f'EXC {type(e).__name__}']
        lines.append('A ' + ' '.join(enc(h) for h in hints))
        expect.append(('alias', (hints, real)))
        if len(set(real)) != len(real):
            ctx.fail('alias-collision:' + '|'.join(enc(h) for h in hints),
                     'AliasGenerator.get returned the same alias twice', {'hints': hints, 'aliases': real})
    # the generator the SQL compiler really uses (edb/pgsql/compiler/aliases.py) shortens long aliases:
    # replay of the Lean witness `alias_fresh_pg_counterexample`, then a random search
    from edb.pgsql.compiler import aliases as pg_aliases
    from edb.schema import defines as s_defines
    if s_defines.MAX_NAME_LENGTH != 51:
        ctx.fail('corr-max-name-length', 'MAX_NAME_LENGTH differs from the model\'s 51',
                 {'real': s_defines.MAX_NAME_LENGTH}, no_input=True)
    g = pg_aliases.AliasGenerator()
    w1 = g.get('x' * 60)
    w2 = g.get(w1)
    pg_witness = dict(hints=['x' * 60, w1], aliases=[w1, w2])
    if w1 == w2:
        ctx.fail('alias-collision-pg:witness',
                 'edb.pgsql.compiler.aliases.AliasGenerator returns the same alias twice: a shortened alias '
                 'used as a hint comes back unchanged', pg_witness)
    n_pg = 0
    pg_found = None
    pg_same_shape = 0
    for _ in range(ctx.budget(400, 10000)):
        g = pg_aliases.AliasGenerator()
        hints, outs = [], []
        for _k in range(rng.randint(2, 8)):
            r = rng.random()
            if r < 0.3 and outs:
                h = rng.choice(outs)
            elif r < 0.6:
                h = rng.choice(HINT_FIXED)
            else:
                h = ''.join(rng.choice(HINT_ATOMS) for _ in range(rng.randint(0, 5))) * rng.randint(1, 30)
            hints.append(h)
            outs.append(g.get(h))
        n_pg += 1
        if len(set(outs)) != len(outs):
            # shape of the witness: a SHORTENED alias (md5 + ':' + tail, ending in ~N) re-used as a hint
            # comes back unchanged
            j = next(k for k in range(len(outs)) if outs[k] in outs[:k])
            i = outs.index(outs[j])
            same_shape = (hints[j] == outs[i] and len(outs[i]) == s_defines.MAX_NAME_LENGTH
                          and re.match(r'^[A-Za-z0-9+/]{22}:', outs[i]) is not None
                          and re.search(r'~[0-9]+$', outs[i]) is not None)
            found = dict(hints=hints, aliases=outs, first=i, second=j)
            if same_shape:
                pg_same_shape += 1
            elif pg_found is None or len(hints) < len(pg_found['hints']):
                pg_found = found
    if pg_same_shape and w1 != w2:
        ctx.fail('alias-collision-pg:witness', 'edb.pgsql.compiler.aliases.AliasGenerator: a shortened alias '
                 're-used as a hint comes back unchanged (found by the random search only)', {'count': pg_same_shape})
    if pg_found is not None:
        ctx.fail('alias-collision-pg:other-shape', 'edb.pgsql.compiler.aliases.AliasGenerator returned the '
                 'same alias twice, and NOT by re-using a shortened alias as a hint', pg_found)
    # (e) populate_argmap
    n_am = ctx.budget(3000, 60000)
    am_cases = [gen_argmap_case(rng) for _ in range(n_am)]
    am_distinct = set()
    for case in am_cases:
        real = real_argmap(case)
        line = argmap_line(case)
        am_distinct.add(line)
        lines.append(line)
        expect.append(('argmap', (case, real)))
        for b in argmap_oracle(case, real):
            ctx.fail('argmap:' + line, b, {'case': case, 'argmap': real})
    lines.append('R')
    expect.append(('ranges', None))
    lvl1_out = ctx.driver('C13', lines)
    if len(lvl1_out) != len(lines):
        raise core.Infra(f'driver returned {len(lvl1_out)} lines for {len(lines)}')
    n_dis = 0
    hand_hist = collections.Counter()
    for (kind, pl), line, out in zip(expect, lines, lvl1_out):
        if kind == 'hand':
            cid, ok, src = pl
            got = out.split(' ')[0]
            hand_hist['accept' if ok else 'reject'] += 1
            if got != ('ok' if ok else 'bad'):
                n_dis += 1
                ctx.fail(f'hand:{cid}', 'the checker disagrees with the expected verdict of a hand-written '
                         'PostgreSQL scoping case', {'case': cid, 'expected_ok': ok, 'got': out,
                                                     'line': line, 'source': src}, no_input=True)
        elif kind == 'alias':
            hints, real = pl
            mout = [dec(x) for x in out.split(' ')] if out else []
            if mout != real:
                n_dis += 1
                ctx.fail('corr-alias:' + line, 'AliasGenerator: model and implementation disagree',
                         {'hints': hints, 'real': real, 'model': mout}, no_input=True)
        elif kind == 'argmap':
            case, real = pl
            if out != show_argmap(real):
                n_dis += 1
                ctx.fail('corr-argmap:' + line, 'populate_argmap: model and implementation disagree',
                         {'case': case, 'real': show_argmap(real), 'model': out}, no_input=True)
        else:
            # Unicode decimal digits: the model's table vs this Python's str.isdecimal / regex \d
            rs, start = [], None
            for cp in range(0x110000):
                d = chr(cp).isdecimal()
                if d and start is None:
                    start = cp
                if not d and start is not None:
                    rs.append(f'{start}-{cp - 1}')
                    start = None
            if ' '.join(rs) != out:
                n_dis += 1
                ctx.fail('corr-decimal-table', 'Unicode Nd table of the model differs from Python\'s',
                         {'python': ' '.join(rs), 'model': out}, no_input=True)
            probe = [cp for cp in range(0x110000) if bool(re.fullmatch(r'\d', chr(cp))) != chr(cp).isdecimal()]
            if probe:
                ctx.fail('corr-decimal-re', 'regex \\d differs from str.isdecimal', {'cps': probe[:10]},
                         no_input=True)
    ctx.log(f'level 1: {len(hc)} hand cases {dict(hand_hist)}, {len(alias_cases)} alias runs, '
            f'{len(am_cases)} argmap cases; disagreements {n_dis}')

    # ------------------------------------------------------ collect workers
    results = {}          # i -> {hashseed: rec}
    metas = []
    for sh, hs, idx, op, p in procs:
        try:
            so, se = p.communicate(timeout=ctx.budget(1500, 7200))
        except subprocess.TimeoutExpired:
            p.kill()
            raise core.Infra(f'worker shard {sh} seed {hs} timed out')
        if p.returncode != 0:
            raise core.Infra(f'worker shard {sh} seed {hs} failed rc={p.returncode}: {se[-1500:]}')
        meta, recs, done = read_worker(op)
        if done is None or len(recs) != len(idx):
            raise core.Infra(f'worker shard {sh} seed {hs} incomplete output: {se[-800:]}')
        metas.append(dict(shard=sh, hashseed=hs, startup_s=meta['startup_s'], total_s=done['total_s']))
        for j, i in enumerate(idx):
            recs[j]['_tree'] = os.path.join(op + '.trees', f'{j}.json.gz')
            for k, sub in enumerate(recs[j].get('extra') or [], 1):
                sub['_tree'] = os.path.join(op + '.trees', f'{j}.{k}.json.gz')
            results.setdefault(i, {})[hs] = recs[j]
    ctx.log('workers done:', metas)

    # ---------------------------------------------------------- evaluation
    status_hist = collections.Counter()
    kind_hist = collections.Counter()
    stats = collections.Counter()
    qlines, qmeta = [], []
    n_det_checked = n_det_diff = 0
    n_multi_func = 0
    n_rw2 = n_rw_dep = 0
    det_classes = collections.Counter()
    det_instances: dict = {}
    n_desc_checked = 0
    rejected_samples, ise_samples, unmodelled_samples = [], [], []
    # one item per compiled STATEMENT (a script contributes one per statement)
    items = []
    for i, q in enumerate(pop):
        a, b = results[i][seeds[0]], results[i][seeds[1]]
        for r in (a, b):
            if r['status'] == 'worker-error':
                raise core.Infra(f'worker error on {q}: {r["err"]}')
        items.append((q, a, b, qkey(q)))
        ea, eb = a.get('extra') or [], b.get('extra') or []
        if len(ea) != len(eb):
            ctx.fail(f'nondet-status:{qkey(q)}', 'number of statements compiled differs between two processes',
                     {'schema': q['schema'], 'text': q['text'], 'a': len(ea), 'b': len(eb)})
        for k, (xa, xb) in enumerate(zip(ea, eb), 1):
            items.append((dict(q, stmt=k), xa, xb, f'{qkey(q)}#{k}'))
            stats['script-statements'] += 1
    probe_hits = collections.Counter()
    probe_samples: dict = {}
    for i, (q, a, b, key) in enumerate(items):
        for pname, n in (a.get('probes') or {}).items():
            probe_hits[pname] += n
            probe_samples.setdefault(pname, [])
            if len(probe_samples[pname]) < 3:
                probe_samples[pname].append(dict(schema=q['schema'], text=q['text'][:300]))
        status_hist[a['status']] += 1
        base_detail = {'schema': q['schema'], 'text': q['text'], 'kind': q['kind'], 'stmt': q.get('stmt', 0),
                       'fmt': q.get('fmt')}
        # (c) determinism: two fresh processes, different PYTHONHASHSEED
        if a['status'] != b['status']:
            ctx.fail(f'nondet-status:{key}', 'compilation outcome differs between two processes',
                     base_detail | {'a': a.get('err', a['status']), 'b': b.get('err', b['status'])})
        if a['status'] in ('ok', 'unmodelled') and b['status'] == a['status']:
            n_det_checked += 1
            text_differs = a['sql'] != b['sql'] or a.get('line') != b.get('line') or any(
                ua['sql'] != ub['sql'] for ua, ub in zip(a.get('server') or [], b.get('server') or []))
            other = []
            if a['argmap'] != b['argmap']:
                other.append(('argmap', dict(a=a['argmap'], b=b['argmap'])))
            pa, pb = a.get('pdetach') or {}, b.get('pdetach') or {}
            if (pa.get('detached_params'), pa.get('argmap'), pa.get('cache_func')) != \
                    (pb.get('detached_params'), pb.get('argmap'), pb.get('cache_func')):
                other.append(('detached-params', dict(a=pa.get('detached_params'), b=pb.get('detached_params'))))
            sa, sb = a.get('server') or [], b.get('server') or []
            if len(sa) != len(sb):
                other.append(('server-units', None))
            desc_diffs = []
            n_desc_checked += 1
            for ua, ub in zip(sa, sb):
                for f in ('out_type_id', 'out_type_data', 'in_type_id', 'in_type_data',
                          'in_type_args', 'capabilities', 'cardinality'):
                    if ua[f] != ub[f]:
                        desc_diffs.append((f, ua[f], ub[f]))
            if text_differs or other or desc_diffs:
                n_det_diff += 1
            inst = base_detail | {'ir_differs': a.get('ir_fp') != b.get('ir_fp')}
            if text_differs:
                if mask_check_scan(a['sql']) == mask_check_scan(b['sql']) and a['sql'] != b['sql'] and all(
                        mask_check_scan(ua['sql']) == mask_check_scan(ub['sql']) for ua, ub in zip(sa, sb)):
                    # (a) the one tolerated text difference: the random literal of scan_check_ctes
                    det_classes['text:check-scan-random'] += 1
                    det_instances.setdefault('nondet:text:check-scan-random', []).append(
                        inst | {'first_difference': first_diff(a['sql'], b['sql'])})
                else:
                    # STRICT: any other text difference is a violation; the tree diff is a diagnosis only
                    try:
                        tra, trb = load_tree(a['_tree']), load_tree(b['_tree'])
                        diagnosis = classify_tree_diff(tra, trb)
                        if diagnosis is None and inst['ir_differs'] and a.get('ir_fp_masked') is not None \
                                and a.get('ir_fp_masked') == b.get('ir_fp_masked') \
                                and min(a.get('ir_conflict_checks', 0), b.get('ir_conflict_checks', 0)) >= 2 \
                                and coarse_ir_equal(tra, trb):
                            diagnosis = ['ir-conflict-check-order']
                    except OSError:
                        diagnosis = None
                    det_classes['text:VIOLATION:' + ('+'.join(diagnosis) if diagnosis else 'undiagnosed')] += 1
                    ctx.fail(f'nondet:text:{key}',
                             'recompiling the same query against the same schema in a second process (different '
                             'PYTHONHASHSEED) gives a different SQL text'
                             + (f' [diagnosis: same trees up to {", ".join(diagnosis)} — '
                                + '; '.join(ROOT_CAUSES[c] for c in diagnosis) + ']' if diagnosis else
                                ' [no diagnosis: not one of the formerly identified re-orderings]'),
                             inst | {'diagnosis': diagnosis, 'first_difference': first_diff(a['sql'], b['sql']),
                                     'sql_a': a['sql'], 'sql_b': b['sql']})
            dclasses = None
            for f, va, vb in desc_diffs:
                if f == 'out_type_data':
                    try:
                        dclasses = classify_descriptor_diff(va, vb)
                    except Exception as e:       # the real parser under test
                        inst = inst | {'parse_error': f'{type(e).__name__}: {e}'}
            for f, va, vb in desc_diffs:
                if dclasses == ['compound-type-fresh-id'] and f in ('out_type_data', 'out_type_id'):
                    # (b) the one tolerated descriptor difference
                    if f == 'out_type_data':
                        det_classes['descriptor:compound-type-fresh-id'] += 1
                        det_instances.setdefault('nondet:descriptor:compound-type-fresh-id', []).append(
                            inst | {'field': f, 'a': va[:600], 'b': vb[:600]})
                    continue
                det_classes['descriptor:VIOLATION'] += 1
                ctx.fail(f'nondet:descriptor:{f}:{key}',
                         f'the type descriptor field {f} differs between two processes'
                         + (f' [diagnosis: {", ".join(dclasses)}]' if dclasses else ''),
                         inst | {'field': f, 'diagnosis': dclasses, 'a': va, 'b': vb})
            for w, d in other:
                det_classes[w] += 1
                ctx.fail(f'nondet:{w}:{key}', f'{w} differs between two processes', inst | {'diff': d})
        if a['status'] == 'rejected':
            if len(rejected_samples) < 5:
                rejected_samples.append(dict(q=q['text'][:160], err=a['err'][:120]))
            continue
        if a['status'] == 'ise':
            if len(ise_samples) < 5:
                ise_samples.append(dict(schema=q['schema'], q=q['text'], err=a['err'][:200]))
            continue
        kind_hist[q['kind']] += 1
        if 'params_codegen' not in a:
            stats['unmodelled'] += 1
            stats['unmodelled:' + a.get('err', '?')[:60]] += 1
            continue
        # (b) parameter consistency
        used = set(a['params_codegen'])
        idx_of = {k: (ix, lg) for k, ix, lg, _ in a['argmap']}
        indexes = {ix for ix, _ in idx_of.values()}
        tuple_params = {n for n, _, has_sub, _ in a['ir_params'] if has_sub}
        for n in sorted(used - indexes):
            ctx.fail(f'param-out-of-argmap:{key}', f'SQL uses ${n} but the argmap has no such index',
                     base_detail | {'argmap': a['argmap'], 'used': sorted(used)})
        flagged = set(a['flagged_unused'])
        in_text = set(a['params_unit_text']) if a.get('params_unit_text') is not None else None
        if in_text is not None and in_text != used:
            ctx.fail(f'param-text:{key}', 'placeholders in the SQL text of the QueryUnit differ from the ParamRefs '
                     'of the SQL tree', base_detail | {'placeholders_in_text': sorted(in_text), 'tree': sorted(used)})
        for k, (ix, lg) in idx_of.items():
            if k in tuple_params:
                continue
            if ix not in used or (in_text is not None and ix not in in_text):
                ctx.fail(f'argmap-entry-unused:{key}:{k}',
                         f'the argmap binds {k!r} to ${ix}, but ${ix} occurs nowhere in the SQL text '
                         '(neither used nor listed in the __unused_vars CTE)',
                         base_detail | {'argmap': a['argmap'], 'used': sorted(used)})
            elif ix in flagged:
                stats['argmap-entry-flagged-unused'] += 1
            else:
                stats['argmap-entry-used'] += 1
        am_case = (False, [(n, r, s) for n, r, s, _ in a['ir_params']],
                   [(n, r, h) for n, r, h in a['ir_globals']])
        real_am = [tuple(x) for x in a['argmap']]
        for bmsg in argmap_oracle(am_case, real_am):
            ctx.fail(f'argmap-real:{key}', bmsg, base_detail | {'argmap': a['argmap']})
        # (b') SQL placeholders / argmap / detached parameter list, without and with detach_params
        pd_runs = [(a, False, 'uncached request')]
        pd = a.get('pdetach')
        if pd is not None:
            stats['pdetach:probed'] += 1
            if pd.get('status') not in ('ok', 'unmodelled') or 'params_codegen' not in pd:
                stats['pdetach:probe-' + str(pd.get('status'))] += 1
                if pd.get('status') != a['status']:
                    ctx.fail(f'params:detached-status:{key}', 'the query compiles as an uncached request but not as a '
                             'cacheable one', base_detail | {'uncached': a['status'], 'cacheable': pd.get('status'),
                                                             'err': pd.get('err')})
            elif not pd.get('detach'):
                stats['pdetach:server-did-not-detach'] += 1
                pd_runs.append((pd, False, 'request with a cache key (server did not detach)'))
            else:
                stats['pdetach:detached'] += 1
                pd_runs.append((pd, True, 'cacheable request (PgFunc cache, detach_params=True)'))
                if pd['argmap'] != a['argmap']:
                    ctx.fail(f'params:detached-argmap:{key}', 'the argmap differs between detach_params off and on',
                             base_detail | {'off': a['argmap'], 'on': pd['argmap']})
                irp = pd['ir_params']
                if any(s for _, _, s, _ in irp):
                    where = 'last' if irp[-1][3] or irp[-1][2] else ('first' if irp[0][2] else 'middle')
                    stats[f'pdetach:tuple-param-{where}:{"globals" if pd["ir_globals"] else "no-globals"}'] += 1
        for r, det, how in pd_runs:
            for sub, msg in detach_oracle(r, det):
                ctx.fail(f'params:detached-{sub}:{key}', msg + f' [{how}]',
                         base_detail | {'detach_params': det, 'sql': r['sql'], 'argmap': r['argmap'],
                                        'detached_params': r.get('detached_params'), 'ir_params': r['ir_params'],
                                        'ir_globals': r['ir_globals'], 'param_pg_types': r.get('param_pg_types'),
                                        'cache_func': r.get('cache_func')})
        if a['status'] == 'unmodelled':
            stats['unmodelled'] += 1
            stats['unmodelled:' + a['err'][:60]] += 1
            if len(unmodelled_samples) < 5:
                unmodelled_samples.append(dict(q=q['text'][:160], why=a['err']))
            continue
        stats.update(a['stats'])
        if a['stats'].get('from:list-with-2+-functions'):
            n_multi_func += 1
        if a.get('rewrite_ctes', 0) >= 2:
            n_rw2 += 1
            if a.get('rewrite_cte_deps'):
                n_rw_dep += 1
        if a['params_export'] != a['params_codegen']:
            ctx.fail(f'exporter-params:{key}', 'exporter and codegen disagree on the parameters printed',
                     base_detail | {'export': a['params_export'], 'codegen': a['params_codegen']},
                     no_input=True)
        if a['unexported']:
            stats['unexported-refs'] += len(a['unexported'])
            ctx.fail(f'exporter-dropped:{key}', 'a reference reachable in the tree was not exported',
                     base_detail | {'refs': a['unexported'][:10]}, no_input=True)
        if a['long_names']:
            stats['identifiers-over-63-bytes'] += len(a['long_names'])
        qlines.append(a['line'])
        qmeta.append(('tree', i))
        qlines.append(argmap_line(am_case))
        qmeta.append(('argmap', i))

    # one report per identified root cause (at most two instances, with the count)
    for fkey, insts in sorted(det_instances.items()):
        cls = fkey.split(':', 2)[2]
        cause = ROOT_CAUSES.get(cls) or DESCRIPTOR_ROOT_CAUSES[cls]     # only the two tolerated classes get here
        ctx.fail(fkey,
                 'recompiling the same query against the same schema in a second process (different '
                 f'PYTHONHASHSEED) gives a different {"type descriptor" if "descriptor" in fkey else "SQL text"}; '
                 f'root cause: {cause}',
                 {'schema': insts[0]['schema'], 'text': insts[0]['text'], 'count': len(insts),
                  'instances': insts[:2]})

    # non-vacuity on real trees: protocol-level mutants
    n_base = len(qlines)
    mut_meta = []
    tree_idx = [k for k, (kd, _) in enumerate(qmeta) if kd == 'tree']
    for k in tree_idx[:ctx.budget(120, 1500)]:
        for mname, ml in mutants(qlines[k], rng):
            qlines.append(ml)
            qmeta.append(('mutant', (qmeta[k][1], mname)))
    out = ctx.driver('C13', qlines) if qlines else []
    if len(out) != len(qlines):
        raise core.Infra(f'driver returned {len(out)} lines for {len(qlines)}')
    n_checked = n_accept = 0
    scope_kw: list = []
    known_refs = unknown_refs = 0
    mut_hist = collections.Counter()
    samples = []
    distinct_lines = set()
    for (kd, info), line, o in zip(qmeta, qlines, out):
        if kd == 'tree':
            q, a, _b, key = items[info]
            n_checked += 1
            parts = o.split(' ')
            if parts[0] == 'bad-op':
                ctx.fail(f'driver-bad-op:{key}', 'exported tree rejected by the protocol parser',
                         {'schema': q['schema'], 'text': q['text'], 'line': line[:400]}, no_input=True)
                continue
            model_params = sorted({int(x) for x in parts[1].split(',')} if parts[1] != '-' else set())
            if model_params != a['params_export']:
                ctx.fail(f'corr-params:{key}', 'parameters collected by the model differ from the exporter\'s',
                         {'schema': q['schema'], 'text': q['text'], 'model': model_params,
                          'export': a['params_export']}, no_input=True)
            known_refs += int(parts[2])
            unknown_refs += int(parts[3])
            if line not in distinct_lines and ('(subq' in line or '(cref' in line or '(join' in line):
                distinct_lines.add(line)
            if parts[0] == 'ok':
                n_accept += 1
            else:
                nm = a.get('names') or {}
                diag = [re.sub(r'\bn\d+\b', lambda m: '"' + nm.get(m.group(0), m.group(0)) + '"', d)
                        for d in parts[4:]]
                det = {'schema': q['schema'], 'text': q['text'], 'kind': q['kind'], 'fmt': q.get('fmt'),
                       'diagnosis': diag, 'sql': a['sql'][:4000]}
                if a['stats'].get('colref:unquoted-keyword') and diag and all(
                        re.match(r'^unresolved:"(old|new|value)"(\.|@)', d) for d in diag):
                    # root cause identified: one report with a count
                    scope_kw.append(det)
                else:
                    ctx.fail(f'scope:{key}',
                             'the verified scope checker rejects the SQL emitted for this query: '
                             + ' '.join(diag), det)
            if len(samples) < 4 and info % 37 == 0:
                samples.append(dict(schema=q['schema'], query=q['text'], sql_bytes=len(a['sql']),
                                    argmap=a['argmap'], verdict=o[:80], tree=line[:300]))
        elif kd == 'argmap':
            q, a, _b, key = items[info]
            if o != show_argmap([tuple(x) for x in a['argmap']]):
                ctx.fail(f'corr-argmap-real:{key}', 'populate_argmap: model and implementation disagree '
                         'on a real parameter list', {'schema': q['schema'], 'text': q['text'],
                                                      'real': a['argmap'], 'model': o}, no_input=True)
        else:
            _, mname = info
            mut_hist[mname + (':rejected' if o.startswith('bad') else ':accepted')] += 1
    if scope_kw:
        ctx.fail('scope:unquoted-keyword-colref',
                 'emitted SQL references a column that does not exist: codegen.visit_ColumnRef prints the names '
                 'OLD / NEW / VALUE without quotes (edb/pgsql/codegen.py:684-690, meant for trigger / domain-constraint '
                 'DDL), so a named-tuple element of that name, referenced by output.py as a bare column of '
                 '`unnest(..) AS ("OLD" int8, ..)` (edb/pgsql/compiler/output.py:182,391,590), is folded to lower case '
                 'by PostgreSQL and resolves to nothing',
                 {'schema': scope_kw[0]['schema'], 'text': scope_kw[0]['text'], 'fmt': scope_kw[0]['fmt'],
                  'count': len(scope_kw), 'instances': scope_kw[:2]})
    for mname in ('fresh-qualifier',):
        if mut_hist.get(mname + ':accepted'):
            ctx.fail('mutant-accepted:' + mname, 'a reference to a range variable that exists nowhere was accepted',
                     dict(mut_hist), no_input=True)
    ctx.log(f'{n_checked} exported trees through the verified checker: {n_accept} accepted; '
            f'determinism compared on {n_det_checked} ({n_det_diff} differ); mutants {dict(mut_hist)}')

    if not proved:
        ctx.proof_broken_verdict()
    if not ctx.replay and n_checked < 0.5 * len(pop):
        raise core.Infra(f'only {n_checked} of {len(pop)} generated queries were accepted by the compiler')
    if not samples and qmeta:
        k = tree_idx[0]
        q = items[qmeta[k][1]][0]
        samples.append(dict(schema=q['schema'], query=q['text'], verdict=out[k][:80], tree=qlines[k][:300]))

    ctx.cov.update({
        'programs': n_checked,
        'disagreements_checked': n_checked + n_det_checked + len(hc) + len(alias_cases) + len(am_cases),
        'samples': samples + [dict(hand_case=c[0], expected='accept' if c[1] else 'reject', sql=c[3])
                              for c in hc[:3]],
        'evaluations': len(pop) + len(hc) + len(alias_cases) + len(am_cases),
        'distinct_nontrivial': len(distinct_lines) + n_alias_distinct + len(am_distinct),
        'rule': 'programs = EdgeQL queries (fixed list incl. upstream test_edgeql_sql_codegen queries + random '
                'generator over issues.esdl, cards.esdl, corpus/C13/shop.esdl) that the real compiler accepted and '
                'whose SQL tree was exported and checked; distinct non-trivial = distinct exported trees containing '
                'a sub-select/CTE reference/join, plus distinct alias hint sequences and distinct argmap inputs',
        'obligations': ctx.proof.get('obligations', 0),
        'discharged': ctx.proof.get('discharged', 0),
        'checker_cmd': ctx.proof.get('checker_cmd', ''),
        'theorems': ctx.proof.get('theorems', {}),
        'trusted_base': ctx.trusted_base,
        'compile_status': dict(status_hist),
        'accepted_by_checker': n_accept,
        'query_kinds': dict(kind_hist),
        'determinism': {'compared': n_det_checked, 'differing': n_det_diff, 'classes': dict(det_classes),
                        'descriptors_compared': n_desc_checked, 'hashseeds': list(seeds)},
        'column_refs_decided_by_known_column_list': known_refs,
        'column_refs_decided_by_catalog_table': unknown_refs,
        'tree_node_histogram': {k: v for k, v in sorted(stats.items()) if not k.startswith('literal-expr-text')},
        'literal_expr_texts': sorted(k[18:] for k in stats if k.startswith('literal-expr-text:'))[:20],
        'trees_with_2plus_range_functions_in_one_from_list': n_multi_func,
        'statements_with_2plus_type_rewrite_ctes': n_rw2,
        'candidate_probes': {
            'about': 'situations in the UNMODIFIED compiler that a code reading flagged as suspicious; observed by '
                     'wrapping the real functions; hits = times the situation was reached by a real compilation',
            'probes': ['collapse-query-dropped-clause (astutils.collapse_query collapses a query that has WHERE / '
                       'ORDER BY / LIMIT ...)', 'reverse-map-path-id-ambiguous (pathctx.reverse_map_path_id: several '
                       'entries of view_path_id_map apply and disagree)', 'ptrref-storage-info-stale-cache '
                       '(pg_types._get_ptrref_storage_info: cached answer != fresh computation)'],
            'hits': dict(probe_hits), 'samples': probe_samples,
            'second_process_compiles_in_reverse_order': True},
        'statements_with_dependent_type_rewrite_ctes': n_rw_dep,
        'mutants_on_real_trees': dict(mut_hist),
        'hand_cases': dict(hand_hist),
        'level1': {'alias_runs': len(alias_cases), 'argmap_cases': len(am_cases),
                   'disagreements_model_vs_impl': n_dis, 'pg_alias_subclass_runs': n_pg,
                   'pg_alias_collisions_of_witness_shape': pg_same_shape,
                   'pg_alias_witness': pg_witness},
        'rejected_samples': rejected_samples, 'internal_error_samples': ise_samples,
        'unmodelled_samples': unmodelled_samples,
        'workers': metas,
        'exhaustive': False,
    })
    ctx.assumptions += [
        'PostgreSQL\'s name-scoping rules are the ones stated in lean/EdbVerif/Model/PgAstSpec.lean (transcribed '
        'from the documentation and parse_*.c); no server is available to arbitrate',
        'catalog tables have unknown column sets: a reference alias.col to a table alias is checked for the alias '
        'only (counted under column_refs_decided_by_catalog_table)',
        'determinism is relative to one pickled schema shared by both processes ("the same schema")',
        'type correctness of the SQL and PostgreSQL\'s actual acceptance are out of reach',
    ]
    ctx.trusted_base += [
        'hand-written models EdbVerif/Model/PgAst.lean, PgAstSpec.lean (the specification), Argmap.lean',
        'harness/props/c13.py: the pgast exporter (mirrors edb/pgsql/codegen.py; cross-checked against codegen\'s '
        'param_index and a generic reachability audit), generators, oracles',
        'the front-end bridge (harness/bridge) that makes the real compiler runnable',
    ]
