"""C19 — configuration commands compose and persist (edb/server/config, edb/ir/statypes).

Proof: lean/EdbVerif/Props/C19.lean over Model/Config.lean, Model/Duration.lean,
Model/Memory.lean.

Tie: a hand-built real ``config.FlatSpec`` with one setting of every kind; random
operation sequences are applied with the REAL ``Operation.apply`` (dispatching
on the scope the way ``dbview.apply_config_ops`` does) and with the Lean model
(`Driver/C19.lean`); after every step the exception class and the dump of the
targeted storage map are compared, at the end of a sequence also ``to_json``,
``from_json(to_json(.))``, ``config.lookup`` and ``to_edgeql`` (text).  A second
stream compares ``statypes.Duration`` / ``ConfigMemory`` parsers and printers.

Oracle S (real code only): lookup precedence, a raised exception leaves the
held maps untouched, frame condition of a successful step, ADD/REM set
semantics, JSON round trip, ``Duration(to_iso8601(d)) == d``,
``ConfigMemory(str(m)) == m``, and: a state the operations accepted can be
serialised (to_json / from_json / to_edgeql do not raise); purity: an Operation's
value is not changed by being coerced / applied, the same Operation applied twice
to the same storage gives the same result, and the call sequence dbview uses for
each scope (coerce_value -> apply -> persistence) gives the same storage as a
plain apply; exclusivity across the declared type hierarchy.  A separate stream
drives NESTED object fields (not in the Lean model) through the real code with
all of these oracles.  ANY exception from
``Operation.apply`` counts as a rejection (the property does not prescribe the
class); classes are recorded in the evidence and compared with the model's.

EdgeQL text cannot be re-parsed in this sandbox (no parser): the printed
statements are compared with the model's text, not replayed.
"""
from __future__ import annotations

import json
import os
import sys
from concurrent.futures import ThreadPoolExecutor

from lib import core

PROPS = 'EdbVerif/Props/C19.lean'
REQUIRED = [
    'EdbVerif.C19.C19_lookup', 'EdbVerif.C19.C19_lookup_first', 'EdbVerif.C19.C19_lookup_default',
    'EdbVerif.C19.C19_seq_fold', 'EdbVerif.C19.C19_seq_set', 'EdbVerif.C19.C19_seq_set_repeat',
    'EdbVerif.C19.C19_seq_reset',
    'EdbVerif.C19.C19_seq_add', 'EdbVerif.C19.C19_seq_set_objs', 'EdbVerif.C19.C19_seq_unique',
    'EdbVerif.C19.C19_unique_site', 'EdbVerif.C19.C19_seq_rem', 'EdbVerif.C19.C19_seq_frame',
    'EdbVerif.C19.C19_reject', 'EdbVerif.C19.C19_json', 'EdbVerif.C19.C19_json_invariant',
    'EdbVerif.C19.C19_json_reachable', 'EdbVerif.C19.duration_rt',
    'EdbVerif.C19.memory_rt', 'EdbVerif.C19.memory_rt_negative_counterexample',
    'EdbVerif.C19.C19_seq_rem_noop', 'EdbVerif.C19.memory_edgeql_rt', 'EdbVerif.C19.duration_needs_digit',
]

SAFE = 'abcXYZ019 _./:-'
SCOPES = ['SESSION', 'DATABASE', 'INSTANCE']


# --------------------------------------------------------------------- spec
class Env:
    """the real spec + what the model needs to know about it"""

    def __init__(self):
        import shim  # noqa: F401  (stubs for native modules; must come first)
        import immutables
        from edb import errors
        from edb.edgeql import qltypes
        from edb.ir import statypes
        from edb.server import config
        from edb.server.config import ops, spec, types

        self.immutables, self.errors, self.qltypes = immutables, errors, qltypes
        self.statypes, self.config, self.ops, self.types = statypes, config, ops, types
        F = statypes.CompositeTypeSpecField

        def mk(*fields):
            return immutables.Map({f.name: f for f in fields})

        ED = statypes.EnabledDisabledType
        self.Port = types.ConfigTypeSpec(name='Port', fields=mk(
            F('database', str, unique=True),
            F('port', int),
            F('address', frozenset[str], default=frozenset({'localhost'}), unique=True),
            F('timeout', statypes.Duration, default=None),
        ))
        self.Auth = types.ConfigTypeSpec(name='Auth', fields=mk(
            F('name', str, unique=True),
            F('prio', int, unique=True, default=None),
            F('quota', statypes.ConfigMemory, default=None),
            F('tags', frozenset[int], default=frozenset()),
            F('flag', bool, default=False),
        ))
        # a hierarchy like cfg::TestInstanceConfig / subtypes: `name` is exclusive on the parent and
        # inherited; `token` is exclusive on one subtype (and inherited by the grandchild) only
        def sub(name, parent, *own):
            t = types.ConfigTypeSpec(name=name, parent=parent,
                                     fields=mk(*[f for f in parent.fields.values()], *own))
            parent.children.append(t)
            return t
        self.Prov = types.ConfigTypeSpec(name='Prov', fields=mk(
            F('name', str, unique=True),
            F('note', str, default=None),
        ))
        self.Smtp = sub('Smtp', self.Prov, F('host', str, default=None), F('token', str, unique=True, default=None))
        self.Web = sub('Web', self.Prov, F('url', str, default=None))
        self.Smtps = sub('Smtps', self.Smtp, F('port', int, default=None))
        # nested object fields (NOT in the Lean model: driven through the real code only):
        # NAuth.method : Method with subtypes Trust (no own field), Scram (optional own field),
        # Jwt (required own field + a nested Signer with subtypes Hs / Rs(required own field))
        self.Signer = types.ConfigTypeSpec(name='Signer', fields=mk(F('alg', str, default='x')))
        self.Hs = sub('Hs', self.Signer)
        self.Rs = sub('Rs', self.Signer, F('bits', int))
        self.Method = types.ConfigTypeSpec(name='Method', fields=mk(F('label', str, default=None)))
        self.Trust = sub('Trust', self.Method)
        self.Scram = sub('Scram', self.Method, F('iters', int, default=None))
        self.Jwt = sub('Jwt', self.Method, F('key', str), F('aud', frozenset[str], default=frozenset()),
                       F('signer', self.Signer, default=None))
        self.NAuth = types.ConfigTypeSpec(name='NAuth', fields=mk(
            F('priority', int, unique=True),
            F('user', str, default=None),
            F('method', self.Method, default=None),
        ))
        S = spec.Setting
        self.nspec = spec.FlatSpec(
            S('nauths', type=self.NAuth, set_of=True, default=frozenset()),
            S('nflag', type=bool, default=False),
        )
        self.spec = spec.FlatSpec(
            S('b', type=bool, default=True),
            S('i', type=int, default=0),
            S('s', type=str, default='hello'),
            S('en', type=ED, default=ED('Enabled')),
            S('d', type=statypes.Duration, default=statypes.Duration('10s')),
            S('dn', type=statypes.Duration, default=None, required=False),
            S('mem', type=statypes.ConfigMemory, default=statypes.ConfigMemory('1KiB')),
            S('ints', type=int, set_of=True, default=frozenset()),
            S('durs', type=statypes.Duration, set_of=True, default=frozenset()),
            S('strs', type=str, set_of=True, default=frozenset()),
            S('obj', type=self.Port, default=None, required=False),
            S('objs', type=self.Port, set_of=True, default=frozenset()),
            S('auths', type=self.Auth, set_of=True, default=frozenset()),
            S('provs', type=self.Prov, set_of=True, default=frozenset()),
        )
        self.names = list(self.spec)

    def view(self, spec):
        """the same environment over another spec (used for the nested-object stream)"""
        import copy
        v = copy.copy(self)
        v.spec = spec
        v.names = list(spec)
        return v

    # ---- encodings shared with Driver/C19.lean
    def sty(self, t):
        st = self.statypes
        if t is bool:
            return 'bool'
        if t is int:
            return 'int'
        if t is str:
            return 'str'
        if t is st.Duration:
            return 'dur'
        if t is st.ConfigMemory:
            return 'mem'
        if isinstance(t, type) and issubclass(t, st.EnumScalarType):
            return {'enum': [str(x) for x in t.type], 'ql': str(t.get_edgeql_type())}
        raise core.Infra(f'unsupported scalar type {t!r}')

    def fty(self, t):
        from edb.common import typing_inspect
        if typing_inspect.is_generic_type(t):
            assert typing_inspect.get_origin(t) is frozenset
            return {'set': self.sty(typing_inspect.get_args(t, evaluate=True)[0])}
        return {'sc': self.sty(t)}

    def enc_scalar(self, v):
        st = self.statypes
        if v is None or isinstance(v, (bool, int, str)):
            return v
        if isinstance(v, st.Duration):
            return {'d': v.to_microseconds()}
        if isinstance(v, st.ConfigMemory):
            return {'m': v.to_nbytes()}
        if isinstance(v, st.EnumScalarType):
            return {'e': v.to_str()}
        raise ValueError(f'cannot encode {v!r}')

    def enc_fval(self, v):
        if isinstance(v, self.types.CompositeConfigType):      # nested object (real-only stream)
            return self.enc_obj(v)
        if isinstance(v, frozenset):
            return {'set': [self.enc_scalar(x) for x in v]}
        return self.enc_scalar(v)

    def enc_obj(self, o):
        return {'obj': o._tspec.name,
                'f': [[n, self.enc_fval(getattr(o, n))] for n in o._tspec.fields]}

    def enc_val(self, v):
        if isinstance(v, frozenset):
            if any(isinstance(x, self.types.CompositeConfigType) for x in v):
                return {'objs': [self.enc_obj(x) for x in v]}
            return {'set': [self.enc_scalar(x) for x in v]}
        if isinstance(v, self.types.CompositeConfigType):
            return self.enc_obj(v)
        return self.enc_scalar(v)

    def enc_val_for(self, name, v):
        """like enc_val, with an empty frozenset tagged by the setting's type"""
        e = self.enc_val(v)
        if isinstance(v, frozenset) and not v and name in self.spec and \
                isinstance(self.spec[name].type, self.types.ConfigTypeSpec):
            return {'objs': []}
        return e

    def enc_map(self, m):
        return [[k, {'n': sv.name, 'v': self.enc_val_for(k, sv.value), 'src': sv.source,
                     'sc': str(sv.scope)}] for k, sv in m.items()]

    def spec_json(self):
        def tbase(t):
            fs = []
            for n, f in t.fields.items():       # the REAL iteration order of the fields map
                d = {'name': n, 'ty': self.fty(f.type), 'unique': f.unique}
                if f.default is not self.statypes.MISSING:
                    d['default'] = self.enc_fval(f.default)
                fs.append(d)
            return {'name': t.name, 'fields': fs}

        def tspec(t):
            d = tbase(t)
            d['ancestors'] = []
            p = t.parent
            while p is not None:
                d['ancestors'].append(tbase(p))
                p = p.parent
            return d
        out = []
        for n in self.spec:
            s = self.spec[n]
            ty = {'obj': tspec(s.type)} if isinstance(s.type, self.types.ConfigTypeSpec) \
                else {'sc': self.sty(s.type)}
            out.append({'name': n, 'ty': ty, 'setOf': s.set_of,
                        'default': self.enc_val_for(n, s.default)})
        return {'settings': out, 'types': [tspec(t) for t in self.spec._types_by_name.values()]}


def enc_jv(v):
    if v is None or isinstance(v, (bool, int, str)):
        return v
    if isinstance(v, list):
        return {'l': [enc_jv(x) for x in v]}
    if isinstance(v, dict):
        return {'o': [[k, enc_jv(x)] for k, x in v.items()]}
    raise ValueError(v)


def dec_jv(j):
    if isinstance(j, dict):
        if 'l' in j:
            return [dec_jv(x) for x in j['l']]
        return {k: dec_jv(x) for k, x in j['o']}
    return j


def skey(x):
    return json.dumps(x, sort_keys=True)


def canon_val(e):
    """canonical form of an encoded stored value: sets sorted"""
    if isinstance(e, dict):
        if 'set' in e:
            return {'set': sorted(e['set'], key=skey)}
        if 'objs' in e:
            return {'objs': sorted((canon_val(o) for o in e['objs']), key=skey)}
        if 'obj' in e:
            return {'obj': e['obj'], 'f': [[k, canon_val(v)] for k, v in e['f']]}
    return e


def canon_map(m):
    return sorted(([k, {**sv, 'v': canon_val(sv['v'])}] for k, sv in m), key=skey)


def canon_json(x):
    """canonical form of a to_json tree: every list in it comes from a set"""
    if isinstance(x, dict):
        return {k: canon_json(v) for k, v in x.items()}
    if isinstance(x, list):
        return sorted((canon_json(v) for v in x), key=skey)
    return x


# --------------------------------------------------------------- generators
def safe_str(rng, lo=0, hi=6):
    return ''.join(rng.choice(SAFE) for _ in range(rng.randint(lo, hi)))


DUR_UNITS = ['h', 'hr', 'hrs', 'hour', 'hours', 'm', 'min', 'mins', 'minute', 'minutes',
             'ms', 'millisecon', 'millisecons', 'millisecond', 'milliseconds',
             'us', 'microsecond', 'microseconds', 's', 'sec', 'secs', 'second', 'seconds',
             'd', 'day', 'x', 'mss', 'H', 'Min', 'MS', 'Seconds', '']
WS = [' ', '', '  ', '\t', '\n', '\r', '\x0b', '\x0c', '\x1f', ' \n']


def gen_dur_text(rng):
    """duration texts: all accepted surface forms, near misses and noise (ASCII)"""
    k = rng.random()
    sign = rng.choice(['', '', '-', '+'])
    num = lambda hi=99: str(rng.choice([0, 1, 5, 59, 60, rng.randint(0, hi), rng.randint(0, 10 ** rng.randint(1, 11))]))
    if k < 0.12:       # int()
        body = num()
        if rng.random() < 0.2:
            body = body[:1] + rng.choice(['_', '__', '']) + body[1:] + rng.choice(['', '_'])
        return rng.choice(WS) + sign + body + rng.choice(WS)
    if k < 0.34:       # H:MM:SS.ffffff
        t = sign + num(rng.choice([30, 2147483647, 2147483648]))
        t += ':'
        if rng.random() < 0.85:
            t += rng.choice([num(70), num(70).rjust(2, '0'), ''])
            if rng.random() < 0.7:
                t += ':' + rng.choice([num(70), num(70).rjust(2, '0'), ''])
                if rng.random() < 0.6:
                    t += '.' + ''.join(rng.choice('0123456789') for _ in range(rng.randint(0, 9)))
        if rng.random() < 0.08:
            t += rng.choice([':', 'x', '.', ' 5'])
        return rng.choice(WS) + t + rng.choice(WS)
    if k < 0.58:       # ISO
        t = 'PT'
        if rng.random() < 0.5:
            t += rng.choice(['', '-', '+']) + num() + 'H'
        if rng.random() < 0.5:
            t += rng.choice(['', '-', '+']) + num() + 'M'
        if rng.random() < 0.6:
            t += rng.choice(['', '-', '+']) + num()
            if rng.random() < 0.5:
                t += '.' + ''.join(rng.choice('0123456789') for _ in range(rng.randint(0, 8)))
            t += 'S'
        r = rng.random()
        if r < 0.06:
            t += '\n'
        elif r < 0.1:
            t = t.lower()
        elif r < 0.14:
            t = t.replace('T', '', 1)
        elif r < 0.2:
            parts = list(t)
            rng.shuffle(parts)
            t = 'PT' + ''.join(parts).replace('P', '').replace('T', '')
        elif r < 0.23:
            t = ' ' + t
        return t
    if k < 0.92:       # verbose
        parts = []
        for _ in range(rng.randint(1, 4)):
            parts.append(rng.choice(WS) + rng.choice(['', '', '-', '+']) + num() + rng.choice(WS) +
                         rng.choice(DUR_UNITS) + rng.choice(['', '', ' ', ' ', '  ', '.', ',']))
        t = ''.join(parts)
        if rng.random() < 0.1:
            t += rng.choice(['5', ' 5', ' x', '-'])
        return t
    return ''.join(rng.choice('0159 :.-+PTHMShmsu\n_x') for _ in range(rng.randint(0, 8)))


def gen_mem_text(rng):
    n = str(rng.choice([0, 1, 1023, 1024, 5, rng.randint(0, 10 ** rng.randint(1, 19))]))
    u = rng.choice(['B', 'KiB', 'MiB', 'GiB', 'TiB', 'PiB', 'kB', 'KB', 'kib', '', ' B', 'EiB', 'BB'])
    r = rng.random()
    if r < 0.7:
        return n + u
    if r < 0.8:
        return n + u + rng.choice(['\n', ' ', '\n\n'])
    if r < 0.9:
        return rng.choice([' ', '-', '+', '0']) + n + u
    return rng.choice(['0', '00', '', 'B', '0 ', '1.5MiB', '1_0B'])


DBS = ['a', 'b', 'c']


def gen_port(rng, full=True):
    d = {}
    if full or rng.random() < 0.8:
        d['database'] = rng.choice(DBS)
    if full or rng.random() < 0.5:
        d['port'] = rng.choice([1, 2, 5432, True])
    r = rng.random()
    if r < 0.25:
        d['address'] = rng.choice([['x'], ['x', 'y'], ['y', 'x'], [], 'x', ['x', 'x'], None,
                                   {'x': 1}, ['localhost']])
    if rng.random() < 0.25:
        d['timeout'] = rng.choice(['PT5S', 'PT-0.5S', 'PT1H2M', None, 'PT0S', 'PT1.000001S'])
    # near misses / invalid
    r = rng.random()
    if r < 0.03:
        d['zzz'] = rng.choice([None, 1])
    elif r < 0.06:
        d['port'] = rng.choice(['80', None, [1]])
    elif r < 0.09:
        d['timeout'] = rng.choice(['5s', 'PT', 'bad', 5, '1:00'])
    elif r < 0.12:
        d['address'] = rng.choice([['x', 1], 5, [None]])
    elif r < 0.15:
        d['_tname'] = rng.choice(['Port', 'Port', None, 'Auth', 'Nope'])
    elif r < 0.17:
        d.pop('database', None)
    elif r < 0.19:
        d['database'] = rng.choice([None, 5])
    if rng.random() < 0.3:
        items = list(d.items())
        rng.shuffle(items)
        d = dict(items)
    return d


def gen_auth(rng, full=True):
    d = {}
    if full or rng.random() < 0.8:
        d['name'] = rng.choice(DBS)
    r = rng.random()
    if r < 0.4:
        d['prio'] = rng.choice([1, 2, 1, True, None])
    if rng.random() < 0.3:
        d['quota'] = rng.choice(['5MiB', 0, 1024, '0', '5 MiB', -1, None, [1]])
    if rng.random() < 0.3:
        d['tags'] = rng.choice([[1, 2], [2, 1, 1], 7, [True, 1], [], ['x'], None])
    if rng.random() < 0.2:
        d['flag'] = rng.choice([True, False, 1, None])
    if rng.random() < 0.04:
        d['_tname'] = rng.choice(['Auth', 'Port', 'Nope'])
    return d


TOKENS = ['t1', 't2']


def gen_prov(rng, full=True):
    tn = rng.choice(['Prov', 'Smtp', 'Web', 'Smtps', 'Smtp', 'Web'])
    d = {'_tname': tn} if (tn != 'Prov' or rng.random() < 0.5) else {}
    if full or rng.random() < 0.8:
        d['name'] = rng.choice(DBS)
    if rng.random() < 0.3:
        d['note'] = rng.choice(['n', None, 'm'])
    if tn in ('Smtp', 'Smtps'):
        if rng.random() < 0.5:
            d['token'] = rng.choice(TOKENS + [None])
        if rng.random() < 0.3:
            d['host'] = rng.choice(['h1', 'h2'])
    if tn == 'Smtps' and rng.random() < 0.4:
        d['port'] = rng.choice([25, 465, '25'])
    if tn == 'Web' and rng.random() < 0.4:
        d['url'] = rng.choice(['u1', 5])
    r = rng.random()
    if r < 0.04:
        d['token'] = 't1'           # unknown field unless the type is Smtp/Smtps
    elif r < 0.06:
        d['_tname'] = rng.choice(['Port', 'Nope'])
    if rng.random() < 0.3:
        items = list(d.items())
        rng.shuffle(items)
        d = dict(items)
    return d


def gen_method(rng):
    r = rng.random()
    if r < 0.1:
        return None
    tn = rng.choice(['Trust', 'Scram', 'Jwt', 'Jwt', None])
    d = {} if tn is None else {'_tname': tn}
    if rng.random() < 0.2:
        d['label'] = rng.choice(['l1', None])
    if tn == 'Scram' and rng.random() < 0.6:
        d['iters'] = rng.choice([4096, 1, '4096'])
    if tn == 'Jwt':
        if rng.random() < 0.9:
            d['key'] = rng.choice(['k1', 'k2'])
        if rng.random() < 0.3:
            d['aud'] = rng.choice([['a'], ['a', 'b'], 'c', []])
        r2 = rng.random()
        if r2 < 0.6:
            sg = rng.choice([{'_tname': 'Hs'}, {'_tname': 'Rs', 'bits': 2048}, {'_tname': 'Rs', 'bits': 4096},
                             {}, {'_tname': 'Rs'}, {'alg': 'y'}, {'_tname': 'Hs', 'bits': 1}, None,
                             {'_tname': 'Nope'}, {'_tname': 'Trust'}, 5])
            d['signer'] = json.loads(json.dumps(sg))
    r = rng.random()
    if r < 0.04:
        d['iters'] = 5          # unknown unless Scram
    elif r < 0.06:
        d['_tname'] = rng.choice(['Nope', 'Port', 'Rs'])
    return d


def gen_nauth(rng, full=True):
    d = {'priority': rng.choice([1, 2, 3])} if (full or rng.random() < 0.8) else {}
    if rng.random() < 0.3:
        d['user'] = rng.choice(['u', 'v', None])
    if full or rng.random() < 0.5:
        d['method'] = gen_method(rng)
    if rng.random() < 0.03:
        d['method'] = rng.choice([5, 'Trust', []])
    return d


def gen_nested_sequence(rng, maxlen=12):
    ops = []
    for _ in range(rng.randint(1, maxlen)):
        scope = rng.choice(SCOPES)
        r = rng.random()
        if r < 0.55:
            ops.append(['ADD', scope, 'nauths', gen_nauth(rng)])
        elif r < 0.7:
            ops.append(['SET', scope, 'nauths', [gen_nauth(rng) for _ in range(rng.randint(0, 3))]])
        elif r < 0.85:
            ops.append(['REM', scope, 'nauths', gen_nauth(rng, full=False)])
        elif r < 0.93:
            ops.append(['RESET', scope, 'nauths', None])
        else:
            ops.append(['SET', scope, 'nflag', rng.choice([True, False, 1])])
    return ops


NESTED_CORPUS = [
    # a filtered RESET at a scope without an entry stores an empty set there and masks the instance value
    [['ADD', 'INSTANCE', 'objs', {'database': 'a', 'port': 1}], ['REM', 'SESSION', 'objs', {'database': 'zzz'}],
     ['REM', 'DATABASE', 'objs', None]],
    # True for an int64 setting; a set of durations (not JSON serialisable)
    [['SET', 'SESSION', 'i', True], ['SET', 'DATABASE', 'ints', [True, 2]], ['SET', 'INSTANCE', 'durs', ['1s', 'PT2S']]],
    # the nested object is given as a SUBTYPE of the declared field type, with and without own fields
    [['ADD', 'INSTANCE', 'nauths', {'priority': 1, 'method': {'_tname': 'Trust'}}],
     ['ADD', 'INSTANCE', 'nauths', {'priority': 2, 'method': {'_tname': 'Scram', 'iters': 4096}}],
     ['ADD', 'INSTANCE', 'nauths', {'priority': 3, 'method': {'_tname': 'Jwt', 'key': 'k1',
                                                            'signer': {'_tname': 'Rs', 'bits': 2048}}}],
     ['REM', 'INSTANCE', 'nauths', {'priority': 2}]],
    [['SET', 'SESSION', 'nauths', [{'priority': 1, 'method': {'_tname': 'Jwt', 'key': 'k', 'signer': {'_tname': 'Hs'}}},
                                   {'priority': 2, 'method': {}}]],
     ['ADD', 'DATABASE', 'nauths', {'priority': 1, 'method': {'_tname': 'Jwt', 'key': 'k', 'signer': {}}}]],
]


def gen_value(rng, env, name, code):
    """a value for an op on setting `name`: valid / boundary / invalid mix"""
    inval = rng.random() < 0.15
    if code == 'RESET':
        return None if rng.random() < 0.8 else rng.choice([5, 'x', [], {'zz': 1}, {}])
    if name == 'b':
        return rng.choice([0, 1, 'true', None, [True]]) if inval else rng.choice([True, False])
    if name == 'i':
        if inval:
            return rng.choice(['5', None, [1], {}])
        return rng.choice([0, 1, -1, 7, 42, 2 ** 31, -2 ** 31, 2 ** 63 - 1, -2 ** 63, 2 ** 63,
                           -2 ** 63 - 1, True, False, rng.randint(-10 ** 6, 10 ** 6)])
    if name == 's':
        return rng.choice([5, None, ['a'], True]) if inval else safe_str(rng)
    if name == 'en':
        return rng.choice(['enabled', '', 5, None, 'Enabled ', True]) if inval else \
            rng.choice(['Enabled', 'Disabled'])
    if name in ('d', 'dn'):
        if inval:
            return rng.choice([5, None, ['5'], True, 0])
        return gen_dur_text(rng)
    if name == 'mem':
        if inval:
            return rng.choice([None, ['5B'], {}])
        r = rng.random()
        if r < 0.5:
            return gen_mem_text(rng)
        return rng.choice([0, 1, 1024, 1025, 2 ** 40, 5 * 2 ** 50, -1, -1024,
                           rng.randint(0, 2 ** 64)])
    if name == 'ints':
        if inval:
            return rng.choice([5, None, [1, 'x'], 'ab', {'a': 1}, [None]])
        if rng.random() < 0.01:
            return list(range(rng.choice([128, 129])))
        return [rng.choice([0, 1, 2, 3, True, False, -5, 2 ** 70]) for _ in range(rng.randint(0, 5))]
    if name == 'durs':
        if inval:
            return rng.choice([5, None, 'PT1S', [5], ['bad']])
        return [rng.choice(['1s', 'PT2S', '1:00', '2 s', '-1s']) for _ in range(rng.randint(0, 3))]
    if name == 'strs':
        if inval:
            return rng.choice([5, None, ['a', 1], 'ab', [None]])
        if rng.random() < 0.02:
            return {safe_str(rng, 1, 3): 1 for _ in range(rng.randint(0, 3))}
        return [rng.choice(['a', 'b', '', 'a b', safe_str(rng)]) for _ in range(rng.randint(0, 4))]
    mk = gen_auth if name == 'auths' else gen_prov if name == 'provs' else gen_port
    if code == 'SET':
        if inval:
            return rng.choice([5, None, 'ab', '', {}, {'a': 1}, [5], True])
        n = rng.choice([0, 1, 1, 2, 3]) if name != 'obj' else rng.choice([0, 1, 1, 1, 2])
        return [mk(rng) for _ in range(n)]
    if inval:
        return rng.choice([5, 'x', [], [mk(rng)], True])
    if code == 'REM' and rng.random() < 0.5:
        return None if rng.random() < 0.1 else mk(rng, full=False)
    return mk(rng)


def gen_sequence(rng, env, maxlen=25):
    ops = []
    n = rng.randint(1, maxlen)
    focus = rng.sample(env.names, rng.randint(1, 4))
    for _ in range(n):
        name = rng.choice(focus) if rng.random() < 0.8 else rng.choice(env.names)
        if rng.random() < 0.02:
            name = rng.choice(['nope', '', 'B'])
        is_obj = name in ('obj', 'objs', 'auths', 'provs')
        if is_obj:
            code = rng.choices(['SET', 'RESET', 'ADD', 'REM'], [2, 1, 5, 3])[0]
        else:
            code = rng.choices(['SET', 'RESET', 'ADD', 'REM'], [12, 3, 1, 1])[0]
        scope = rng.choice(SCOPES)
        ops.append([code, scope, name, gen_value(rng, env, name, code)])
    return ops


def gen_exhaustive(env, depth):
    """all sequences of length ≤ depth over a reduced alphabet: per setting kind
    one valid SET, one invalid SET, RESET, and for objects ADD a / ADD b / REM a;
    session and instance scope"""
    alpha = []
    for sc in ('SESSION', 'INSTANCE'):
        alpha += [['SET', sc, 'i', 7], ['SET', sc, 'i', 'x'], ['RESET', sc, 'i', None],
                  ['SET', sc, 'd', '1:30'], ['SET', sc, 'mem', '2KiB'],
                  ['SET', sc, 'ints', [1, True, 2]], ['RESET', sc, 'ints', None],
                  ['ADD', sc, 'objs', {'database': 'a', 'port': 1}],
                  ['ADD', sc, 'objs', {'database': 'b', 'port': 1, 'address': ['x']}],
                  ['REM', sc, 'objs', {'database': 'a'}],
                  ['SET', sc, 'objs', [{'database': 'a', 'port': 2}, {'database': 'a', 'port': 3}]],
                  ['RESET', sc, 'objs', None],
                  ['ADD', sc, 'provs', {'_tname': 'Smtp', 'name': 'a', 'token': 't1'}],
                  ['ADD', sc, 'provs', {'_tname': 'Web', 'name': 'a'}],
                  ['ADD', sc, 'provs', {'_tname': 'Smtps', 'name': 'b', 'token': 't1'}]]
    import itertools
    for d in range(1, depth + 1):
        for seq in itertools.product(alpha, repeat=d):
            yield [list(o) for o in seq]


# ------------------------------------------------------------- real runners
def exc_name(e):
    return type(e).__name__


class Real:
    def __init__(self, env: Env):
        self.env = env

    def apply(self, op, m):
        env = self.env
        code, scope, name, value = op
        o = env.ops.Operation(env.ops.OpCode(code), env.qltypes.ConfigScope(scope), name, value)
        return o.apply(env.spec, m)

    def look(self, name, *maps, **kw):
        env = self.env
        try:
            v = env.config.lookup(name, *maps, spec=env.spec, **kw)
        except Exception as e:     # noqa: BLE001 – every exception is an observation
            return {'err': exc_name(e)}
        if v is None and name not in env.spec:
            return {'none': True}
        return {'ok': canon_val(env.enc_val_for(name, v))}


def rejection_kind(op, e, env):
    """observation label for an exception of `Operation.apply` that is not an
    EdgeDBError (any exception is a valid rejection; this is only recorded)"""
    name = op[2]
    cause = ''
    if isinstance(e, KeyError):
        vals = op[3] if isinstance(op[3], list) else [op[3]]
        known = set(env.spec._types_by_name)
        if any(isinstance(v, dict) and isinstance(v.get('_tname'), str) and v['_tname'] not in known
               for v in vals):
            cause = ':unknown-_tname'
    return f'{op[0]}:{_kind(name)}:{exc_name(e)}{cause}'


class _NestedCtx:
    """ctx proxy of the nested-object stream: marks failure details so that --replay
    re-runs them in that stream (the Lean model has no nested objects)"""

    def __init__(self, ctx):
        self._ctx = ctx

    def fail(self, key, what, detail, **kw):
        if isinstance(detail, dict):
            detail = {**detail, 'nested': True}
        self._ctx.fail(key, what, detail, **kw)

    def __getattr__(self, n):
        return getattr(self._ctx, n)


def run_sequence(env, real, ops, ctx, stats, tag):
    """run one op sequence through the real code; evaluate oracle S; return the
    observations to compare with the model."""
    if tag == 'nested':
        ctx = _NestedCtx(ctx)
    E = env.errors.EdgeDBError
    maps = {s: env.immutables.Map() for s in SCOPES}
    steps = []
    dumps = {s: [] for s in SCOPES}         # canonical dump of each layer, kept up to date
    for idx, op in enumerate(ops):
        code, scope, name, value = op
        before = maps[scope]
        before_dump = dumps[scope]
        all_before = dict(dumps)
        value_in = json.loads(json.dumps(value))        # private copy: apply may mutate nested dicts
        op_obj = env.ops.Operation(env.ops.OpCode(code), env.qltypes.ConfigScope(scope), name, value_in)
        try:
            after = op_obj.apply(env.spec, before)
            res = 'ok'
        except Exception as e:     # noqa: BLE001
            res = exc_name(e)
            after = before
            stats['err'][res] = stats['err'].get(res, 0) + 1
            if not isinstance(e, E):
                # any exception class is a rejection; the class is an observation only
                k = rejection_kind(op, e, env)
                stats['non_edgedb'][k] = stats['non_edgedb'].get(k, 0) + 1
            # S: REM of a value the coercion accepts never fails (absence is not an error)
            if code == 'REM' and name in env.spec and env.spec[name].set_of and \
                    isinstance(env.spec[name].type, env.types.ConfigTypeSpec):
                try:
                    o = env.ops.Operation(env.ops.OpCode(code), env.qltypes.ConfigScope(scope), name,
                                          json.loads(json.dumps(value)))
                    o.coerce_value(env.spec, env.spec[name], allow_missing=True)
                    ctx.fail(f'oracle:rem-raises:{name}', f'REM of an acceptable value raised {res}',
                             {'ops': ops[:idx + 1]})
                except Exception:     # noqa: BLE001 – the value itself is rejected: fine
                    pass
            # S (hard): a rejection leaves all three layers exactly as they were
            if maps[scope] is not before or \
                    {s_: canon_map(env.enc_map(maps[s_])) for s_ in SCOPES} != all_before:
                ctx.fail(f'oracle:reject-mutated:{name}', 'a rejected operation changed the storage',
                         {'ops': ops[:idx + 1]})
        else:
            stats['ok'][code] = stats['ok'].get(code, 0) + 1
            ad = canon_map(env.enc_map(after))
            # S: frame condition – nothing but the op's key changes
            if [e for e in ad if e[0] != name] != [e for e in before_dump if e[0] != name]:
                ctx.fail(f'oracle:frame:{code}:{name}', 'an operation changed another setting',
                         {'ops': ops[:idx + 1]})
            if code == 'RESET':
                if name in after:
                    ctx.fail(f'oracle:reset:{name}', 'RESET left an entry in the storage',
                             {'ops': ops[:idx + 1]})
                elif real.look(name, after) != {'ok': canon_val(env.enc_val_for(name, env.spec[name].default))}:
                    ctx.fail(f'oracle:reset-default:{name}', 'lookup after RESET is not the default',
                             {'ops': ops[:idx + 1]})
            else:
                sv = after.get(name)
                if sv is None and code == 'REM' and name not in before:
                    pass        # nothing stored for a REM at a scope without an entry: fine
                elif sv is None or str(sv.scope) != scope or sv.name != name:
                    ctx.fail(f'oracle:set-entry:{code}:{name}', 'stored entry has the wrong name/scope',
                             {'ops': ops[:idx + 1]})
            if code in ('ADD', 'REM') and name in after:
                old = before[name].value if name in before else env.spec[name].default
                new = after[name].value
                if code == 'ADD':
                    if not (isinstance(new, frozenset) and old <= new and len(new) == len(old) + 1):
                        ctx.fail(f'oracle:add:{name}', 'ADD is not the insertion of one new element',
                                 {'ops': ops[:idx + 1]})
                else:
                    if not (isinstance(new, frozenset) and new <= old and len(old) - len(new) <= 1):
                        ctx.fail(f'oracle:rem:{name}', 'REM is not the removal of at most one element',
                                 {'ops': ops[:idx + 1]})
                    elif isinstance(old, frozenset) and len(new) == len(old):
                        # S (composition): a filtered RESET that removed nothing must not change the
                        # effective value of the setting (most specific layer first)
                        layers_before = [maps[s_] for s_ in SCOPES]
                        layers_after = [after if s_ == scope else maps[s_] for s_ in SCOPES]
                        eb = real.look(name, *layers_before)
                        ea = real.look(name, *layers_after)
                        if eb != ea:
                            ctx.fail(f'oracle:rem-noop-changes-effective:{_kind(name)}',
                                     'a filtered RESET (REM) that removed nothing changed the effective value: it '
                                     'stored an empty set at its scope, which masks the value of a less specific scope',
                                     {'ops': ops[:idx + 1], 'effective_before': eb, 'effective_after': ea})
            # S: exclusivity across the declared type hierarchy, after every accepted ADD / SET on objects
            if code in ('ADD', 'SET') and name in after and isinstance(after[name].value, frozenset):
                for fname, ta, tb_, v in exclusive_clashes(after[name].value, env.types.CompositeConfigType):
                    ctx.fail(f'oracle:exclusive:{name}.{fname}',
                             f'two stored objects ({ta}, {tb_}) agree on the exclusive field {fname!r} = {v!r}',
                             {'ops': ops[:idx + 1]})
            maps[scope] = after
        # S: purity – the Operation is not changed by being applied, applying it again to the same
        # storage gives the same result, and the call sequence dbview uses for this scope
        # (coerce_value, then apply, then persistence) gives the same storage as a plain apply
        purity_oracles(env, ctx, op_obj, value, before, res, after if res == 'ok' else None,
                       ops[:idx + 1], stats)
        # S: a bool given for an int-typed FIELD of an object must not be accepted (open finding:
        # from_pyvalue still uses isinstance(value, int))
        if res == 'ok' and code in ('SET', 'ADD') and name in env.spec and \
                isinstance(env.spec[name].type, env.types.ConfigTypeSpec):
            hit = bool_in_int_field(env, env.spec[name].type, value)
            if hit:
                ctx.fail('accepts-invalid:bool-for-int-field',
                         f'from_pyvalue accepted a bool for the int field {hit!r} of an object',
                         {'ops': ops[:idx + 1]})
        # S: independent validity of SET values for the plain kinds
        if code == 'SET' and name in PLAIN:
            valid = plain_valid(name, value)
            if res == 'ok' and not valid and plain_valid(name, value, bool_is_int=True):
                ctx.fail('accepts-invalid:bool-for-int',
                         'SET accepted a bool for an int64 setting (isinstance(True, int)); the statement '
                         'to_edgeql prints for it (`:= true`) is rejected by the compiler',
                         {'ops': ops[:idx + 1]})
            elif valid != (res == 'ok'):
                ctx.fail(f'oracle:validity:{name}:{"accepted" if res == "ok" else "rejected"}',
                         'SET accepted a value outside the setting\'s type' if res == 'ok' else
                         'SET rejected a value of the setting\'s type', {'ops': ops[:idx + 1]})
        dumps[scope] = canon_map(env.enc_map(maps[scope]))
        steps.append([res, dumps[scope]])

    # end of sequence: lookup, JSON, EdgeQL on each layer
    sess, db, inst = maps['SESSION'], maps['DATABASE'], maps['INSTANCE']
    look = []
    for n in env.names + ['nope']:
        got = [real.look(n, sess, db, inst), real.look(n, db, inst),
               real.look(n, inst, allow_unrecognized=True)]
        look.append(got)
        if n in env.spec:      # S: most specific layer that defines it, else the default
            exp = next((m[n].value for m in (sess, db, inst) if n in m), env.spec[n].default)
            if got[0] != {'ok': canon_val(env.enc_val_for(n, exp))}:
                ctx.fail(f'oracle:lookup:{n}', 'lookup is not the most specific defining layer',
                         {'ops': ops, 'got': got[0]})
    final = []
    for scope in SCOPES:
        m = maps[scope]
        f = {'map': canon_map(env.enc_map(m)), 'raw_map': env.enc_map(m)}
        try:
            js = env.ops.to_json(env.spec, m)
            f['tojson'] = {'ok': canon_json(json.loads(js))}
        except Exception as e:     # noqa: BLE001
            f['tojson'] = {'err': exc_name(e)}
            f['rt'] = {'err': exc_name(e)}
            for k, ex in _failing(env, m, lambda one: env.ops.to_json(env.spec, one)):
                ctx.fail(f'crash:to_json:{_kind(k)}:{exc_name(ex)}',
                         f'to_json raised {exc_name(ex)}: {ex}', {'ops': ops, 'scope': scope, 'setting': k})
        else:
            try:
                back = env.ops.from_json(env.spec, js)
                f['rt'] = {'ok': canon_map(env.enc_map(back))}
                if back != m:
                    for k in sorted(k for k in set(m) | set(back) if m.get(k) != back.get(k)):
                        ctx.fail(f'json-rt:differs:{_kind(k)}', 'from_json(to_json(m)) != m',
                                 {'ops': ops, 'scope': scope, 'json': js, 'setting': k})
            except Exception as e:     # noqa: BLE001
                f['rt'] = {'err': exc_name(e)}
                for k, ex in _failing(env, m, lambda one: env.ops.from_json(
                        env.spec, env.ops.to_json(env.spec, one))):
                    ctx.fail(f'json-rt:raises:{_kind(k)}:{exc_name(ex)}',
                             f'from_json(to_json(m)) raised {exc_name(ex)}: {ex}',
                             {'ops': ops, 'scope': scope, 'json': js, 'setting': k})
        try:
            f['edgeql'] = {'ok': env.ops.to_edgeql(env.spec, m, True)}
        except Exception as e:     # noqa: BLE001
            f['edgeql'] = {'err': exc_name(e)}
            for k, ex in _failing(env, m, lambda one: env.ops.to_edgeql(env.spec, one, True)):
                ctx.fail(f'crash:to_edgeql:{_kind(k)}:{exc_name(ex)}',
                         f'to_edgeql raised {exc_name(ex)}: {ex}', {'ops': ops, 'scope': scope, 'setting': k})
        final.append(f)
    return {'steps': steps, 'look': look, 'final': final}


def secret_probe(env, ctx):
    """candidate 7: `CompositeTypeSpec.__post_init__` tests isinstance(field, CompositeTypeSpec) on the FIELD
    object, so a secret inside a nested object type never makes the outer type `has_secret`.  Checked here:
    no secret VALUE reaches to_edgeql(with_secrets=False) or debug_serialize_config (hard oracle); what is
    observed instead is recorded."""
    st, types, spec_ = env.statypes, env.types, sys.modules['edb.server.config.spec']
    F = st.CompositeTypeSpecField
    mk = lambda *fs: env.immutables.Map({f.name: f for f in fs})        # noqa: E731
    Inner = types.ConfigTypeSpec(name='Inner', fields=mk(F('pw', str, secret=True), F('host', str, default=None)))
    Outer = types.ConfigTypeSpec(name='Outer', fields=mk(F('name', str, unique=True), F('inner', Inner, default=None)))
    sp = spec_.FlatSpec(spec_.Setting('outs', type=Outer, set_of=True, default=frozenset()))
    op = ['ADD', 'INSTANCE', 'outs', {'name': 'n', 'inner': {'pw': 'TOPSECRET-7', 'host': 'h'}}]
    m = env.ops.Operation(env.ops.OpCode('ADD'), env.qltypes.ConfigScope('INSTANCE'), 'outs',
                          json.loads(json.dumps(op[3]))).apply(sp, env.immutables.Map())
    out = {'Inner.has_secret': Inner.has_secret, 'Outer.has_secret': Outer.has_secret}
    texts = {}
    try:
        texts['to_edgeql(with_secrets=False)'] = env.ops.to_edgeql(sp, m, False)
    except Exception as e:     # noqa: BLE001
        texts['to_edgeql(with_secrets=False)'] = 'raises ' + exc_name(e)
    from edb.server.config import debug_serialize_config
    texts['debug_serialize_config'] = json.dumps(debug_serialize_config(m))
    for where, t in texts.items():
        if 'TOPSECRET-7' in t:
            ctx.fail(f'oracle:secret-leak:{where}', 'a secret value of a nested object appears in non-secret output',
                     {'probe_op': op, 'output': t})
    out['to_edgeql(with_secrets=False) prints the outer object without the required secret field'] = \
        'insert' in texts['to_edgeql(with_secrets=False)'] and 'pw' not in texts['to_edgeql(with_secrets=False)']
    return out


def upstream_text_lists():
    """the `valid` / `invalid` text lists of upstream's tests/test_edgeql_datatypes.py
    (test_edgeql_staeval_duration_01 / _memory_01; the tests themselves need a live server:
    only their offline half – statypes must parse `valid` and reject `invalid` – runs here)"""
    import ast
    path = os.path.join(core.REPO, 'tests', 'test_edgeql_datatypes.py')
    out = {}
    try:
        tree = ast.parse(open(path).read())
    except OSError:
        return out
    for node in ast.walk(tree):
        if isinstance(node, (ast.AsyncFunctionDef, ast.FunctionDef)) and \
                node.name in ('test_edgeql_staeval_duration_01', 'test_edgeql_staeval_memory_01'):
            kind = 'duration' if 'duration' in node.name else 'memory'
            for st in node.body:
                if isinstance(st, ast.Assign) and len(st.targets) == 1 and isinstance(st.targets[0], ast.Name) \
                        and st.targets[0].id in ('valid', 'invalid') and isinstance(st.value, ast.List):
                    try:
                        out[(kind, st.targets[0].id)] = [ast.literal_eval(e) for e in st.value.elts]
                    except ValueError:
                        pass
    return out


def regression_witnesses(env, ctx):
    """the inputs of the four repaired findings (fix commits in /repo) as hard checks"""
    E = env.immutables.Map()

    def ap(code, scope, name, val, m):
        return env.ops.Operation(env.ops.OpCode(code), env.qltypes.ConfigScope(scope), name,
                                 json.loads(json.dumps(val))).apply(env.spec, m)

    def bad(commit, key, what, detail):
        ctx.fail(f'regression:{commit}:{key}', what, detail)
    # 9cae9a4: a filtered RESET that removes nothing must not mask less specific scopes
    wit = [['ADD', 'INSTANCE', 'objs', {'database': 'a', 'port': 1}], ['REM', 'SESSION', 'objs', {'database': 'zzz'}]]
    try:
        inst = ap(*wit[0], E)
        sess = ap(*wit[1], E)
        before = env.config.lookup('objs', E, E, inst, spec=env.spec)
        after = env.config.lookup('objs', sess, E, inst, spec=env.spec)
        if len(sess) != 0 or canon_val(env.enc_val_for('objs', before)) != canon_val(env.enc_val_for('objs', after)):
            bad('9cae9a4', 'rem-noop-mask', 'a REM that removed nothing stored an entry / changed the effective value',
                {'ops': wit})
    except Exception as e:     # noqa: BLE001
        bad('9cae9a4', 'rem-noop-mask', f'witness raised {exc_name(e)}', {'ops': wit})
    # a93d1c2: cfg::memory values in to_edgeql
    wit = [['SET', 'SESSION', 'mem', '5MiB']]
    try:
        t = env.ops.to_edgeql(env.spec, ap(*wit[0], E), True)
        if t != "CONFIGURE SESSION SET mem := <cfg::memory>'5MiB';":
            bad('a93d1c2', 'memory-edgeql', f'unexpected text {t!r}', {'ops': wit})
    except Exception as e:     # noqa: BLE001
        bad('a93d1c2', 'memory-edgeql', f'to_edgeql raised {exc_name(e)} for a memory value', {'ops': wit})
    # 7df602b: bool for an int setting
    for wit in ([['SET', 'SESSION', 'i', True]], [['SET', 'SESSION', 'ints', [1, False]]]):
        try:
            ap(*wit[0], E)
            bad('7df602b', 'bool-for-int', 'a bool was accepted for an int setting', {'ops': wit})
        except Exception:     # noqa: BLE001 – rejected: fine
            pass
    # 44d9781: duration texts without any component
    D = env.statypes.Duration
    for t in ('', '\n', 'PT', '\n\n'):
        for f, nm in ((D, 'Duration'), (D.from_iso8601, 'from_iso8601')):
            try:
                f(t)
                bad('44d9781', 'duration-empty', f'{nm}({t!r}) was accepted', {'text': t})
            except Exception:     # noqa: BLE001 – rejected: fine
                pass


def only_gained_tname(orig, now):
    """is `now` = `orig` except for `_tname` keys added to nested dicts?"""
    if isinstance(orig, dict) and isinstance(now, dict):
        extra = set(now) - set(orig)
        if extra - {'_tname'} or set(orig) - set(now):
            return False
        return all(only_gained_tname(orig[k], now[k]) for k in orig)
    if isinstance(orig, list) and isinstance(now, list):
        return len(orig) == len(now) and all(only_gained_tname(a, b) for a, b in zip(orig, now))
    return type(orig) is type(now) and orig == now


def _outcome(env, fn):
    """('ok', canonical dump) | (exception class, None)"""
    try:
        m = fn()
        return 'ok', canon_map(env.enc_map(m)), m
    except Exception as e:     # noqa: BLE001
        return exc_name(e), None, None


def dbview_style(env, op, storage):
    """the call sequence of edb/server/dbview/dbview.pyx for one operation (transcribed):
    INSTANCE  apply_system_config_op: get_setting, coerce_value (value for the callbacks),
              apply, _save_system_overrides = to_json(filter source == 'system override',
              include_source=False) + json.loads;
    DATABASE  apply_config_ops: apply;
    SESSION   apply_config_ops: apply, later serialize_state = value_to_json_value of every
              session value + json.dumps.
    Returns (new storage, callback value or None, persisted JSON or None)."""
    cfg, ops_ = env.config, env.ops
    scope = str(op.scope)
    if scope == 'INSTANCE':
        spec = env.spec
        op_value = op.get_setting(spec)
        allow_missing = op.opcode is cfg.OpCode.CONFIG_REM or op.opcode is cfg.OpCode.CONFIG_RESET
        op_value = op.coerce_value(spec, op_value, allow_missing=allow_missing)
        new = op.apply(spec, storage)
        data = cfg.to_json(spec, new, setting_filter=lambda v: v.source == 'system override',
                           include_source=False)
        return new, op_value, json.loads(data)
    new = op.apply(env.spec, storage)
    if scope == 'SESSION':
        state = []
        for sval in new.values():
            setting = env.spec[sval.name]
            state.append({'name': sval.name, 'value': cfg.value_to_json_value(setting, sval.value),
                          'type': 'C'})
        return new, None, json.loads(json.dumps(state))
    return new, None, None


def purity_oracles(env, ctx, op_obj, value, before, res, after, prefix, stats):
    code, scope, name = str(op_obj.opcode), str(op_obj.scope), op_obj.setting_name
    pristine = json.loads(json.dumps(value))
    kind = _kind(name)

    def mutated(v, where):
        if v == pristine:
            return
        if only_gained_tname(pristine, v):
            stats['op_value_gained_tname'] = stats.get('op_value_gained_tname', 0) + 1
            return
        ctx.fail(f'oracle:op-mutated:{where}:{kind}',
                 f'{where} changed the Operation\'s value: {pristine!r} -> {v!r}',
                 {'ops': prefix, 'nested': kind.startswith('nested')})
    mutated(op_obj.value, 'apply')
    # the same Operation object again, on the same storage
    res2, dump2, _ = _outcome(env, lambda: op_obj.apply(env.spec, before))
    dump1 = canon_map(env.enc_map(after)) if res == 'ok' else None
    if (res2, dump2) != (res, dump1):
        ctx.fail(f'oracle:apply-not-repeatable:{code}:{kind}',
                 f'applying the same Operation twice to the same storage: first {res}, then {res2}'
                 + ('' if dump1 == dump2 else ' with a different storage'),
                 {'ops': prefix, 'first': dump1, 'second': dump2, 'nested': kind.startswith('nested')})
    # a fresh Operation driven the way dbview drives it
    o3 = env.ops.Operation(op_obj.opcode, op_obj.scope, name, json.loads(json.dumps(value)))
    cb = {}

    def drive():
        new, cbv, persisted = dbview_style(env, o3, before)
        cb['v'], cb['p'] = cbv, persisted
        return new
    res3, dump3, new3 = _outcome(env, drive)
    mutated(o3.value, 'dbview-sequence')
    stats['dbview'][scope] = stats['dbview'].get(scope, 0) + 1
    if res == 'ok' and res3 != 'ok':
        # apply accepted; the surrounding sequence (coerce twice / persistence) failed
        if not (res3 in ('AttributeError', 'TypeError') and _tojson_fails_map(env, after)):
            ctx.fail(f'oracle:dbview-differs:{scope}:{code}:{kind}',
                     f'plain apply accepted, the dbview call sequence raised {res3}',
                     {'ops': prefix, 'nested': kind.startswith('nested')})
    elif (res3 == 'ok') != (res == 'ok') or (res == 'ok' and dump3 != dump1):
        ctx.fail(f'oracle:dbview-differs:{scope}:{code}:{kind}',
                 f'the dbview call sequence gives a different result ({res3}) than a plain apply ({res})',
                 {'ops': prefix, 'plain': dump1, 'dbview': dump3, 'nested': kind.startswith('nested')})
    elif res == 'ok' and scope == 'INSTANCE' and code in ('SET', 'ADD') and name in new3:
        # the value handed to the server callbacks is the value that was stored
        stored = new3[name].value
        cbv = cb.get('v')
        enc = lambda x: canon_val(env.enc_val_for(name, x))      # noqa: E731
        ok = (enc(stored) == enc(cbv)) if code == 'SET' else (
            isinstance(stored, frozenset) and any(enc(x) == enc(cbv) for x in stored))
        if not ok:
            ctx.fail(f'oracle:dbview-callback-value:{code}:{kind}',
                     'the value coerced for the callbacks is not the value apply stored',
                     {'ops': prefix, 'callback': repr(cbv), 'stored': repr(stored)})


def _tojson_fails_map(env, m):
    try:
        env.ops.to_json(env.spec, m)
        return False
    except Exception:     # noqa: BLE001
        return True


def unique_sites(tspec, fname):
    """names of the types of the declared chain self, parent, … on which `fname` is exclusive"""
    out = set()
    t = tspec
    while t is not None:
        f = t.fields.get(fname)
        if f is not None and f.unique:
            out.add(t.name)
        t = t.parent
    return out


def exclusive_clashes(objs, cls):
    """pairs of stored objects whose types share an ancestor-or-self declaring a field exclusive
    and that agree on that field (None = unset does not count); independent of the code under test"""
    objs = [o for o in objs if isinstance(o, cls)]
    out = []
    for i, a in enumerate(objs):
        for b in objs[i + 1:]:
            for fname in a._tspec.fields:
                if fname not in b._tspec.fields:
                    continue
                va, vb = getattr(a, fname, None), getattr(b, fname, None)
                if va is None or vb is None or va != vb:
                    continue
                if unique_sites(a._tspec, fname) & unique_sites(b._tspec, fname):
                    out.append((fname, a._tspec.name, b._tspec.name, va))
    return out


PLAIN = {'b': bool, 'i': int, 's': str, 'ints': int, 'strs': str}


def bool_in_int_field(env, tspec, value):
    """'Type.field' of the first int (or frozenset[int]) field of an object value that is given a bool"""
    from edb.common import typing_inspect
    vals = value if isinstance(value, list) else [value]
    for v in vals:
        if not isinstance(v, dict):
            continue
        t = tspec
        tn = v.get('_tname')
        if isinstance(tn, str):
            try:
                t = env.spec.get_type_by_name(tn)
            except KeyError:
                continue
        for fname, fv in v.items():
            f = t.fields.get(fname)
            if f is None:
                continue
            ft = f.type
            if ft is int and isinstance(fv, bool):
                return f'{t.name}.{fname}'
            if typing_inspect.is_generic_type(ft) and not isinstance(ft, type) and \
                    typing_inspect.get_args(ft, evaluate=True)[0] is int:
                items = fv if isinstance(fv, (list, dict)) else [fv]
                if any(isinstance(x, bool) for x in items):
                    return f'{t.name}.{fname}'
            if isinstance(ft, env.types.ConfigTypeSpec) and isinstance(fv, dict):
                hit = bool_in_int_field(env, ft, fv)
                if hit:
                    return hit
    return None


def plain_valid(name, value, bool_is_int=False):
    """is `value` a value of the type of the plain setting `name`?  (`bool_is_int`: Python's view,
    in which True/False are ints)"""
    t = PLAIN[name]
    if t is bool:
        one = lambda v: type(v) is bool                                  # noqa: E731
    elif t is int and not bool_is_int:
        one = lambda v: type(v) is int                                   # noqa: E731
    else:
        one = lambda v: isinstance(v, t)                                 # noqa: E731
    if name in ('ints', 'strs'):
        if not isinstance(value, (list, dict)):
            return False
        items = list(value)
        return all(one(v) for v in items) and len(set(items)) <= 128
    return one(value)


def _kind(name):
    return {'obj': 'single-object', 'objs': 'object-set', 'auths': 'object-set', 'provs': 'object-set',
            'nauths': 'nested-object-set', 'mem': 'memory', 'durs': 'duration-set',
            'i': 'int', 'ints': 'int-set', 'd': 'duration', 'dn': 'duration'}.get(name, name)


def _failing(env, m, fn):
    """the entries of a storage map on which `fn` (applied to the one-entry map) raises"""
    out = []
    for k, sv in sorted(m.items()):
        try:
            fn(env.immutables.Map({k: sv}))
        except Exception as e:     # noqa: BLE001
            out.append((k, e))
    return out


# ------------------------------------------------------------------ driver
def drive(ctx, spec_line, lines, nproc=4):
    """pipe lines through several driver processes (each gets the spec first)"""
    if not lines:
        return []
    nproc = max(1, min(nproc, (len(lines) + 199) // 200))
    size = (len(lines) + nproc - 1) // nproc
    chunks = [lines[i:i + size] for i in range(0, len(lines), size)]

    def one(chunk):
        out = ctx.driver('C19', [spec_line] + chunk)
        if len(out) != len(chunk) + 1 or out[0] != 'ok':
            raise core.Infra(f'driver C19: {len(out)} answers for {len(chunk) + 1} lines; first={out[:1]}')
        return out[1:]
    with ThreadPoolExecutor(len(chunks)) as ex:
        res = list(ex.map(one, chunks))
    return [x for r in res for x in r]


# --------------------------------------------------------------------- run
def run(ctx: core.Ctx):
    env = Env()
    real = Real(env)
    rng = ctx.rng

    proved = ctx.proof_stage(PROPS, ['EdbVerif.Props.C19', 'Driver.C19'], required=REQUIRED)
    ctx.log('proof stage:', 'ok' if proved else ctx.proof['broken'][:5])

    spec_line = 'spec ' + json.dumps(env.spec_json())

    # ------------------------------------------------ repaired findings: regression witnesses first
    if not ctx.replay:
        regression_witnesses(env, ctx)

    # ------------------------------------------------ stream 1: op sequences
    seqs = []
    if ctx.replay:
        rp = json.load(open(ctx.replay))
        for f in rp['failures']:
            d = f.get('detail')
            if isinstance(d, dict) and 'ops' in d and not d.get('nested'):
                seqs.append((d['ops'], 'replay'))
    else:
        for ops in CORPUS:
            seqs.append((ops, 'corpus'))
        for _ in range(ctx.budget(3000, 60000)):
            seqs.append((gen_sequence(rng, env), 'random'))
        depth = ctx.budget(2, 3)
        for i, ops in enumerate(gen_exhaustive(env, depth)):
            seqs.append((ops, f'exh{depth}'))

    stats = {'err': {}, 'ok': {}, 'non_edgedb': {}, 'dbview': {}}
    obs, lines = [], []
    for ops, tag in seqs:
        obs.append(run_sequence(env, real, ops, ctx, stats, tag))
        lines.append('seq ' + json.dumps({'ops': [[c, s, n, enc_jv(v)] for c, s, n, v in ops],
                                          'look': env.names + ['nope']}))
    ctx.log(f'{len(seqs)} sequences ({sum(len(s[0]) for s in seqs)} ops) through the real code; '
            f'ok {stats["ok"]} err {stats["err"]}')

    # ------------------------- stream 1b: nested object fields (real code only, all oracles)
    envn = env.view(env.nspec)
    realn = Real(envn)
    nstats = {'err': {}, 'ok': {}, 'non_edgedb': {}, 'dbview': {}}
    if ctx.replay:
        nseqs = [f['detail']['ops'] for f in rp['failures']
                 if isinstance(f.get('detail'), dict) and f['detail'].get('nested') and 'ops' in f['detail']]
    else:
        nseqs = [json.loads(json.dumps(o)) for o in NESTED_CORPUS] + \
            [gen_nested_sequence(rng) for _ in range(ctx.budget(600, 12000))]
    for ops in nseqs:
        run_sequence(envn, realn, ops, ctx, nstats, 'nested')
    ctx.log(f'{len(nseqs)} nested-object sequences ({sum(len(o) for o in nseqs)} ops, real code only): '
            f'ok {nstats["ok"]} err {nstats["err"]}')

    # EdgeQL text: the model prints the REAL storage (real iteration order of maps and sets)
    eq_lines, eq_ref = [], []
    for (ops, tag), o in zip(seqs, obs):
        for f in o['final']:
            if f['raw_map']:
                eq_lines.append('edgeql ' + json.dumps(f['raw_map']))
                eq_ref.append((ops, f['edgeql']))

    # from_json on damaged documents
    fj_lines, fj_ref = [], []
    if not ctx.replay:
        for (ops, tag), o in list(zip(seqs, obs))[:ctx.budget(600, 6000)]:
            for f, scope in zip(o['final'], SCOPES):
                if 'ok' not in f['tojson'] or not f['raw_map']:
                    continue
                doc = rebuild_json(env, f['raw_map'])
                if doc is None:
                    continue
                doc = damage(rng, doc)
                if not in_domain(env, doc):
                    continue
                try:
                    back = env.ops.from_json(env.spec, json.dumps(doc))
                    r = {'ok': canon_map(env.enc_map(back))}
                except Exception as e:     # noqa: BLE001
                    r = {'err': exc_name(e)}
                fj_lines.append('fromjson ' + json.dumps(enc_jv(doc)))
                fj_ref.append((doc, r))

    # ------------------------------------------- stream 2: Duration / Memory
    dm_lines, dm_ref = [], []
    D, M = env.statypes.Duration, env.statypes.ConfigMemory
    vals, mvals, nvals = set(), set(), set()
    dur_texts, iso_texts, mem_texts = [], [], []
    if ctx.replay:
        for f in rp['failures']:
            d, key = f.get('detail'), f.get('key', '')
            if not isinstance(d, dict):
                continue
            if 'us' in d:
                vals.add(int(d['us']))
            if 'n' in d:
                (mvals if int(d['n']) >= 0 else nvals).add(int(d['n']))
            if 'text' in d:
                dur_texts.append(d['text'])
            if 'input' in d:
                kind = key.split(':')[1] if key.startswith('corr:') else ''
                if kind == 'durrt':
                    vals.add(int(d['input']))
                elif kind == 'memrt':
                    (mvals if int(d['input']) >= 0 else nvals).add(int(d['input']))
                elif kind == 'dur':
                    dur_texts.append(d['input'])
                elif kind == 'iso':
                    iso_texts.append(d['input'])
                elif kind == 'mem':
                    mem_texts.append(d['input'])
            if 'doc' in d and in_domain(env, d['doc']):
                doc = d['doc']
                try:
                    back = env.ops.from_json(env.spec, json.dumps(doc))
                    r = {'ok': canon_map(env.enc_map(back))}
                except Exception as e:     # noqa: BLE001
                    r = {'err': exc_name(e)}
                fj_lines.append('fromjson ' + json.dumps(enc_jv(doc)))
                fj_ref.append((doc, r))
    else:
        vals = set(range(-2000, 2001))
        for unit in (10 ** 3, 10 ** 6, 6 * 10 ** 7, 36 * 10 ** 8, 864 * 10 ** 8):
            for k in list(range(0, 4)) + [59, 60, 61, 99, 100, 1000, 2 ** 31 - 1, 2 ** 31]:
                for d in (-1, 0, 1):
                    vals.add(k * unit + d)
                    vals.add(-(k * unit + d))
        for _ in range(ctx.budget(20000, 400000)):
            vals.add(rng.randint(-2 ** 63, 2 ** 63 - 1))
        mvals = set(range(0, 2100))
        for unit in (2 ** 10, 2 ** 20, 2 ** 30, 2 ** 40, 2 ** 50, 2 ** 60):
            for k in (1, 2, 3, 1023, 1024, 1025):
                for d in (-1, 0, 1):
                    mvals.add(k * unit + d)
        for _ in range(ctx.budget(5000, 100000)):
            mvals.add(rng.randint(0, 2 ** 64))
            mvals.add(rng.randint(0, 2 ** 14) << rng.choice([10, 20, 30, 40, 50]))
        nvals = {-1, -1024, -5 * 2 ** 20}
        for _ in range(ctx.budget(20000, 400000)):
            dur_texts.append(gen_dur_text(rng))
            iso_texts.append(gen_dur_text(rng))
        for _ in range(ctx.budget(5000, 100000)):
            mem_texts.append(gen_mem_text(rng))
    upstream = {} if ctx.replay else upstream_text_lists()
    for (kind, verdict), texts in sorted(upstream.items()):
        ctor = D if kind == 'duration' else M
        for t in texts:
            if not isinstance(t, str) or not t.isascii():
                continue
            (dur_texts if kind == 'duration' else mem_texts).append(t)
            try:
                ctor(t)
                ok = True
            except Exception:     # noqa: BLE001
                ok = False
            if ok != (verdict == 'valid'):
                ctx.fail(f'upstream:{kind}-{verdict}:{t!r}',
                         f'upstream test list says {t!r} is {verdict} for {kind}, statypes ' +
                         ('accepts' if ok else 'rejects') + ' it', {'text': t})
    for us in sorted(vals):
        d = D(microseconds=us)
        iso = d.to_iso8601()
        r1 = _dur(D, iso)
        r2 = _dur(D.from_iso8601, iso)
        dm_lines.append(f'durrt {us}')
        dm_ref.append(('durrt', us, [iso, r1, r2]))
        if r1 != f'ok {us}' or r2 != f'ok {us}':
            ctx.fail(f'oracle:duration-rt:{us}', 'Duration(to_iso8601(d)) != d',
                     {'us': us, 'iso': iso, 'Duration(iso)': r1, 'from_iso8601(iso)': r2})
    for n in sorted(mvals):
        s = M(n).to_str()
        r = _mem(M, s)
        dm_lines.append(f'memrt {n}')
        dm_ref.append(('memrt', n, [s, r]))
        if r != f'ok {n}':
            ctx.fail(f'oracle:memory-rt:{n}', 'ConfigMemory(str(m)) != m', {'n': n, 'str': s, 'back': r})
    for n in sorted(nvals):        # negative: accepted by ConfigMemory(int); compared, not judged here
        try:
            s = M(n).to_str()
            r = [s, _mem(M, s)]
        except Exception as e:     # noqa: BLE001 – a constructor that rejects negatives: the model will disagree
            r = [exc_name(e), exc_name(e)]
        dm_lines.append(f'memrt {n}')
        dm_ref.append(('memrt', n, r))
    for t in dur_texts:
        dm_lines.append('dur ' + json.dumps(t))
        r = _dur(D, t)
        dm_ref.append(('dur', t, r))
        if r.startswith('ok') and not any(c.isdigit() for c in t):
            ctx.fail('accepts-invalid:duration:no-digit',
                     'Duration() accepts a text without a single digit', {'text': t, 'result': r})
    for t2 in iso_texts:
        dm_lines.append('iso ' + json.dumps(t2))
        dm_ref.append(('iso', t2, _dur(D.from_iso8601, t2)))
    for t in mem_texts:
        dm_lines.append('mem ' + json.dumps(t))
        dm_ref.append(('mem', t, _mem(M, t)))

    # ------------------------------------------------------ model, compare
    all_lines = lines + eq_lines + fj_lines + dm_lines
    ctx.log(f'{len(all_lines)} lines to the model ({len(lines)} seq, {len(eq_lines)} edgeql, '
            f'{len(fj_lines)} fromjson, {len(dm_lines)} duration/memory)')
    out = drive(ctx, spec_line, all_lines, nproc=int(os.environ.get('C19_NPROC', '4')))
    o_seq = out[:len(lines)]
    o_eq = out[len(lines):len(lines) + len(eq_lines)]
    o_fj = out[len(lines) + len(eq_lines):len(lines) + len(eq_lines) + len(fj_lines)]
    o_dm = out[len(lines) + len(eq_lines) + len(fj_lines):]

    n_dis = 0

    def disagree(key, what, detail):
        nonlocal n_dis
        n_dis += 1
        ctx.fail(key, what, detail, no_input=True)

    distinct = set()
    nontrivial = 0
    for (ops, tag), o, line, mo in zip(seqs, obs, lines, o_seq):
        if line not in distinct:
            distinct.add(line)
            if any(s[0] == 'ok' for s in o['steps']):
                nontrivial += 1
        if mo == 'bad-op':
            disagree(f'corr:seq:bad-op:{skey(ops)[:200]}', 'model rejects the line', {'ops': ops})
            continue
        m = json.loads(mo)
        ok = True
        for i, (rs, ms) in enumerate(zip(o['steps'], m['steps'])):
            if rs[0] != ms[0] or rs[1] != canon_map(ms[1]):
                disagree(f'corr:step:{skey(ops[:i + 1])[:300]}',
                         'model and implementation disagree on a step (Operation.apply vs Config.apply)',
                         {'ops': ops[:i + 1], 'real': rs, 'model': [ms[0], canon_map(ms[1])]})
                ok = False
                break
        if not ok:
            continue
        for n, rl, ml in zip(env.names + ['nope'], o['look'], m['look']):
            ml = [({'ok': canon_val(x['ok'])} if 'ok' in x else x) for x in ml]
            if rl != ml:
                disagree(f'corr:lookup:{n}:{skey(ops)[:200]}', 'lookup differs', {'ops': ops, 'real': rl, 'model': ml})
        for scope, rf, mf in zip(SCOPES, o['final'], m['final']):
            mtj = mf['tojson']
            mtj = {'ok': canon_json(dec_jv(mtj['ok']))} if 'ok' in mtj else mtj
            if rf['tojson'] != mtj:
                disagree(f'corr:tojson:{skey(ops)[:200]}', 'to_json differs',
                         {'ops': ops, 'scope': scope, 'real': rf['tojson'], 'model': mtj})
            mrt = mf['rt']
            mrt = {'ok': canon_map(mrt['ok'])} if 'ok' in mrt else mrt
            if rf['rt'] != mrt:
                disagree(f'corr:fromjson:{skey(ops)[:200]}', 'from_json(to_json) differs',
                         {'ops': ops, 'scope': scope, 'real': rf['rt'], 'model': mrt})
    for (ops, r), mo in zip(eq_ref, o_eq):
        m = json.loads(mo) if mo != 'bad-op' else {'err': 'bad-op'}
        if 'ok' in m:
            m = {'ok': '\n'.join(m['ok'])}
        if r != m:
            disagree(f'corr:edgeql:{skey(ops)[:200]}', 'to_edgeql text differs', {'ops': ops, 'real': r, 'model': m})
    for (doc, r), mo in zip(fj_ref, o_fj):
        m = json.loads(mo) if mo != 'bad-op' else {'err': 'bad-op'}
        if 'ok' in m:
            m = {'ok': canon_map(m['ok'])}
        if r != m:
            disagree(f'corr:fromjson-damaged:{skey(doc)[:200]}', 'from_json on a damaged document differs',
                     {'doc': doc, 'real': r, 'model': m})
    dm_hist = {}
    for (kind, x, r), mo in zip(dm_ref, o_dm):
        m = json.loads(mo) if kind in ('durrt', 'memrt') and mo != 'bad-op' else mo
        cls = kind + ':' + ((r if isinstance(r, str) else r[1]).split(' ')[0])
        dm_hist[cls] = dm_hist.get(cls, 0) + 1
        if r != m:
            disagree(f'corr:{kind}:{x!r}', f'statypes {kind} differs', {'input': x, 'real': r, 'model': m})

    # ------------------------------------------- level 2: EdgeQL replay (real code only)
    l2_cases = None
    if ctx.replay:
        l2_cases = [f['detail']['l2ops'] for f in rp['failures']
                    if isinstance(f.get('detail'), dict) and 'l2ops' in f['detail']]
    l2 = None
    if not ctx.replay or l2_cases:
        try:
            l2 = edgeql_replay_leg(ctx, l2_cases)
            ctx.log(f"EdgeQL replay: {l2['round_trips_equal']}/{l2['storages']} storages equal after "
                    f"parse+compile+apply of {l2['statements']} printed statements (bridge setup {l2['bridge_setup_s']} s)")
        except core.Infra:
            raise
        except ImportError as e:
            raise core.Infra(f'front-end bridge not available: {e}')

    if not proved:
        ctx.proof_broken_verdict()

    n_eval = len(seqs) + len(eq_lines) + len(fj_lines) + len(dm_lines)
    ctx.cov.update({
        'evaluations': n_eval,
        'distinct_nontrivial': nontrivial,
        'rule': 'op sequences (1..25 ops; SET/RESET/ADD/REM x 3 scopes x 12 settings of kinds '
                'bool/int/str/enum/duration/duration-with-None-default/memory/set-of-int/set-of-str/'
                'single object/set of object x3 incl. a 3-level type hierarchy with inherited and subtype-only exclusive fields; values valid, boundary, invalid) + exhaustive sequences '
                'over a 30-letter alphabet up to depth 2 (quick) / 3 (thorough) + corpus; '
                'distinct = distinct protocol line, non-trivial = at least one op succeeded. '
                'Duration/Memory: all |us| <= 2000, unit multiples +-1, random 64-bit values, '
                'random texts of all surface forms',
        'samples': [lines[i][:400] for i in sorted({0, len(lines) // 2, len(lines) - 1}) if 0 <= i < len(lines)] +
                   dm_lines[:1] + dm_lines[-1:],
        'sequences': len(seqs), 'ops': sum(len(s[0]) for s in seqs),
        'streams': {t: sum(1 for s in seqs if s[1] == t) for t in sorted({s[1] for s in seqs})},
        'step_outcomes': {'ok_by_opcode': stats['ok'], 'rejections_by_exception_class': stats['err'],
                          'rejections_not_EdgeDBError (observation; opcode:kind:class)': stats['non_edgedb']},
        'edgeql_texts_compared': len(eq_lines), 'damaged_json_docs': len(fj_lines),
        'duration_memory_cases': len(dm_lines),
        'upstream_text_lists': {f'{k[0]}-{k[1]}': len(v) for k, v in upstream.items()}, 'duration_memory_outcomes': dm_hist,
        'disagreements_model_vs_impl': n_dis,
        'edgeql_replay_level2': l2,
        'nested_secret_probe': secret_probe(env, ctx) if not ctx.replay else None,
        'nested_object_stream (real code only)': {
            'sequences': len(nseqs), 'ops': sum(len(o) for o in nseqs), 'ok_by_opcode': nstats['ok'],
            'rejections_by_exception_class': nstats['err'],
            'op_value_gained__tname (benign mutation of the caller\'s dict by from_pyvalue)': nstats.get('op_value_gained_tname', 0),
            'dbview_style_runs_by_scope': nstats['dbview']},
        'dbview_style_runs_by_scope': stats['dbview'],
        'exhaustive': False,
        'correspondence': 'real Operation.apply / config.lookup / to_json / from_json / to_edgeql / '
                          'statypes.Duration / ConfigMemory vs Lean EdbVerif.Config / Duration / Memory; '
                          'exception class + canonicalised storage dump after every step',
    })
    ctx.assumptions += [
        'scope dispatch (which map an operation is applied to) is taken from dbview.apply_config_ops, '
        'which is Cython and not runnable here; the harness re-implements the three-way dispatch',
        'frozenset / immutables.Map iteration order is not part of the model: dumps are sorted, and for '
        'to_edgeql the model prints the real storage in the real iteration order',
        'EdgeQL text is compared, not re-parsed (no parser in this sandbox); string constants are '
        'restricted to [A-Za-z0-9 _./:-] (quoting rules belong to C18/C01)',
        'ASCII only for Duration/ConfigMemory texts (Python \\d, \\s, int(), re.I accept more); no floats; '
        'no object-type inheritance, no nested object fields, no secret/protected settings, no GLOBAL scope',
    ]
    ctx.trusted_base += [
        'hand-written models EdbVerif/Model/{Config,Duration,Memory}.lean; tied by the differential run above',
        'harness/props/c19.py generators, oracle, canonicalisation; Driver/C19.lean JSON codec (Lean.Data.Json)',
        'json.dumps / json.loads (the model works on the JSON tree)',
    ]


def _dur(f, t):
    try:
        return f'ok {f(t).to_microseconds()}'
    except Exception as e:     # noqa: BLE001
        return exc_name(e)


def _mem(M, t):
    try:
        return f'ok {M(t).to_nbytes()}'
    except Exception as e:     # noqa: BLE001
        return exc_name(e)


def rebuild_json(env, raw_map):
    """the to_json document of a storage, rebuilt from the real one (kept in
    real order) – used as the seed for damaged documents"""
    m = {}
    for k, sv in raw_map:
        m[k] = sv
    return {k: {'name': k, 'source': sv['src'], 'scope': sv['sc'], 'value': _tojson_value(sv['v'])}
            for k, sv in m.items()} if all(_tojson_value(sv['v']) is not NotImplemented
                                           for sv in m.values()) else None


def _tojson_value(e):
    """JSON value for an encoded stored value (mirrors value_to_json_value on
    well-formed values; only used to seed the damage generator)"""
    if isinstance(e, dict):
        if 'set' in e:
            return [x for x in e['set']] if all(not isinstance(x, dict) for x in e['set']) else NotImplemented
        if 'objs' in e:
            r = [_tojson_value(o) for o in e['objs']]
            return NotImplemented if any(x is NotImplemented for x in r) else r
        if 'obj' in e:
            d = {'_tname': e['obj']}
            for k, v in e['f']:
                d[k] = _tojson_value(v)
                if d[k] is NotImplemented:
                    return NotImplemented
            return d
        if 'd' in e:
            return 'PT%dS' % (e['d'] // 10 ** 6) if e['d'] % 10 ** 6 == 0 and e['d'] >= 0 else 'PT1S'
        if 'm' in e:
            return '%dB' % e['m'] if e['m'] >= 0 else NotImplemented
        if 'e' in e:
            return e['e']
    return e


def in_domain(env, doc):
    """damaged documents the model covers (see Model/Config.lean: `outOfDomain`)"""
    if not isinstance(doc, dict):
        return True
    for k, e in doc.items():
        if k not in env.spec or not isinstance(e, dict) or 'value' not in e:
            continue
        if 'source' in e and not isinstance(e['source'], str):
            return False
        v = e['value']
        s = env.spec[k]
        is_obj = isinstance(s.type, env.types.ConfigTypeSpec)
        if s.set_of:
            if is_obj and isinstance(v, list) and any(isinstance(x, dict) and not isinstance(
                    x.get('_tname', ''), str) for x in v):
                return False
            if not is_obj and isinstance(v, (list, str, dict)) and any(x is None for x in v):
                pass
        elif is_obj:
            if not (v is None or isinstance(v, list)):
                return False
        elif k == 'en':
            if not isinstance(v, str):
                return False
        elif k == 'mem':
            if isinstance(v, bool):
                return False
        elif k in ('d', 'dn'):
            pass
        elif isinstance(v, (list, dict)):
            return False
    return True


def damage(rng, doc):
    doc = json.loads(json.dumps(doc))
    if not doc:
        return rng.choice([[], None, 5, 'x', {}])
    k = rng.choice(list(doc))
    r = rng.random()
    if r < 0.12:
        del doc[k][rng.choice(['value', 'source', 'scope'])]
    elif r < 0.22:
        doc[k]['scope'] = rng.choice(['BOGUS', 'session', 5, None])
    elif r < 0.3:
        doc['unknown_setting'] = doc[k]
    elif r < 0.36:
        doc[k] = rng.choice([5, None, [], 'x'])
    elif r < 0.75:
        doc[k]['value'] = rng.choice([None, 5, 'x', [], [1, 2], 'PT5S', '5KiB', 'Enabled', True, [None],
                                      [[1]], [{'database': 'z', 'port': 1}],
                                      [{'database': 'z', 'port': 1}, {'database': 'z', 'port': 2}],
                                      [{'name': 'q'}], [{'_tname': 'Auth', 'name': 'q'}], ['a', 'a'],
                                      '-5B', 'PT', 'PT1H\n', [{'database': 'z'}], {'a': 1}, 'bad'])
    elif r < 0.8:
        return rng.choice([[], None, 5, 'x'])
    return doc


# ------------------------------------------------- level 2: EdgeQL replay leg
TRICKY = ['a', 'b c', "it's", 'say "hi"', 'back\\slash', '$x$', '$$', 'nl\nnl', 'tab\t', 'é☃', '',
          "'", '"', '\\', '\\n', '{}', ';', 'x;y', '#c', '`bq`', ' lead', 'trail ', '\x7f', '‮', "a''b"]


L2_METHODS = ['cfg::Trust', 'cfg::SCRAM', 'cfg::JWT', 'cfg::Password']


class _L2Ctx:
    """ctx proxy of the level-2 leg: failure details carry `l2ops` so that --replay re-runs them there"""

    def __init__(self, ctx):
        self._ctx = ctx

    def fail(self, key, what, detail, **kw):
        if isinstance(detail, dict) and 'ops' in detail:
            detail = {k: v for k, v in detail.items() if k != 'ops'} | {'l2ops': detail['ops']}
        self._ctx.fail(key.replace('oracle:', 'oracle:l2:', 1), what, detail, **kw)

    def __getattr__(self, n):
        return getattr(self._ctx, n)


class Level2:
    """the REAL spec of the std schema + the front-end bridge: statements printed
    by `to_edgeql` are parsed (real grammar), compiled (real edgeql compiler),
    turned into `config.Operation`s (real `staeval.evaluate_to_config_op`) and
    applied to an empty storage; the result must equal the original storage."""

    def __init__(self):
        from bridge import env as benv
        benv.setup()
        self.std = benv.std_schema()
        self.std_info = benv.std_info()
        import immutables
        from edb.server import config
        from edb.server.config import ops, types
        from edb.ir import statypes, staeval, ast as irast
        from edb.edgeql import qltypes, parser as qlparser, compiler as qlcompiler
        self.im, self.config, self.ops, self.types, self.st = immutables, config, ops, types, statypes
        self.staeval, self.irast, self.qltypes = staeval, irast, qltypes
        self.qlparser, self.qlcompiler = qlparser, qlcompiler
        self.spec = config.load_spec_from_schema(self.std)
        self.rejected = {}
        self.envv = Env().view(self.spec)
        self.pstats = {'dbview': {}}

    def kind(self, name):
        s = self.spec[name]
        t = s.type
        if isinstance(t, self.types.ConfigTypeSpec):
            return 'object:' + t.name
        base = ('bool' if t is bool else 'int' if t is int else 'str' if t is str else
                'duration' if t is self.st.Duration else 'memory' if t is self.st.ConfigMemory else
                'enum:' + t.__name__)
        return base + ('-set' if s.set_of else '')

    def gen_value(self, rng, name):
        s = self.spec[name]
        k = self.kind(name)
        if k == 'bool':
            return rng.choice([True, False])
        if k == 'int':
            if name in ('__internal_testvalue', '__internal_sess_testvalue'):
                return rng.choice([0, 1, -1, 42, 2 ** 31, 2 ** 63 - 1, -2 ** 63, rng.randint(-10 ** 9, 10 ** 9)])
            # other int settings carry schema constraints (e.g. listen_port <= 65535) that only the
            # EdgeQL compiler enforces, Operation.apply does not: stay inside them
            return rng.randint(1, 1000)
        if k == 'str':
            if s.enum_values:
                return rng.choice(list(s.enum_values))
            return rng.choice(TRICKY) if rng.random() < 0.7 else safe_str(rng)
        if k == 'str-set':
            return [rng.choice(TRICKY) for _ in range(rng.randint(0, 4))]
        if k == 'memory':
            # non-negative only: a negative int is still accepted and does not read back (open finding)
            return rng.choice(['0', '5MiB', '1KiB', '1023B', 1024, 0, 3 * 2 ** 30, 2 ** 50, rng.randint(0, 2 ** 40)])
        if k == 'duration':
            us = rng.choice([0, 1, -1, 10 ** 6, -3600500001, 59999999, 2 ** 63 - 1, -2 ** 63,
                             rng.randint(-2 ** 63, 2 ** 63 - 1), rng.randint(-10 ** 10, 10 ** 10)])
            return self.st.Duration(microseconds=us).to_iso8601()
        if k.startswith('enum:'):
            return str(rng.choice(list(s.type.type)))
        if k == 'object:cfg::TestSessionConfig':
            return {'name': rng.choice(TRICKY)}
        if k == 'object:cfg::TestInstanceConfig':
            # parent and subtype share the inherited exclusive `name`: draw it from a small pool
            nm = rng.choice(['n1', 'n2', 'n3']) if rng.random() < 0.7 else rng.choice(TRICKY)
            r = rng.random()
            if r < 0.3:
                return {'name': nm}
            if r < 0.6:
                # nested object given as a SUBTYPE (with a required own field) of the declared cfg::Base
                sub_ = rng.choice(['1', '2'])
                return {'name': nm, 'obj': {'_tname': 'cfg::Subclass' + sub_, 'name': rng.choice(['o1', 'o2']),
                                            'sub' + sub_: rng.choice(['s', 't'])}}
            return {'_tname': 'cfg::TestInstanceConfigStatTypes', 'name': nm,
                    'durprop': rng.choice([None, 'PT5S', 'PT-0.5S', 'PT1H2M3.000004S']),
                    'memprop': rng.choice([None, None, '5MiB', 1024, '0'])}
        if k == 'object:cfg::Auth':
            d = {'priority': rng.choice([0, 1, 2, 3, -1, 10 ** 6])}
            if rng.random() < 0.6:
                d['user'] = rng.choice([['u'], ['u', 'v'], 'w', [], ["o'q"]])
            if rng.random() < 0.5:
                d['comment'] = rng.choice(TRICKY)
            if rng.random() < 0.7:
                d['method'] = {'_tname': rng.choice(L2_METHODS)}
            return d
        if k == 'object:cfg::EmailProviderConfig':
            d = {'_tname': 'cfg::SMTPProviderConfig', 'name': rng.choice(TRICKY)}
            if rng.random() < 0.5:
                d['host'] = rng.choice(['localhost', 'mail.example'])
            if rng.random() < 0.5:
                d['port'] = rng.choice([25, 465, 587])
            if rng.random() < 0.5:
                d['validate_certs'] = rng.choice([True, False])
            if rng.random() < 0.5:
                d['timeout_per_email'] = rng.choice(['PT30S', 'PT1M30S', 'PT0.25S'])
            if rng.random() < 0.3:
                d['security'] = rng.choice(['PlainText', 'TLS', 'STARTTLS', 'STARTTLSOrPlainText'])
            if rng.random() < 0.3:
                d['password'] = rng.choice(TRICKY)
            return d
        return None

    def gen_ops(self, rng):
        scope = rng.choice(SCOPES)
        names = []
        for n in self.spec:
            s = self.spec[n]
            k = self.kind(n)
            if s.system and scope != 'INSTANCE':
                continue
            if k.startswith('object:') and scope == 'SESSION':
                continue            # CONFIGURE SESSION INSERT is not supported by the compiler
            names.append(n)
        ops = []
        for n in rng.sample(names, min(len(names), rng.randint(1, 6))):
            if self.kind(n).startswith('object:'):
                if rng.random() < 0.25:
                    ops.append(['SET', scope, n, [self.gen_value(rng, n) for _ in range(rng.randint(0, 3))]])
                for _ in range(rng.randint(1, 4)):
                    ops.append(['ADD', scope, n, self.gen_value(rng, n)])
                if rng.random() < 0.2:
                    ops.append(['REM', scope, n, ops[-1][3]])
            else:
                ops.append(['SET', scope, n, self.gen_value(rng, n)])
                if rng.random() < 0.1:
                    ops.append(['RESET', scope, n, None])
        return ops

    def build(self, ops, ctx=None):
        m = self.im.Map()
        for i, (code, scope, name, value) in enumerate(ops):
            op_obj = self.ops.Operation(self.ops.OpCode(code), self.qltypes.ConfigScope(scope), name,
                                        json.loads(json.dumps(value)))
            before = m
            try:
                m = op_obj.apply(self.spec, m)
                res = 'ok'
            except Exception:     # noqa: BLE001 – a rejected op: the storage stays as it is
                res = type(sys.exc_info()[1]).__name__
                self.rejected[res] = self.rejected.get(res, 0) + 1
            if ctx is not None:
                # S: purity / repeatability / the dbview call sequence, on the real spec
                purity_oracles(self.envv, _L2Ctx(ctx), op_obj, value, before, res,
                               m if res == 'ok' else None, ops[:i + 1], self.pstats)
            if res != 'ok':
                continue
            # S: exclusivity across the declared hierarchy (cfg::TestInstanceConfig and its subtype, …)
            if ctx is not None and code in ('ADD', 'SET') and name in m and isinstance(m[name].value, frozenset):
                for fname, ta, tb_, v in exclusive_clashes(m[name].value, self.types.CompositeConfigType):
                    ctx.fail(f'oracle:exclusive:l2:{name}.{fname}',
                             f'two stored objects ({ta}, {tb_}) agree on the exclusive field {fname!r} = {v!r}',
                             {'l2ops': ops[:i + 1]})
        return m

    def replay(self, text):
        """text -> (storage, None) | (None, (stage, exception))"""
        stage = 'parse'
        try:
            stmts = self.qlparser.parse_block(text)
            back = self.im.Map()
            for ql in stmts:
                stage = 'compile'
                ir = self.qlcompiler.compile_ast_to_ir(
                    ql, schema=self.std,
                    options=self.qlcompiler.CompilerOptions(modaliases={None: 'default'},
                                                            in_server_config_op=True))
                stage = 'evaluate'
                cfg_ir = ir.expr.expr if isinstance(ir, self.irast.Statement) else ir
                op = self.staeval.evaluate_to_config_op(cfg_ir, schema=self.std)
                stage = 'apply'
                back = op.apply(self.spec, back)
            return back, None
        except Exception as e:     # noqa: BLE001
            return None, (stage, e)


def strip_empty_sets(ops):
    """the same operations with every `field: []` of an object value removed"""
    def st(v):
        if isinstance(v, dict):
            return {k: st(x) for k, x in v.items() if x != []}
        if isinstance(v, list):
            return [st(x) for x in v]
        return v
    return [[c, sc, n, (st(v) if isinstance(v, (dict, list)) and n not in ('multiprop', 'cors_allow_origins',
                                                                          'listen_addresses') else v)]
            for c, sc, n, v in ops]


def edgeql_replay_leg(ctx, replay_cases=None):
    t0 = ctx.t0
    import time as _t
    t_start = _t.time()
    l2 = Level2()
    setup_s = round(_t.time() - t_start, 1)
    rng = ctx.rng
    cases = replay_cases if replay_cases is not None else \
        [[['ADD', 'INSTANCE', 'auth', {'priority': 1, 'user': []}]]] + \
        [l2.gen_ops(rng) for _ in range(ctx.budget(250, 8000))]
    n_stmt, n_ok, n_empty, kinds, samples = 0, 0, 0, {}, []
    for ops in cases:
        m = l2.build(ops, ctx)
        if not m:
            n_empty += 1
            continue
        try:
            text = l2.ops.to_edgeql(l2.spec, m, True)
        except Exception as e:     # noqa: BLE001
            ctx.fail(f'edgeql-replay:to_edgeql:{exc_name(e)}', f'to_edgeql raised {exc_name(e)}: {e}',
                     {'l2ops': ops})
            continue
        n_stmt += text.count(';\n') + 1
        for k in m:
            kinds[l2.kind(k)] = kinds.get(l2.kind(k), 0) + 1
        back, err = l2.replay(text)
        if err is not None:
            stage, e = err
            ctx.fail(f'edgeql-replay:{stage}:{exc_name(e)}',
                     f'replaying the statements printed by to_edgeql failed at {stage}: {exc_name(e)}: {str(e)[:200]}',
                     {'l2ops': ops, 'text': text})
            continue
        # oracle: the same EFFECTIVE configuration (an entry holding an empty set prints no statement)
        def eff(mm, k):
            # deep dump: `==` on config objects only looks at their unique fields
            return canon_val(l2.envv.enc_val_for(k, l2.config.lookup(k, mm, spec=l2.spec)))
        diff = sorted(k for k in l2.spec if eff(m, k) != eff(back, k))
        diff += sorted(k for k in set(m) & set(back) if (m[k].scope, m[k].source) != (back[k].scope, back[k].source))
        if diff and all(eff(l2.build(strip_empty_sets(ops)), k) == eff(back, k) for k in l2.spec):
            # the only loss: an explicitly EMPTY set-valued object field prints as `f := {}`, which
            # reads back as "not given", i.e. as the field's (non-empty) default
            ctx.fail('edgeql-replay:empty-set-field-reverts-to-default',
                     'an object whose set-valued field is explicitly empty does not survive to_edgeql + replay: '
                     'the field comes back as its non-empty default',
                     {'l2ops': ops, 'text': text, 'settings': diff})
        elif diff:
            for k in diff:
                ctx.fail(f'edgeql-replay:differs:{l2.kind(k) if k in l2.spec else k}',
                         'applying the statements printed by to_edgeql to an empty storage gives a different storage',
                         {'l2ops': ops, 'text': text, 'setting': k,
                          'original': repr(m.get(k)), 'replayed': repr(back.get(k))})
        else:
            n_ok += 1
            if len(samples) < 2:
                samples.append(text[:300])
    # the masking filtered RESET on the real spec: instance value, REM of an absent element at DATABASE
    if replay_cases is None:
        E_ = l2.im.Map()
        wit = [['ADD', 'INSTANCE', 'sysobj', {'name': 'a'}], ['REM', 'DATABASE', 'sysobj', {'name': 'zzz'}]]
        inst = l2.build(wit[:1])
        try:
            db = l2.ops.Operation(l2.ops.OpCode('REM'), l2.qltypes.ConfigScope('DATABASE'), 'sysobj',
                                  {'name': 'zzz'}).apply(l2.spec, E_)
            eb = canon_val(l2.envv.enc_val_for('sysobj', l2.config.lookup('sysobj', E_, inst, spec=l2.spec)))
            ea = canon_val(l2.envv.enc_val_for('sysobj', l2.config.lookup('sysobj', db, inst, spec=l2.spec)))
            if eb != ea:
                ctx.fail('oracle:rem-noop-changes-effective:l2:sysobj',
                         'a filtered RESET (REM) of an absent element at DATABASE scope masks the INSTANCE value',
                         {'l2witness': wit, 'effective_before': eb, 'effective_after': ea})
        except Exception:     # noqa: BLE001 – a rejection is fine
            pass
    # reachability of the level-1 findings through the real compiler (observations only)
    probes = []
    if replay_cases is None:
        mb = l2.build([['SET', 'SESSION', '__internal_sess_testvalue', True]])
        if mb:
            tb_ = l2.ops.to_edgeql(l2.spec, mb, True)
            back, err = l2.replay(tb_)
            probes.append({'operation': 'SET __internal_sess_testvalue := True (bool for int64)', 'to_edgeql': tb_,
                           'replay': 'ok' if err is None else f'rejected at {err[0]} by {exc_name(err[1])}'})
    for text in ["CONFIGURE SESSION SET durprop := <duration>'';",
                 "CONFIGURE SESSION SET durprop := <duration>'PT';",
                 "CONFIGURE SESSION SET memprop := <cfg::memory>-1024;",
                 "CONFIGURE SESSION SET __internal_sess_testvalue := 9223372036854775808;"]:
        back, err = l2.replay(text)
        if err is not None:
            probes.append({'statement': text, 'rejected_at': err[0], 'by': exc_name(err[1])})
            continue
        o = {'statement': text, 'accepted_as': {k: repr(v.value) for k, v in back.items()}}
        try:
            o['json_round_trip'] = l2.config.from_json(l2.spec, l2.config.to_json(l2.spec, back)) == back
        except Exception as e:     # noqa: BLE001
            o['json_round_trip'] = 'raises ' + exc_name(e)
        try:
            l2.ops.to_edgeql(l2.spec, back, True)
            o['to_edgeql'] = 'ok'
        except Exception as e:     # noqa: BLE001
            o['to_edgeql'] = 'raises ' + exc_name(e)
        probes.append(o)
    return {'storages': len(cases) - n_empty, 'statements': n_stmt, 'round_trips_equal': n_ok,
            'finding_reachability_probes': probes if replay_cases is None else [],
            'settings_by_kind': kinds, 'rejections_by_exception_class': l2.rejected,
            'dbview_style_runs_by_scope': l2.pstats['dbview'],
            'op_value_gained__tname': l2.pstats.get('op_value_gained_tname', 0), 'bridge_setup_s': setup_s, 'std_schema': l2.std_info,
            'samples': samples}


# hand-written sequences (documented corners; always run first)
CORPUS = [
    # sibling subtypes sharing the inherited exclusive `name`; `token` exclusive on a subtype only
    [['ADD', 'SESSION', 'provs', {'_tname': 'Smtp', 'name': 'a'}], ['ADD', 'SESSION', 'provs', {'_tname': 'Web', 'name': 'a'}],
     ['ADD', 'SESSION', 'provs', {'_tname': 'Web', 'name': 'b'}], ['ADD', 'SESSION', 'provs', {'name': 'b'}],
     ['ADD', 'SESSION', 'provs', {'_tname': 'Smtps', 'name': 'c', 'token': 't1'}],
     ['ADD', 'SESSION', 'provs', {'_tname': 'Smtp', 'name': 'd', 'token': 't1'}],
     ['ADD', 'SESSION', 'provs', {'_tname': 'Smtp', 'name': 'd', 'token': 't2'}]],
    [['SET', 'DATABASE', 'provs', [{'_tname': 'Smtp', 'name': 'a'}, {'_tname': 'Web', 'name': 'a'}]],
     ['SET', 'DATABASE', 'provs', [{'_tname': 'Smtp', 'name': 'a', 'token': 't1'}, {'_tname': 'Smtps', 'name': 'b', 'token': 't1'}]],
     ['SET', 'DATABASE', 'provs', [{'_tname': 'Smtp', 'name': 'a', 'token': 't1'}, {'_tname': 'Web', 'name': 'b'},
                                   {'_tname': 'Smtps', 'name': 'c', 'token': 't2'}, {'name': 'd'}]]],
    [['SET', 'SESSION', 'i', 11], ['SET', 'SESSION', 'i', '42'], ['SET', 'SESSION', 'i', 42],
     ['SET', 'SESSION', 'ints', [42, 43]]],
    [['ADD', 'INSTANCE', 'objs', {'database': 'f1', 'port': 1}],
     ['ADD', 'INSTANCE', 'objs', {'database': 'f2', 'port': 1}],
     ['REM', 'INSTANCE', 'objs', {'database': 'f1', 'port': 1}],
     ['REM', 'INSTANCE', 'objs', {'database': 'f1', 'port': 1}]],
    [['SET', 'INSTANCE', 'i', 1], ['SET', 'DATABASE', 'i', 2], ['SET', 'SESSION', 'i', 3],
     ['RESET', 'SESSION', 'i', None], ['RESET', 'DATABASE', 'i', None], ['RESET', 'INSTANCE', 'i', None]],
    [['SET', 'SESSION', 'd', 'PT-1H-0.5S'], ['SET', 'DATABASE', 'd', '-1:00:00.5'],
     ['SET', 'INSTANCE', 'd', '1 hour -30 min 5']],
    [['SET', 'SESSION', 'mem', '5MiB'], ['SET', 'DATABASE', 'mem', 1048576], ['SET', 'INSTANCE', 'mem', '0']],
    [['SET', 'SESSION', 'ints', [1, True, 2, 2]], ['SET', 'DATABASE', 'ints', [True, 1]]],
    [['SET', 'SESSION', 'en', 'Disabled'], ['SET', 'SESSION', 'en', 'disabled']],
    [['ADD', 'SESSION', 'auths', {'name': 'a', 'prio': 1}], ['ADD', 'SESSION', 'auths', {'name': 'b', 'prio': True}],
     ['ADD', 'SESSION', 'auths', {'name': 'b', 'quota': '5MiB', 'tags': [1, 2]}],
     ['REM', 'SESSION', 'auths', {'name': 'a'}], ['REM', 'SESSION', 'auths', None]],
    [['ADD', 'SESSION', 'objs', {'database': 'a', 'port': 1, '_tname': 'Auth'}],
     ['ADD', 'SESSION', 'objs', {'name': 'a', '_tname': 'Auth'}],
     ['ADD', 'SESSION', 'objs', {'database': 'a', 'port': 1}]],
    [['SET', 'SESSION', 'objs', [{'database': 'a', 'port': 1}, {'database': 'b', 'port': 1, 'timeout': 'PT-0.5S'}]],
     ['SET', 'SESSION', 'objs', [{'database': 'a', 'port': 1}, {'database': 'a', 'port': 2}]],
     ['SET', 'SESSION', 'objs', []]],
]
