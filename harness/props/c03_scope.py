"""C03 oracle on the describe TEXT, independent of replay.

The DDL / SDL text produced by DESCRIBE is parsed with the real parser and an
independent scope analysis runs over the qlast tree: every reference to a schema
object (path root, type name, function name, global, DML subject, base, target,
abstract constraint / annotation) that is NOT bound by a visible alias / variable
must be fully qualified — otherwise what the text means depends on the replaying
session's current module.

Scoping rules are those of the EdgeQL *compiler* (probed on the real compiler, see
notes/C03.md), not those of edb/edgeql/compiler/normalization.py:

* a WITH alias is visible after its definition (later aliases, the body), NOT inside
  its own defining expression;
* SELECT's result alias is visible in FILTER / ORDER BY / OFFSET / LIMIT; FOR's
  iterator variable in the body; GROUP's subject alias in USING / BY, USING aliases
  sequentially and in BY; FOR GROUP's group/grouping aliases in the result;
* function parameters are visible in the function body (and abstract-constraint
  parameters in its expressions);
* aliases bind PATH ROOTS only: a function name (`f(…)`) and a type position
  (`<T>x`, `x is T`, `[is T]`, `introspect T`, `insert T`, `global g`) are never
  bound by an alias of the same name.

A report is (class, field, kind, name) with kind in
  path | func | type | ref        — plain unqualified reference
  func@alias | type@alias | ref@alias — unqualified AND an alias of that name is visible
                                      (normalization.py skips names that equal a local
                                      name even in positions an alias cannot bind)
"""
from __future__ import annotations

from typing import Any, Callable

BUILTIN_TYPE_CTORS = {'array', 'tuple', 'range', 'multirange', 'enum'}

DDL_CLASS = {
    'ObjectType': 'ObjectType', 'ScalarType': 'ScalarType', 'Alias': 'Alias', 'Global': 'Global',
    'Function': 'Function', 'Constraint': 'Constraint', 'ConcreteConstraint': 'Constraint',
    'Annotation': 'Annotation', 'AnnotationValue': 'AnnotationValue', 'Link': 'Link',
    'ConcreteLink': 'Link', 'Property': 'Property', 'ConcreteProperty': 'Property',
    'ConcreteUnknownPointer': 'Pointer', 'Index': 'Index', 'ConcreteIndex': 'Index',
    'AccessPolicy': 'AccessPolicy', 'Trigger': 'Trigger', 'Rewrite': 'Rewrite', 'Module': 'Module',
}
# commands whose `name` is a reference to another (abstract) object
NAME_IS_REFERENCE = {'ConcreteConstraint', 'AnnotationValue'}
# commands whose `name` is a local (unqualified by design) identifier
NAME_IS_LOCAL = {'ConcreteLink', 'ConcreteProperty', 'ConcreteUnknownPointer', 'ConcreteIndex', 'AccessPolicy',
                 'Trigger', 'Rewrite', 'Module'}


def _cmd_kind(node) -> str | None:
    n = type(node).__name__
    for verb in ('Create', 'Alter', 'Drop'):
        if n.startswith(verb) and n[len(verb):] in DDL_CLASS:
            return n[len(verb):]
    return None


class ScopeChecker:
    def __init__(self, qlast, base):
        self.qlast = qlast
        self.base = base            # edb.common.ast.base
        self.reports: list[tuple[str, str, str, str]] = []
        self.refs_seen = 0
        self.bound_seen = 0
        self.constructs: dict[str, int] = {}
        self._cls = '?'
        self._field = '?'

    # ------------------------------------------------------------- reporting
    def _report(self, kind: str, name: str, scope):
        if name in scope and kind != 'path':
            kind += '@alias'
        self.reports.append((self._cls, self._field, kind, name))

    def _count(self, what):
        self.constructs[what] = self.constructs.get(what, 0) + 1

    # --------------------------------------------------------------- helpers
    def _ref(self, ref, scope, kind):
        """an ObjectRef in a position an alias cannot bind"""
        q = self.qlast
        if not isinstance(ref, q.ObjectRef):
            return
        self.refs_seen += 1
        if not ref.module:
            self._report(kind, ref.name, scope)

    def _type(self, t, scope):
        q = self.qlast
        if t is None:
            return
        if isinstance(t, q.TypeName):
            mt = t.maintype
            if isinstance(mt, q.ObjectRef):
                if not mt.module and mt.name in BUILTIN_TYPE_CTORS and t.subtypes is not None:
                    if mt.name == 'enum':
                        return              # enum<A, B>: labels, not references
                else:
                    self._ref(mt, scope, 'type')
            for st in (t.subtypes or ()):
                self._type(st, scope)
        elif isinstance(t, q.TypeOp):
            self._type(t.left, scope)
            self._type(t.right, scope)
        elif isinstance(t, q.TypeOf):
            self.expr(t.expr, scope)
        elif isinstance(t, q.TypeExprLiteral):
            return
        else:
            self.generic(t, scope)

    def _aliases(self, aliases, scope):
        q = self.qlast
        for a in (aliases or ()):
            if isinstance(a, q.ModuleAliasDecl):
                # describe output never needs one; names under it are not self-contained
                self._report('with-module', a.module, scope)
            else:
                self._count('with-alias')
                if a.alias in scope:
                    self._count('with-alias-shadows-outer')
                self.expr(a.expr, scope)          # NOT visible in its own definition
                scope = scope | {a.alias}
        return scope

    # ------------------------------------------------------------ expressions
    def expr(self, node: Any, scope: frozenset):
        q = self.qlast
        if node is None:
            return
        if isinstance(node, (list, tuple)):
            for x in node:
                self.expr(x, scope)
            return
        if isinstance(node, dict):
            for x in node.values():
                self.expr(x, scope)
            return
        if not self.base.is_ast_node(node):
            return
        if isinstance(node, q.Path):
            steps = list(node.steps)
            if steps and isinstance(steps[0], q.ObjectRef):
                r = steps[0]
                self.refs_seen += 1
                if not r.module:
                    if r.name in scope:
                        self.bound_seen += 1
                    else:
                        self._report('path', r.name, scope)
                steps = steps[1:]
            for s in steps:
                if isinstance(s, q.TypeIntersection):
                    self._type(s.type, scope)
                elif isinstance(s, q.Ptr):
                    pass
                else:
                    self.expr(s, scope)
            return
        if isinstance(node, q.ObjectRef):
            # a bare ObjectRef outside a Path: a type/object position
            self._ref(node, scope, 'ref')
            return
        if isinstance(node, q.FunctionCall):
            self.refs_seen += 1
            if isinstance(node.func, str):
                self._report('func', node.func, scope)
            self.expr(node.args, scope)
            self.expr(node.kwargs, scope)
            if node.window is not None:
                self.generic(node.window, scope)
            return
        if isinstance(node, q.TypeCast):
            self._type(node.type, scope)
            self.expr(node.expr, scope)
            return
        if isinstance(node, q.IsOp):
            self.expr(node.left, scope)
            self._type(node.right, scope)
            return
        if isinstance(node, q.Introspect):
            self._type(node.type, scope)
            return
        if isinstance(node, q.TypeExpr):
            self._type(node, scope)
            return
        if isinstance(node, q.GlobalExpr):
            self._ref(node.name, scope, 'ref')
            return
        if isinstance(node, q.Shape):
            self.expr(node.expr, scope)
            for el in node.elements:
                self.shape_element(el, scope)
            return
        if isinstance(node, q.ShapeElement):
            self.shape_element(node, scope)
            return
        if isinstance(node, q.SelectQuery):
            s = self._aliases(node.aliases, scope)
            self.expr(node.result, s)
            if node.result_alias:
                self._count('select-result-alias')
                s = s | {node.result_alias}
            for f in ('where', 'orderby', 'offset', 'limit'):
                self.expr(getattr(node, f), s)
            return
        if isinstance(node, q.ForQuery):
            self._count('for')
            s = self._aliases(node.aliases, scope)
            self.expr(node.iterator, s)
            s2 = s | {node.iterator_alias}
            self.expr(node.result, s2)
            return
        if isinstance(node, (q.GroupQuery, q.InternalGroupQuery)):
            self._count('group')
            s = self._aliases(node.aliases, scope)
            self.expr(node.subject, s)
            if node.subject_alias:
                s = s | {node.subject_alias}
            for u in (node.using or ()):
                self._count('group-using-alias')
                self.expr(u.expr, s)
                s = s | {u.alias}
            self.grouping(node.by, s)
            if isinstance(node, q.InternalGroupQuery):
                s2 = s | {node.group_alias} | ({node.grouping_alias} if node.grouping_alias else set())
                self.expr(node.result, s2)
                if node.result_alias:
                    s2 = s2 | {node.result_alias}
                self.expr(node.where, s2)
                self.expr(node.orderby, s2)
            return
        if isinstance(node, q.InsertQuery):
            s = self._aliases(node.aliases, scope)
            self._ref(node.subject, s, 'ref')
            for el in node.shape:
                self.shape_element(el, s)
            if node.unless_conflict:
                self.expr(list(node.unless_conflict), s)
            return
        if isinstance(node, (q.UpdateQuery, q.DeleteQuery)):
            s = self._aliases(node.aliases, scope)
            self.expr(node.subject, s)
            for f in ('where', 'orderby', 'offset', 'limit'):
                self.expr(getattr(node, f, None), s)
            for el in getattr(node, 'shape', None) or ():
                self.shape_element(el, s)
            return
        self.generic(node, scope)

    def grouping(self, els, scope):
        q = self.qlast
        for el in (els or ()):
            if isinstance(el, q.ObjectRef):
                self.refs_seen += 1
                if el.module or el.name not in scope:
                    if not el.module:
                        self._report('path', el.name, scope)
                else:
                    self.bound_seen += 1
            elif isinstance(el, q.Path):
                self.expr(el, scope)
            elif isinstance(el, q.GroupingSimple):
                self.grouping([el.element], scope)
            elif isinstance(el, q.GroupingSets):
                self.grouping(el.sets, scope)
            elif isinstance(el, q.GroupingOperation):
                self.grouping(el.elements, scope)
            elif isinstance(el, q.GroupingIdentList):
                self.grouping(el.elements, scope)
            else:
                self.expr(el, scope)

    def shape_element(self, el, scope):
        q = self.qlast
        # el.expr: the pointer path (names of pointers, not references) — only type intersections count
        for s in el.expr.steps:
            if isinstance(s, q.TypeIntersection):
                self._type(s.type, scope)
        if el.compexpr is not None:
            self._count('shape-computed')
        self.expr(el.compexpr, scope)
        for sub in (el.elements or ()):
            self.shape_element(sub, scope)
        for f in ('where', 'orderby', 'offset', 'limit'):
            self.expr(getattr(el, f), scope)

    def generic(self, node, scope):
        for _f, v in self.base.iter_fields(node, include_meta=False):
            self.expr(v, scope)

    # -------------------------------------------------------------------- DDL
    def ddl(self, node, *, in_sdl_module: bool = False, scope: frozenset = frozenset()):
        q = self.qlast
        if isinstance(node, (list, tuple)):
            for x in node:
                self.ddl(x, in_sdl_module=in_sdl_module, scope=scope)
            return
        if isinstance(node, q.Schema):
            self.ddl(node.declarations, scope=scope)
            return
        if isinstance(node, q.ModuleDeclaration):
            self.ddl(node.declarations, in_sdl_module=True, scope=scope)
            return
        if isinstance(node, q.SetField):
            saved = self._field
            self._field = node.name
            self.expr(node.value, scope)
            self._field = saved
            return
        kind = _cmd_kind(node)
        if kind is None:
            if isinstance(node, q.DDLOperation):
                saved = self._field
                self._field = type(node).__name__
                for f, v in self.base.iter_fields(node, include_meta=False):
                    if f == 'commands':
                        self.ddl(v, in_sdl_module=in_sdl_module, scope=scope)
                    else:
                        self.expr(v, scope)
                self._field = saved
            else:
                self.expr(node, scope)
            return
        saved = (self._cls, self._field)
        self._cls = DDL_CLASS[kind]
        inner = scope
        name = getattr(node, 'name', None)
        top_level = kind not in NAME_IS_LOCAL and kind not in NAME_IS_REFERENCE
        if isinstance(name, q.ObjectRef):
            self._field = 'name'
            if kind in NAME_IS_REFERENCE:
                self._ref(name, scope, 'ref')
            elif top_level and not in_sdl_module and kind != 'Module':
                self._ref(name, scope, 'ref')
        # parameters bind names in the body
        params = getattr(node, 'params', None)
        if params:
            for p in params:
                self._field = 'params'
                self._type(p.type, scope)
                self.expr(p.default, scope)
            inner = scope | {p.name for p in params}
        for f, v in self.base.iter_fields(node, include_meta=False):
            if f in ('name', 'params', 'aliases'):
                continue
            self._field = f
            if f == 'commands':
                self.ddl(v, in_sdl_module=False, scope=inner)
            elif f == 'bases':
                for b in (v or ()):
                    self._type(b, scope)
            elif f in ('returning',):
                self._type(v, scope)
            elif f == 'target':
                if isinstance(v, q.TypeExpr):
                    self._type(v, scope)
                else:
                    self.expr(v, inner)
            elif f == 'code':
                self.expr(getattr(v, 'nativecode', None), inner)
            else:
                self.expr(v, inner)
        self._cls, self._field = saved


def check_text(R, text: str, lang: str):
    """-> (reports, stats) for a DDL block or an SDL document produced by DESCRIBE"""
    from edb.common.ast import base
    chk = ScopeChecker(R.qlast, base)
    if lang == 'ddl':
        tree = R.edgeql.parse_block(text)
    else:
        tree = R.qlparser.parse_sdl(text)
    chk.ddl(tree)
    return chk.reports, {'refs': chk.refs_seen, 'bound': chk.bound_seen, **chk.constructs}
