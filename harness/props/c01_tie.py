"""C01 part (B): proof stage + token-level tie between the Lean model (EdbVerif.QL) and the real code.

  T1 printer : tokens(real tokenizer(real generate_source(qlast(e))))  ==  model `pp e`
  T2 parser  : abstract(real parse_fragment(text))                     ==  model `parse tokens(text)`
               for printed texts AND for un-parenthesised operator chains (validates the generated
               precedence table against the real LR tables), accept/reject included
  T3 witness : the Lean counterexample theorems are replayed on the real printer + parser
"""
from __future__ import annotations

import os
import re

from lib import core


def proof_stage(ctx, props, required):
    from gen import prec
    try:
        changed, T = prec.generate()
    except Exception as e:            # translator cannot express the current grammar
        ctx.proof['broken'] = [f'harness/gen/prec.py failed: {type(e).__name__}: {e}']
        ctx.proof.update({'obligations': 0, 'discharged': 0, 'theorems': {}, 'checker_cmd': ''})
        return False
    ctx.log('Gen/Prec.lean', 'regenerated (changed)' if changed else 'unchanged')
    ctx._c01_table = T
    if not os.path.exists(os.path.join(core.LEAN_DIR, props)):
        ctx.proof['broken'] = ['Props/C01.lean missing']
        return False
    return ctx.proof_stage(props, ['EdbVerif.Props.C01', 'Driver.C01'], required=required, gen_obligations=1)


# ------------------------------------------------------------------------------ encodings
def hx(s) -> str:
    b = s if isinstance(s, (bytes, bytearray)) else s.encode('utf-8')
    return b.hex() or '00ff'          # never an empty word on the wire (00ff is not valid UTF-8 text payload)


P_TEXT = {}          # source text -> Lean P name


def _init_tables(T):
    if P_TEXT:
        return
    from gen import prec
    for name, text in T['tm'].items():
        if name.lower() in prec.P_NAMES:
            P_TEXT[text] = name.lower()


LIT_KIND = {'IntConst': 'i', 'FloatConst': 'f', 'BigIntConst': 'n', 'DecimalConst': 'd', 'Str': 's', 'BinStr': 'b'}


def abstract_tokens(lexres):
    """real tokens -> protocol words; None when a token is outside the model's vocabulary"""
    if lexres.error:
        return None
    out = []
    for t in lexres.toks:
        if t.kind == 'EOI':
            continue
        m = re.fullmatch(r'Keyword\(Keyword\("([^"]+)"\)\)', t.kind)
        if m:
            out.append('k:' + m.group(1).upper())
        elif t.kind == 'Ident':
            out.append('i:' + hx(t.value))
        elif t.kind == 'Parameter':
            out.append('$:' + hx(t.value))
        elif t.kind in LIT_KIND:
            tag = LIT_KIND[t.kind]
            out.append(f'l:{tag}:' + (hx(t.value) if tag in 'sb' else hx(t.text)))
        elif t.text in P_TEXT:
            out.append('p:' + P_TEXT[t.text])
        else:
            return None
    return out


# model expressions on the Python side: nested tuples
#   ('atom', word) ('name', s) ('num', negs, tag, text) ('unop', op, e) ('binop', leanname, l, r)
#   ('isop', neg, l, ty) ('ifelse', py, c, a, b) ('cast', ty, e) ('detached', e) ('call', f, [..])
#   ('tuple', [..]) ('array', [..]) ('set', [..]) ('index', a, [..]) ('path', base, [step names, >= 1])
def sexp(e) -> str:
    k = e[0]
    if k == 'atom':
        return f'( atom {e[1]} )'
    if k == 'name':
        return f'( name {hx(e[1])} )'
    if k == 'num':
        return f'( num {e[1]} {e[2]} {hx(e[3])} )'
    if k == 'unop':
        return f'( unop {e[1]} {sexp(e[2])} )'
    if k == 'binop':
        return f'( binop {e[1]} {sexp(e[2])} {sexp(e[3])} )'
    if k == 'isop':
        return f'( isop {int(e[1])} {sexp(e[2])} {hx(e[3])} )'
    if k == 'ifelse':
        return f'( ifelse {int(e[1])} {sexp(e[2])} {sexp(e[3])} {sexp(e[4])} )'
    if k == 'cast':
        return f'( cast {hx(e[1])} {sexp(e[2])} )'
    if k == 'detached':
        return f'( detached {sexp(e[1])} )'
    if k == 'call':
        return '( call ' + hx(e[1]) + ''.join(' ' + sexp(a) for a in e[2]) + ' )'
    if k in ('tuple', 'array', 'set'):
        return f'( {k}' + ''.join(' ' + sexp(a) for a in e[1]) + ' )'
    if k == 'index':
        return '( index ' + sexp(e[1]) + ''.join(' ' + sexp(a) for a in e[2]) + ' )'
    if k == 'path':
        return '( path ' + sexp(e[1]) + ''.join(' ' + hx(a) for a in e[2]) + ' )'
    raise ValueError(k)


UOPS = {'minus': '-', 'plus': '+', 'not': 'NOT', 'exists': 'EXISTS', 'distinct': 'DISTINCT'}
UOPS_INV = {v: k for k, v in UOPS.items()}
NUMKIND = {'i': 'INTEGER', 'f': 'FLOAT', 'n': 'BIGINT', 'd': 'DECIMAL'}
NUMKIND_INV = {v: k for k, v in NUMKIND.items()}


def to_qlast(e, T):
    from edb.edgeql import ast as ql
    k = e[0]
    if k == 'atom':
        w = e[1]
        if w.startswith('l:s:'):
            return ql.Constant.string(bytes.fromhex(w[4:]).decode('utf-8'))
        if w.startswith('l:b:'):
            return ql.BytesConstant(value=bytes.fromhex(w[4:]) if w[4:] != '00ff' else b'')
        if w in ('k:TRUE', 'k:FALSE'):
            return ql.Constant.boolean(w == 'k:TRUE')
        if w.startswith('$:'):
            return ql.Parameter(name=bytes.fromhex(w[2:]).decode())
        raise ValueError(w)
    if k == 'name':
        return ql.Path(steps=[ql.ObjectRef(name=e[1])])
    if k == 'num':
        return ql.Constant(kind=getattr(ql.ConstantKind, NUMKIND[e[2]]), value='-' * e[1] + e[3])
    if k == 'unop':
        return ql.UnaryOp(op=UOPS[e[1]], operand=to_qlast(e[2], T))
    if k == 'binop':
        return ql.BinOp(left=to_qlast(e[2], T), op=T['_ast_of'][e[1]], right=to_qlast(e[3], T))
    if k == 'isop':
        return ql.IsOp(left=to_qlast(e[2], T), op='IS NOT' if e[1] else 'IS',
                       right=ql.TypeName(maintype=ql.ObjectRef(name=e[3])))
    if k == 'ifelse':
        return ql.IfElse(condition=to_qlast(e[2], T), if_expr=to_qlast(e[3], T), else_expr=to_qlast(e[4], T),
                         python_style=bool(e[1]))
    if k == 'cast':
        return ql.TypeCast(type=ql.TypeName(maintype=ql.ObjectRef(name=e[1])), expr=to_qlast(e[2], T))
    if k == 'detached':
        return ql.DetachedExpr(expr=to_qlast(e[1], T))
    if k == 'call':
        return ql.FunctionCall(func=e[1], args=[to_qlast(a, T) for a in e[2]])
    if k == 'tuple':
        return ql.Tuple(elements=[to_qlast(a, T) for a in e[1]])
    if k == 'array':
        return ql.Array(elements=[to_qlast(a, T) for a in e[1]])
    if k == 'set':
        return ql.Set(elements=[to_qlast(a, T) for a in e[1]])
    if k == 'index':
        return ql.Indirection(arg=to_qlast(e[1], T), indirection=[ql.Index(index=to_qlast(a, T)) for a in e[2]])
    if k == 'path':
        from edb.schema import pointers as s_pointers
        base = to_qlast(e[1], T)
        # what `ensure_path` + `reduce_Expr_PathStep` build: an ObjectRef base IS the first step of the Path
        steps = list(base.steps) if isinstance(base, ql.Path) else [base]
        return ql.Path(steps=steps + [ql.Ptr(name=s, direction=s_pointers.PointerDirection.Outbound) for s in e[2]])
    raise ValueError(k)


class Unmodelled(Exception):
    pass


def from_qlast(n, T):
    """real AST -> model expression; raises Unmodelled outside the core"""
    from edb.edgeql import ast as ql
    if isinstance(n, ql.Constant):
        if n.kind == ql.ConstantKind.STRING:
            return ('atom', 'l:s:' + hx(n.value))
        if n.kind == ql.ConstantKind.BOOLEAN:
            return ('atom', 'k:' + n.value.upper())
        v = n.value
        negs = len(v) - len(v.lstrip('-'))
        return ('num', negs, NUMKIND_INV[n.kind.name], v[negs:])
    if isinstance(n, ql.BytesConstant):
        return ('atom', 'l:b:' + hx(n.value))
    if isinstance(n, ql.Parameter):
        return ('atom', '$:' + hx(n.name))
    if isinstance(n, ql.Path):
        if len(n.steps) == 1 and isinstance(n.steps[0], ql.ObjectRef) and not n.steps[0].module and not n.partial \
                and n.steps[0].itemclass is None:
            if n.steps[0].name.upper() == 'THEN':
                # THEN is an UNRESERVED keyword: the real grammar also accepts it as a name (`IF c THEN THEN - 1 …`);
                # the model's token vocabulary has it as a keyword only
                raise Unmodelled('unreserved keyword used as a name')
            return ('name', n.steps[0].name)
        if len(n.steps) > 1 and not n.partial:
            names = []
            for st in n.steps[1:]:
                if not (isinstance(st, ql.Ptr) and st.type is None and str(st.direction or '>') == '>'
                        and isinstance(st.name, str) and st.name and not st.name[0].isdigit()
                        and st.name.upper() != 'THEN'):
                    raise Unmodelled('Path step')         # @prop, .<back, [IS T], .0, keyword-named steps
            names = [st.name for st in n.steps[1:]]
            b = n.steps[0]
            if isinstance(b, ql.ObjectRef):
                base = from_qlast(ql.Path(steps=[b]), T)
            elif isinstance(b, ql.Path):
                raise Unmodelled('Path base is a Path')   # never built by the parser (ensure_path flattens)
            else:
                base = from_qlast(b, T)
            return ('path', base, names)
        raise Unmodelled('Path')
    if isinstance(n, ql.UnaryOp):
        if n.op not in UOPS_INV:
            raise Unmodelled('UnaryOp ' + n.op)
        return ('unop', UOPS_INV[n.op], from_qlast(n.operand, T))
    if isinstance(n, ql.BinOp):
        if n.op not in T['_lean_of']:
            raise Unmodelled('BinOp ' + n.op)
        return ('binop', T['_lean_of'][n.op], from_qlast(n.left, T), from_qlast(n.right, T))
    if isinstance(n, ql.IsOp):
        r = n.right
        if isinstance(r, ql.TypeName) and isinstance(r.maintype, ql.ObjectRef) and not r.maintype.module \
                and r.subtypes is None and r.name is None:
            return ('isop', n.op == 'IS NOT', from_qlast(n.left, T), r.maintype.name)
        raise Unmodelled('IsOp type')
    if isinstance(n, ql.IfElse):
        return ('ifelse', bool(n.python_style), from_qlast(n.condition, T), from_qlast(n.if_expr, T),
                from_qlast(n.else_expr, T))
    if isinstance(n, ql.TypeCast):
        r = n.type
        if n.cardinality_mod is None and isinstance(r, ql.TypeName) and isinstance(r.maintype, ql.ObjectRef) \
                and not r.maintype.module and r.subtypes is None and r.name is None:
            return ('cast', r.maintype.name, from_qlast(n.expr, T))
        raise Unmodelled('TypeCast')
    if isinstance(n, ql.DetachedExpr):
        return ('detached', from_qlast(n.expr, T))
    if isinstance(n, ql.FunctionCall):
        if isinstance(n.func, str) and not n.kwargs and n.window is None:
            return ('call', n.func, [from_qlast(a, T) for a in n.args])
        raise Unmodelled('FunctionCall')
    if isinstance(n, ql.Tuple):
        return ('tuple', [from_qlast(a, T) for a in n.elements])
    if isinstance(n, ql.Array):
        return ('array', [from_qlast(a, T) for a in n.elements])
    if isinstance(n, ql.Set):
        return ('set', [from_qlast(a, T) for a in n.elements])
    if isinstance(n, ql.Indirection):
        if all(isinstance(i, ql.Index) for i in n.indirection):
            return ('index', from_qlast(n.arg, T), [from_qlast(i.index, T) for i in n.indirection])
        raise Unmodelled('Slice')
    raise Unmodelled(type(n).__name__)


# ------------------------------------------------------------------------------ generators
NAMES = ['a', 'b', 'x', 'y', 'z1', 'Foo']
TYPES = ['T', 'int64', 'str']
FUNCS = ['f', 'count', 'g2']
ATOMS = [('atom', 'l:s:' + hx('s')), ('atom', 'l:s:' + hx("it's")), ('atom', 'l:b:' + hx(b'\x00a')),
         ('atom', 'k:TRUE'), ('atom', 'k:FALSE'), ('atom', '$:' + hx('p')), ('atom', '$:' + hx('0'))]
NUMS = [('i', '1'), ('i', '0'), ('i', '42'), ('f', '1.5'), ('f', '1e10'), ('n', '7n'), ('d', '2.5n')]


def gen_expr(rng, depth, T, safe_plus=True):
    k = rng.random()
    if depth <= 0 or k < 0.2:
        j = rng.random()
        if j < 0.4:
            return ('name', rng.choice(NAMES))
        if j < 0.75:
            tag, txt = rng.choice(NUMS)
            return ('num', rng.choice([0, 0, 0, 1, 1, 2]), tag, txt)
        return rng.choice(ATOMS)
    sub = lambda: gen_expr(rng, depth - 1, T)
    if k < 0.5:
        return ('binop', rng.choice(T['_lean_names']), sub(), sub())
    if k < 0.62:
        op = rng.choice(list(UOPS))
        e = sub()
        if op == 'minus' and e[0] == 'num':
            return ('num', e[1] + 1, e[2], e[3])          # parser normal form
        if op == 'plus' and (e[0] == 'unop' and e[1] == 'plus'):
            op = 'not'                                       # `++` would fuse lexically (reported by part A)
        return ('unop', op, e)
    if k < 0.68:
        return ('isop', rng.random() < 0.4, sub(), rng.choice(TYPES))
    if k < 0.76:
        return ('ifelse', rng.random() < 0.6, sub(), sub(), sub())
    if k < 0.82:
        return ('cast', rng.choice(TYPES), sub())
    if k < 0.85:
        return ('detached', sub())
    if k < 0.9:
        return ('call', rng.choice(FUNCS), [sub() for _ in range(rng.randint(0, 3))])
    if k < 0.94:
        return (rng.choice(['tuple', 'array', 'set']), [sub() for _ in range(rng.randint(0, 3))])
    if k < 0.97:
        b = sub()
        steps = [rng.choice(NAMES) for _ in range(rng.choice([1, 1, 2, 3]))]
        if b[0] == 'path':
            return ('path', b[1], b[2] + steps)              # parser normal form (ensure_path)
        return ('path', b, steps)
    a = sub()
    if a[0] == 'index':
        a = ('name', 'q')
    return ('index', a, [sub() for _ in range(rng.randint(1, 2))])


def gen_chain(rng, T, n):
    """un-parenthesised token soup inside the core vocabulary (mostly well-formed chains)"""
    ops = [b[1] for b in T['binops']]
    pre = ['-', '+', 'NOT', 'EXISTS', 'DISTINCT', 'DETACHED', '<T>', '<int64>']
    out = []

    def operand(d):
        for _ in range(rng.choice([0, 0, 0, 1, 1, 2])):
            out.append(rng.choice(pre))
        j = rng.random()
        if j < 0.55 or d <= 0:
            out.append(rng.choice(NAMES + ['1', '2.5', "'s'", '$p', 'true', '3n']))
        elif j < 0.7:
            out.append('(')
            chain(d - 1, rng.randint(1, 3))
            if rng.random() < 0.15:
                out.append(',')
                if rng.random() < 0.5:
                    chain(d - 1, 1)
            out.append(')')
        elif j < 0.78:
            out.append(rng.choice(FUNCS))
            out.append('(')
            for i in range(rng.randint(0, 2)):
                if i:
                    out.append(',')
                chain(d - 1, rng.randint(1, 2))
            out.append(')')
        elif j < 0.86:
            br = rng.choice(['[]', '{}'])
            out.append(br[0])
            for i in range(rng.randint(0, 2)):
                if i:
                    out.append(',')
                chain(d - 1, rng.randint(1, 2))
            out.append(br[1])
        else:
            out.extend(['IF'])
            chain(d - 1, rng.randint(1, 2))
            out.append('THEN')
            chain(d - 1, rng.randint(1, 2))
            out.append('ELSE')
            chain(d - 1, rng.randint(1, 2))
        while rng.random() < 0.2:
            if rng.random() < 0.55:
                out.append('[')
                chain(d - 1, 1)
                out.append(']')
            else:
                out.extend(['.', rng.choice(NAMES)])

    def chain(d, k):
        operand(d)
        for _ in range(k - 1):
            j = rng.random()
            if j < 0.78:
                out.append(rng.choice(ops))
                operand(d)
            elif j < 0.88:
                out.extend(['IS'] + (['NOT'] if rng.random() < 0.4 else []) + [rng.choice(TYPES)])
            else:
                out.append('IF')
                chain(d - 1, rng.randint(1, 2))
                out.append('ELSE')
                operand(d)

    chain(2, n)
    if rng.random() < 0.08 and out:               # damage: drop / duplicate a token
        i = rng.randrange(len(out))
        if rng.random() < 0.5:
            del out[i]
        else:
            out.insert(i, out[i])
    return ' '.join(out)


# ------------------------------------------------------------------------------ the tie
def run_tie(ctx, replay=False):
    from edb.edgeql import parser as qlparser, codegen as qlcodegen
    from . import c01_rt as rt
    T = getattr(ctx, '_c01_table', None)
    if T is None:
        from gen import prec
        T = prec.extract()
    _init_tables(T)
    T['_ast_of'] = {b[0]: b[1] for b in T['binops']}
    T['_lean_of'] = {b[1]: b[0] for b in T['binops']}
    T['_lean_names'] = [b[0] for b in T['binops']]
    rng = ctx.rng
    cov = {}

    # ---- T1: printer --------------------------------------------------------------------
    exprs = []
    # every binary operator pair, both nestings (model level) + prefix operators inside/outside
    names = T['_lean_names']
    x, y, z = ('name', 'x'), ('name', 'y'), ('name', 'z')
    for a in names:
        for b in (names if not ctx.quick() else rng.sample(names, 6)):
            exprs.append(('binop', a, ('binop', b, x, y), z))
            exprs.append(('binop', a, x, ('binop', b, y, z)))
    for u in UOPS:
        for a in names:
            exprs.append(('binop', a, ('unop', u, x), y))
            exprs.append(('unop', u, ('binop', a, x, y)))
            exprs.append(('binop', a, x, ('unop', u, y)))
    for a in names:
        exprs.append(('binop', a, ('num', 1, 'i', '1'), y))
        exprs.append(('binop', a, ('cast', 'T', ('num', 1, 'i', '1')), y))
        exprs.append(('binop', a, ('cast', 'T', x), y))
        exprs.append(('binop', a, ('detached', x), y))
        exprs.append(('isop', False, ('binop', a, x, y), 'T'))
        exprs.append(('ifelse', True, ('binop', a, x, y), ('binop', a, y, z), ('binop', a, z, x)))
    # pointer steps: every kind of base (bare / parenthesised by visit_Path), under every prefix operator,
    # on either side of every binary operator, with / under an index
    pxy, pxyz = ('path', x, ['y']), ('path', x, ['y', 'z'])
    one = ('num', 0, 'i', '1')
    bases = [x, ('set', [one]), ('set', []), ('tuple', [one, one]), ('tuple', [one]), ('tuple', []),
             ('array', [one]), ('call', 'f', [one]), ('call', 'f', []), one, ('num', 1, 'i', '1'),
             ('index', x, [one]), ('index', pxy, [one]), ('detached', x), ('cast', 'T', x),
             ('ifelse', True, x, y, z), ('ifelse', False, x, y, z), ('isop', False, x, 'T'),
             ('binop', names[0], x, y)] + ATOMS + [('unop', u, x) for u in UOPS]
    for b in bases:
        exprs.append(('path', b, ['y']))
        exprs.append(('path', b, ['y', 'a', 'b']))
        exprs.append(('index', ('path', b, ['y']), [one]))
    for pth in (pxy, pxyz):
        for u in UOPS:
            exprs.append(('unop', u, pth))
        exprs.append(('detached', pth))
        exprs.append(('cast', 'T', pth))
        exprs.append(('isop', True, pth, 'T'))
        exprs.append(('index', x, [pth, pth]))
        for a in names:
            exprs.append(('binop', a, pth, y))
            exprs.append(('binop', a, y, pth))
            exprs.append(('path', ('binop', a, x, y), ['z']))
    for i in range(ctx.budget(900, 40000)):
        exprs.append(gen_expr(rng, rng.randint(1, 4), T))
    if replay:
        exprs = exprs[:200]
    texts, lines = [], []
    for e in exprs:
        q = to_qlast(e, T)
        texts.append(qlcodegen.generate_source(q, pretty=rng.random() < 0.5))
        lines.append('pp ' + sexp(e))
    lex = rt.safe_lex_many(texts)
    model_pp = ctx.driver('C01', lines + ['rt ' + sexp(e) for e in exprs])
    n = len(exprs)
    model_rt = model_pp[n:]
    model_pp = model_pp[:n]
    n_dis = 0
    rt_hist = {'ok': 0, 'differs': 0, 'none': 0}
    for e, text, lx, mp, mrt in zip(exprs, texts, lex, model_pp, model_rt):
        real = abstract_tokens(lx)
        real_line = ' '.join(real) if real else ('-' if real == [] else f'<unlexable: {lx.error}>')
        if real_line != mp:
            n_dis += 1
            ctx.fail('tie-printer:' + sexp(e)[:150], 'model pp and real printer token streams differ',
                     {'expr': sexp(e), 'real_text': text, 'real_tokens': real_line, 'model_tokens': mp,
                      'stream': 'generate_source + tokenizer.rs vs EdbVerif.QL.pp'}, no_input=True)
            continue
        # round trip on the real side, abstracted, must equal the model's verdict
        try:
            a2 = qlparser.parse_fragment(text)
            try:
                back = sexp(from_qlast(a2, T))
                real_rt = 'ok' if back == sexp(e) else 'differs ' + back
            except Unmodelled as u:
                real_rt = f'unmodelled {u}'
        except Exception as ex:
            real_rt = 'none'
        rt_hist[mrt.split(' ')[0]] = rt_hist.get(mrt.split(' ')[0], 0) + 1
        if real_rt != mrt:
            n_dis += 1
            ctx.fail('tie-roundtrip:' + sexp(e)[:150], 'model and real code disagree about the round trip of an AST',
                     {'expr': sexp(e), 'real_text': text, 'real': real_rt, 'model': mrt}, no_input=True)
    cov['printer_cases'] = n
    cov['model_roundtrip_verdicts'] = rt_hist

    # ---- T2: parser on un-parenthesised chains ----------------------------------------------
    chains = [gen_chain(rng, T, rng.randint(1, 6)) for _ in range(ctx.budget(1500, 60000))]
    # all ordered operator pairs / triples without parentheses
    ops = [b[1] for b in T['binops']]
    pre = ['-', '+', 'NOT', 'EXISTS', 'DISTINCT', 'DETACHED', '<T>']
    for a in ops:
        for b in ops:
            chains.append(f'x {a} y {b} z')
    for p in pre:
        for a in ops:
            chains.append(f'{p} x {a} y')
            chains.append(f'x {a} {p} y {rng.choice(ops)} z')
        chains.append(f'{p} x IS T')
        chains.append(f'{p} x IF y ELSE z')
        chains.append(f'{p} x [ 1 ]')
        for p2 in pre:
            chains.append(f'{p} {p2} x')
    for p in pre:
        chains += [f'{p} x . y', f'{p} x . y . z', f'{p} x [ 1 ] . y', f'{p} x . y [ 1 ]', f'{p} ( x . y )',
                   f'{p} x . y IS T', f'{p} x . y IF c ELSE z . w']
    chains += ['x . y', '( x ) . y', '( x . y ) . z', '{ 1 } . y', '{ } . y', '( 1 , 2 ) . y', '( ) . y', '$p . y',
               "'s' . y", 'true . y', 'f ( 1 ) . y', '[ 1 ] . y', '( 1 ) . y', 'x . y ( 1 )', 'x . f ( 1 )',
               'x . . y', 'x .', '. y', 'x . y .', 'x [ 1 ] . y [ 2 ] . z', 'x . y . z [ 1 ] . w', 'x . 1',
               'x . ( y )', 'x IF c . d ELSE y . z', 'IF c . d THEN x . y ELSE z . w', 'x . y , z']
    for a in ops:
        chains += [f'x {a} y . z', f'x . y {a} z', f'x . y {a} z . w', f'x {a} y [ 1 ] . z', f'( x {a} y ) . z']
    for a in ops:
        chains += [f'x {a} y IS T', f'x IS T {a} y', f'x IS NOT T {a} y', f'x {a} y IF c ELSE z', f'x IF c ELSE y {a} z',
                   f'IF c THEN x ELSE y {a} z', f'x {a} y [ 1 ]', f'x [ 1 ] {a} y', f'x IF c {a} d ELSE y']
    if replay:
        chains = chains[:300]
    lex = rt.safe_lex_many(chains)
    lines, keep = [], []
    n_vocab_skip = 0
    for text, lx in zip(chains, lex):
        words = abstract_tokens(lx)
        if words is None:
            n_vocab_skip += 1
            continue
        keep.append(text)
        lines.append('parse ' + (' '.join(words) or '-'))
    model = ctx.driver('C01', lines)
    hist = {'both-accept': 0, 'both-reject': 0, 'unmodelled': 0}
    for text, mline in zip(keep, model):
        try:
            a = qlparser.parse_fragment(text)
            try:
                real = sexp(from_qlast(a, T))
            except Unmodelled:
                hist['unmodelled'] += 1
                continue
        except Exception:
            real = 'none'
        if real != mline:
            n_dis += 1
            ctx.fail('tie-parser:' + text[:150], 'model parser and real parser disagree',
                     {'text': text, 'real': real, 'model': mline,
                      'stream': 'parse_fragment (bridge LR tables from the real grammar) vs EdbVerif.QL.parse'},
                     no_input=True)
        else:
            hist['both-reject' if real == 'none' else 'both-accept'] += 1
    cov['parser_cases'] = len(keep)
    cov['parser_outcomes'] = hist
    cov['disagreements_model_vs_impl'] = n_dis

    # ---- T3: Lean counterexample witnesses on the real code -----------------------------------
    witnesses = {
        'C01_roundtrip_counterexample_neg_pow': ('select (-1) ^ x', 'ast-diff'),
        'C01_roundtrip_counterexample_not_eq': ('select (not a) = b', 'ast-diff'),
        'C01_roundtrip_counterexample_detached_index': ('select detached (x[1])', 'ast-diff'),
        'C01_roundtrip_counterexample_detached_path': ('select detached (x.y)', 'ast-diff'),
    }
    wres = {}
    for name, (text, want) in witnesses.items():
        r = rt.roundtrip_text('block', text, {})
        wres[name] = r.status
        if r.status != want:
            ctx.fail('tie-witness:' + name, 'a Lean counterexample witness does not behave on the real code as proved '
                     'for the model', {'text': text, 'real_status': r.status, 'expected': want}, no_input=True)
    cov['witnesses'] = wres
    ctx.log(f'tie: printer {n} cases, parser {len(keep)} cases {hist}, disagreements {n_dis}, witnesses {wres}')
    return cov
