"""C17 — compiler workers always compile against the caller's current state.

Proof: lean/EdbVerif/Props/C17.lean over Model/Sync.lean.

Tie (level 1): a REAL ``FixedPool`` / ``SimpleAdaptivePool`` with 2–3 REAL
``Worker`` objects talks, through an in-process transport, to REAL instances of
``compiler_pool/worker.py`` driven by the REAL ``worker_proc.worker`` loop
(lib/c17rig.py).  Random and exhaustive request histories are executed on that
rig; after every request the wire contents, the outcome, what the worker-side
compiler received and the complete belief/actual state of every worker are
compared with the Lean model (driver C17).

Oracle (independent of the model, on the real objects):
  U  the tuple the worker-side compiler received == the tuple the caller supplied;
  B  after every request: belief says x  ⇒  the worker holds x (every worker, every slot);
  X  a REUSE marker reaches only a worker whose LAST_STATE is the supplied state,
     and in general the compiler state / root schema used in a transaction are
     the supplied ones.
After the repairs 2709780 / 03eafed / ae526a3 the real code still violates B and U in one
understood way (status 2: no acknowledgement although the worker synced — keys
`unserializable-result-*`, a known finding).  The cause keys of the repaired families
(`falsy-merge-*`, `partial-sync-*`, `state-pickle-failure-*`, `failed-compile-in-tx-*`,
`reuse-marker-after-failed-compile-in-tx`, `unserializable-result-*-last-state/-reused`) are
still computed: if one reappears it names the regression and is a VIOLATION.  Anything else
is reported under a per-history key.
"""
from __future__ import annotations

import asyncio
import hashlib
import itertools
import json
import os
import pickle
import re
import time

from lib import core

PROPS = 'EdbVerif/Props/C17.lean'
REQUIRED = [
    'EdbVerif.C17.C17_used_exact', 'EdbVerif.C17.C17_used_partial', 'EdbVerif.C17.C17_used_noreturn',
    'EdbVerif.C17.C17_used_tx_partial', 'EdbVerif.C17.C17_used_tx_noreturn',
    'EdbVerif.C17.C17_belief_partial', 'EdbVerif.C17.C17_failed_sync_changes_nothing',
    'EdbVerif.C17.C17_failed_sync_preserves_agreement',
    'EdbVerif.C17.C17_intx', 'EdbVerif.C17.C17_intx_reuse',
    'EdbVerif.C17.C17_belief_counterexample_status2', 'EdbVerif.C17.C17_used_counterexample_status2',
    'EdbVerif.C17.C17_used_tx_counterexample_status2', 'EdbVerif.C17.C17_intx_counterexample_none_state',
    'EdbVerif.C17.C17_repaired_falsy_merge', 'EdbVerif.C17.C17_repaired_partial_sync',
    'EdbVerif.C17.C17_repaired_last_state',
    'EdbVerif.C17.C17_remote_used_current', 'EdbVerif.C17.C17_remote_used_partial',
    'EdbVerif.C17.C17_remote_belief_partial', 'EdbVerif.C17.C17_remote_record_partial',
    'EdbVerif.C17.C17_remote_record_weak', 'EdbVerif.C17.C17_remote_record_counterexample_status2',
    'EdbVerif.C17.C17_remote_used_counterexample_failed_sync',
    'EdbVerif.C17.C17_memo_faithful', 'EdbVerif.C17.C17_memo_counterexample',
    'EdbVerif.C17.C17_repaired_lost_request', 'EdbVerif.C17.C17_repaired_remote_lost_request',
]

KINDS = {'S': 'bytes', 'G': 'bytes', 'R': 'map', 'C': 'map', 'Y': 'map', 'P': 'state'}
NDBS_MAX = 4


# ------------------------------------------------------------------- tokens
class Toks:
    """Identity tokens = distinct Python objects.  tok = 4*serial + flags,
    flags bit0 = falsy, bit1 = unpickling the payload raises.
    A token's *content id* (cid) is what the worker sees after unpickling;
    twins are different tokens with the same cid (equal, not identical)."""

    def __init__(self, rig_mod):
        self.R = rig_mod
        self.serial = 1
        self.obj = {}      # tok -> python object
        self.desc = {}     # tok -> [kind, flavor, cid]
        self.by_id = {}    # id(obj) -> tok
        self._z = None

    def _alloc(self, flags):
        t = self.serial * 4 + flags
        self.serial += 1
        return t

    def register(self, t, kind, flavor, cid, obj):
        self.obj[t] = obj
        self.desc[t] = [kind, flavor, cid]
        self.by_id[id(obj)] = t
        self.serial = max(self.serial, t // 4 + 1)
        return t

    def make_obj(self, kind, flavor, cid):
        import immutables
        R = self.R
        if KINDS[kind] == 'bytes':
            if flavor == 'n':
                return bytes(bytearray(pickle.dumps(R.Payload(cid))))
            if flavor == 'b':
                return bytes(bytearray(pickle.dumps(R.BoomOnLoad(cid))))
            if flavor == 'g':       # raw garbage
                return b'\x80\x05\xff-garbage-' + str(cid).encode()
            if flavor == 'z':
                return b''
        elif KINDS[kind] == 'map':
            if flavor == 'n':
                return immutables.Map({'id': cid})
            if flavor == 'e':
                return immutables.Map()
            if flavor == 'b':
                return immutables.Map({'id': R.BoomOnLoad(cid)})
        elif kind == 'P':
            if flavor == 'g':
                return b'\x80\x05\xff-garbage-state-' + str(cid).encode()
        raise ValueError((kind, flavor))

    FLAGS = {'n': 0, 'e': 1, 'b': 2, 'g': 2, 'z': 3}

    def new(self, kind, flavor='n', cid=None):
        if flavor == 'z' and self._z is not None:
            return self._z
        t = self._alloc(self.FLAGS[flavor])
        if cid is None:
            cid = 'E' if flavor == 'e' else ('BAD' if flavor in 'bgz' else f'c{t}')
        self.register(t, kind, flavor, cid, self.make_obj(kind, flavor, cid))
        if flavor == 'z':
            self._z = t
        return t

    def new_state_tok(self):
        return self._alloc(0)

    def cid(self, t):
        if t is None:
            return None
        d = self.desc.get(t)
        return d[2] if d else t          # state tokens: content = the number itself

    def tok_of(self, obj):
        if obj is None:
            return None
        return self.by_id.get(id(obj), 'unk')

    def falsy(self, t):
        return t % 2 == 1

    def bad(self, t):
        return (t // 2) % 2 == 1


# ---------------------------------------------------- NoReturn (mirror of Lean)
class Ghost:
    """Python mirror of EdbVerif.Sync.Ghost / NoReturnFrom (SyncSpec.lean)."""

    def __init__(self, init):
        self.cur = {}
        self.ret = {}
        self.ok = True
        for db, (s, r, c) in init['dbs'].items():
            self.cur[('S', int(db))] = s
            self.cur[('R', int(db))] = r
            self.cur[('C', int(db))] = c
        self.cur[('G',)] = init['glob']
        self.cur[('Y',)] = init['sys']

    @staticmethod
    def slots(st):
        db = st['db']
        return [(('S', db), st['s']), (('R', db), st['r']), (('G',), st['g']),
                (('C', db), st['c']), (('Y',), st['y'])]

    def feed(self, st):
        if st['op'] == 'C':
            sl = self.slots(st)
            if any(t in self.ret.get(k, ()) for k, t in sl):
                self.ok = False
            for k, t in sl:
                c = self.cur.get(k)
                if c is not None and c != t:
                    self.ret.setdefault(k, set()).add(c)
                self.cur[k] = t
        else:
            if st['s'] in self.ret.get(('S', st['db']), ()):
                self.ok = False


# ------------------------------------------------------------ state snapshots
def snap_real(rig, toks):
    """[(belief, actual)] per worker; belief in identity tokens, actual in content ids."""
    out = []
    for w, wm in zip(rig.workers, rig.wmods):
        b_dbs = {int(k[2:]): (toks.tok_of(v.user_schema_pickle), toks.tok_of(v.reflection_cache),
                              toks.tok_of(v.database_config)) for k, v in w._dbs.items()}
        bel = (b_dbs, toks.tok_of(w._global_schema_pickle), toks.tok_of(w._system_config),
               toks.tok_of(w._last_pickled_state))
        R = rig_mod()
        a_dbs = {int(k[2:]): (R.cid_of(v.user_schema), R.cid_of(v.reflection_cache),
                              R.cid_of(v.database_config)) for k, v in wm.DBS.items()}
        ls = wm.LAST_STATE
        act = (a_dbs, R.cid_of(wm.GLOBAL_SCHEMA), R.cid_of(wm.INSTANCE_CONFIG),
               None if ls is None else ls.tok)
        out.append((bel, act))
    return out


_rig_mod = None


def rig_mod():
    global _rig_mod
    if _rig_mod is None:
        from lib import c17rig
        _rig_mod = c17rig
    return _rig_mod


SIDE_RE = re.compile(r'W(\d+) b\{([^}]*)\} a\{([^}]*)\}')


def parse_side(s):
    dbs_s, g, y, last = s.split('|')
    dbs = {}
    if dbs_s:
        for e in dbs_s.split(';'):
            k, v = e.split(':')
            dbs[int(k)] = tuple(int(x) for x in v.split(','))
    return (dbs, int(g), int(y), None if last == '-' else int(last))


def parse_model_state(s, nworkers):
    res = {}
    for m in SIDE_RE.finditer(s):
        res[int(m.group(1))] = (parse_side(m.group(2)), parse_side(m.group(3)))
    return [res[i] for i in range(nworkers)]


def side_to_cid(side, toks):
    dbs, g, y, last = side
    return ({k: tuple(toks.cid(t) for t in v) for k, v in dbs.items()}, toks.cid(g), toks.cid(y),
            toks.cid(last))


def belief_to_cid(side, toks):
    return side_to_cid(side, toks)


# --------------------------------------------------------------- res mapping
def classify_exc(e, state_mod, R):
    if isinstance(e, state_mod.FailedStateSync):
        return 'syncFail'
    if isinstance(e, R.CompileBoom):
        return 'compErr'
    if isinstance(e, R.StatePickleBoom):
        return 'statePickleErr'
    if isinstance(e, RuntimeError) and 'could not serialize result' in str(e):
        return 'serErr'
    if isinstance(e, AssertionError):
        return 'assertErr'
    if isinstance(e, KeyError):
        return 'keyErr'
    if isinstance(e, (R.PayloadBoom, pickle.UnpicklingError, EOFError)):
        return 'unpickleErr'
    if isinstance(e, TypeError):
        return 'typeErr'
    return f'other:{type(e).__name__}:{e}'


def wire_cid(b, R):
    if b is None:
        return None
    try:
        return R.cid_of(pickle.loads(b))
    except Exception:
        return 'BAD'


# ---------------------------------------------------------------- generators
class Gen:
    """Online generator of one random history (needs to see which compiler
    states have been returned so far)."""

    def __init__(self, rng, toks, regime, nworkers, ndbs):
        self.rng, self.toks, self.regime = rng, toks, regime
        self.nw, self.ndbs = nworkers, ndbs
        self.hist = {}       # slot -> list of tokens used so far (for "identity returns")
        self.cur = {}        # db -> [s, r, c]
        self.glob = self.sys = None
        self.states = []     # tokens of returned pickled states (most recent last)
        self.change_p = rng.choice([0.1, 0.3, 0.6])
        self.free_p = rng.choice([0.0, 0.3, 0.7])
        self.tx_p = rng.choice([0.1, 0.3, 0.5])

    def _new(self, kind, slot):
        """a new token for a slot according to the regime"""
        rng, t = self.rng, self.toks
        wild = True          # every regime sees falsy and unpicklable values at every failure point
        back = self.regime != 'noreturn'      # old identities may come back
        x = rng.random()
        old = self.hist.setdefault(slot, [])
        cur = old[-1] if old else None
        if KINDS[kind] == 'map':
            if wild and x < 0.22:
                tok = t.new(kind, 'e')
            elif wild and x < 0.30:
                tok = t.new(kind, 'b')
            elif cur is not None and x < 0.42 and t.desc[cur][1] == 'n':
                tok = t.new(kind, 'n', cid=t.desc[cur][2])      # equal-but-not-identical twin
            elif back and len(old) > 1 and x < 0.60:
                tok = rng.choice(old[:-1])      # an old identity comes back
            else:
                tok = t.new(kind, 'n')
        else:
            if (wild or kind == 'S') and x < 0.10:
                tok = t.new(kind, rng.choice('bg'))
            elif wild and x < 0.13:
                tok = t.new(kind, 'z')
            elif cur is not None and x < 0.25 and t.desc[cur][1] == 'n':
                tok = t.new(kind, 'n', cid=t.desc[cur][2])
            elif back and len(old) > 1 and x < 0.45:
                tok = rng.choice(old[:-1])
            else:
                tok = t.new(kind, 'n')
        if self.regime == 'noreturn' and tok in old[:-1] and tok != cur:
            tok = t.new(kind, 'n')
        old.append(tok)
        return tok

    def init(self):
        t = self.toks
        dbs = {}
        for db in range(self.ndbs):
            s, r = t.new('S'), t.new('R')
            c = t.new('C', 'e' if self.rng.random() < 0.5 else 'n')   # empty db config is the normal case
            self.cur[db] = [s, r, c]
            self.hist[('S', db)], self.hist[('R', db)], self.hist[('C', db)] = [s], [r], [c]
            if self.rng.random() < 0.5:
                dbs[str(db)] = [s, r, c]
        self.glob, self.sys = t.new('G'), t.new('Y', 'e' if self.rng.random() < 0.3 else 'n')
        self.hist[('G',)], self.hist[('Y',)] = [self.glob], [self.sys]
        return {'dbs': dbs, 'glob': self.glob, 'sys': self.sys}

    def _out(self, tx):
        x = self.rng.random()
        if x < 0.12:
            return 'raise'
        if x < 0.20 and tx:
            return 'mut'
        if x < 0.17 and not tx:
            return 'nostate'
        if x < 0.23:
            return 'spf'
        if x < 0.29 and (tx or self.regime != 'nostatus2'):
            return 'unp'
        # replies that never reach BaseWorker.call's status dispatch (undecodable on the server / the
        # caller was cancelled in flight), and requests the worker cannot even unpickle
        if x < 0.33 and (tx or self.regime != 'nostatus2'):
            return 'rux'
        if x < 0.36 and not tx and self.regime != 'nostatus2':
            return 'cancel'
        if x < 0.39 and not tx:
            return 'req'          # (since 3499a3b: answered with a FailedStateSync, harmless)
        return 'ok'

    def next(self):
        rng, t = self.rng, self.toks
        db = rng.randrange(self.ndbs)
        mode = None if rng.random() < self.free_p else rng.randrange(self.nw)
        fronts = [rng.random() < 0.5 for _ in range(self.nw)]
        if rng.random() < self.tx_p:
            # a transaction's root schema: the current one or an older one
            hs = self.hist[('S', db)]
            s = hs[-1] if (rng.random() < 0.6 or self.regime == 'noreturn') else rng.choice(hs)
            x = rng.random()
            if self.states and x < 0.75:
                ns0 = self.states[-1] if rng.random() < 0.7 else rng.choice(self.states)
                pref = ['ret', ns0]
            elif self.states and x < 0.85:
                pref = ['twin', rng.choice(self.states)]
            elif x < 0.93:
                pref = ['bad']
            else:
                pref = None
            return {'op': 'T', 'mode': mode, 'db': db, 's': s, 'pref': pref,
                    'out': self._out(True), 'ns': t.new_state_tok(), 'fronts': fronts}
        # maybe change parts of the "current" server-side state first
        # (an unpicklable value is usually replaced before the next request)
        cur = self.cur[db]
        for i, k in enumerate('SRC'):
            if rng.random() < (0.8 if t.bad(cur[i]) else self.change_p):
                cur[i] = self._new(k, (k, db))
        if rng.random() < (0.8 if t.bad(self.glob) else self.change_p / 2):
            self.glob = self._new('G', ('G',))
        if rng.random() < (0.8 if t.bad(self.sys) else self.change_p / 2):
            self.sys = self._new('Y', ('Y',))
        return {'op': 'C', 'mode': mode, 'db': db, 's': cur[0], 'r': cur[1], 'g': self.glob,
                'c': cur[2], 'y': self.sys, 'out': self._out(False), 'ns': t.new_state_tok(),
                'fronts': fronts}

    def returned(self, ns):
        self.states.append(ns)


# ----------------------------------------------------------------- execution
class Outcome:
    """everything observed while executing one history on the real rig"""

    def __init__(self):
        self.lines = []       # protocol lines for the driver
        self.real = []        # per line: canonical real observation
        self.steps = []       # executed steps (replayable)
        self.fails = []       # (key, what, detail-extra)
        self.stats = {}


def _hkey(spec):
    return hashlib.sha1(json.dumps(spec, sort_keys=True, default=str).encode()).hexdigest()[:12]


async def run_history(loop, spec, rng, source):
    """spec: {'kind','nworkers','ndbs','regime','init':…,'tokens':{tok:[kind,flavor,cid]}}
    source: Gen (online) or list of steps (replay/exhaustive)."""
    R = rig_mod()
    toks = source.toks if isinstance(source, Gen) else Toks(R)
    if not isinstance(source, Gen):
        for t, d in spec['tokens'].items():
            t = int(t)
            if d[1] == 'z':
                toks._z = t
            toks.register(t, d[0], d[1], d[2], toks.make_obj(d[0], d[1], d[2]))
    init = spec['init']
    nw = spec['nworkers']
    rig = R.Rig(loop, spec['kind'], nw,
                {f'db{db}': tuple(toks.obj[x] for x in v) for db, v in init['dbs'].items()},
                toks.obj[init['glob']], toks.obj[init['sys']])
    out = Outcome()
    st = out.stats
    try:
        await rig.attach()
        state_mod = rig.state_mod
        out.lines.append('I %d %d' % (init['glob'], init['sys']) + ''.join(
            ';%s %d %d %d' % (db, *v) for db, v in sorted(init['dbs'].items())))
        s0 = snap_real(rig, toks)
        out.real.append({'state': s0})
        ghost = Ghost(init)
        stale = {}        # (w, slot) -> cause  (slots where belief =/=> actual)
        last_stale = {}   # w -> cause
        prev = s0
        steps_iter = None if isinstance(source, Gen) else iter(source)
        nsteps = spec.get('len', 0)
        i = 0
        while True:
            if isinstance(source, Gen):
                if i >= nsteps:
                    break
                step = source.next()
            else:
                step = next(steps_iter, None)
                if step is None:
                    break
                step = dict(step)
            i += 1
            # resolve the pickled state object for tx requests
            if step['op'] == 'T':
                pref = step.get('pref')
                if pref is None:
                    p_tok = None
                elif pref[0] == 'ret':
                    p_tok = pref[1] if pref[1] in toks.obj else 'missing'
                elif pref[0] == 'twin':
                    if pref[1] not in toks.obj:
                        p_tok = 'missing'
                    elif len(pref) > 2 and pref[2] in toks.obj:
                        p_tok = pref[2]
                    else:
                        p_tok = toks._alloc(0) if len(pref) < 3 else pref[2]
                        src = toks.obj[pref[1]]
                        toks.register(p_tok, 'P', 'n', toks.cid(pref[1]), bytes(bytearray(src)))
                        step['pref'] = ['twin', pref[1], p_tok]
                else:
                    if len(pref) > 1 and pref[1] in toks.obj:
                        p_tok = pref[1]
                    else:
                        p_tok = toks.new('P', 'g') if len(pref) < 2 else pref[1]
                        if p_tok not in toks.obj:
                            toks.register(p_tok, 'P', 'g', 'BAD', toks.make_obj('P', 'g', 'BAD'))
                        step['pref'] = ['bad', p_tok]
                if p_tok == 'missing':
                    st['skipped_missing_state'] = st.get('skipped_missing_state', 0) + 1
                    continue
                step['p'] = p_tok
            # steer the pool
            held = []
            if step['mode'] is not None:
                held = await rig.isolate(step['mode'])
            nwire, ncb = len(rig.wire), len(rig.cb_log)
            nlog = [len(x) for x in rig.rec_logs]
            dbname = f"db{step['db']}"
            plan = (step['out'], step['ns'])
            if step['out'] == 'req':
                plan = R.BoomOnLoad('compile-arg')     # worker_proc.worker cannot unpickle the request
            if step['out'] == 'cancel':
                plan = ('ok', step['ns'])
                rig.cancel_next = True
            res, ret_state = 'ok', None
            try:
                if step['op'] == 'C':
                    r = await rig.pool.compile(
                        dbname, toks.obj[step['s']], toks.obj[step['g']], toks.obj[step['r']],
                        toks.obj[step['c']], toks.obj[step['y']], plan)
                else:
                    r = await rig.pool.compile_in_tx(
                        dbname, toks.obj[step['s']], 7, None if step['p'] is None else toks.obj[step['p']],
                        0, plan)
                ret_state = r[1]
            except asyncio.CancelledError:
                res = 'cancelled'
            except Exception as e:   # noqa: BLE001 — every failure of the real code is an observation
                res = classify_exc(e, state_mod, R)
            rig.cancel_next = False
            rig.give_back(held, step['fronts'])
            if len(rig.wire) != nwire + 1:
                res = f'other:wire-count-{len(rig.wire) - nwire}'
                out.fails.append((f'rig:{_hkey(out.steps)}', 'request did not reach exactly one worker',
                                  {'res': res}))
                break
            w, raw = rig.wire[-1]
            step['w'] = w
            if ret_state is not None:
                toks.register(step['ns'], 'P', 'n', step['ns'], ret_state)
                if isinstance(source, Gen):
                    source.returned(step['ns'])
            try:
                meth, args = pickle.loads(raw)
            except R.PayloadBoom:
                meth, args = None, None      # unreadable for us as for the worker ('req' steps)
            new_log = rig.rec_logs[w][nlog[w]:]
            for j in range(nw):
                if j != w and len(rig.rec_logs[j]) != nlog[j]:
                    out.fails.append((f'rig:{_hkey(out.steps)}', 'another worker compiled', {}))
            used = new_log[0][1:] if new_log else None
            now = snap_real(rig, toks)
            # ----- protocol line + canonical real observation
            # model: a reply that is lost / unreadable on the server = status 2 (no acknowledgement,
            # worker done, _last_pickled_state forgotten); only the exception class differs
            mout = 'unp' if step['out'] in ('rux', 'cancel') else step['out']
            res_cmp = 'serErr' if (step['out'] == 'rux' and res == 'unpickleErr' and used is not None) else res
            if step['out'] == 'cancel' and res == 'cancelled':
                res_cmp = None        # the caller never sees the outcome (model: serErr or syncFail)
            if step['op'] == 'C':
                out.lines.append('C %d %d %d %d %d %d %d %s %d' % (
                    w, step['db'], step['s'], step['r'], step['g'], step['c'], step['y'],
                    mout, step['ns']))
                sent = None if args is None else tuple(wire_cid(a, R) for a in args[1:6])
                robs = {'sent': sent, 'cb': rig.cb_log[ncb] if len(rig.cb_log) > ncb else None,
                        'res': res_cmp, 'used': used, 'state': now}
            else:
                out.lines.append('T %d %d %d %s %s %d' % (
                    w, step['db'], step['s'], '-' if step['p'] is None else step['p'],
                    mout, step['ns']))
                if args[2] == state_mod.REUSE_LAST_STATE_MARKER:
                    send = 'reuse'
                elif args[0] is not None:
                    send = 'name'
                else:
                    send = 'schema'
                well_formed = (send == 'reuse' and args[0] is None and args[1] is None) or \
                              (send == 'name' and args[1] is None and args[0] == dbname) or \
                              (send == 'schema' and args[1] is toks.obj[step['s']] or
                               (send == 'schema' and args[1] == toks.obj[step['s']]))
                if not well_formed:
                    send += '!malformed'
                robs = {'send': send, 'res': res_cmp, 'used': used, 'state': now}
            out.real.append(robs)
            out.steps.append(step)
            ghost.feed(step)
            st[step['op'] + ':' + res.split(':')[0]] = st.get(step['op'] + ':' + res.split(':')[0], 0) + 1

            # ----------------------------------------------------- ORACLE
            def fail(key, what, extra):
                out.fails.append((key, what, dict(extra, step_index=len(out.steps) - 1)))

            hk = None
            # U: what the compiler received vs what the caller supplied
            if used is not None and step['op'] == 'C':
                supplied = (toks.cid(step['s']), toks.cid(step['g']), toks.cid(step['r']),
                            toks.cid(step['c']), toks.cid(step['y']))
                if tuple(used) != supplied:
                    slots = [(('S', step['db']), 0), (('G',), 1), (('R', step['db']), 2),
                             (('C', step['db']), 3), (('Y',), 4)]
                    for sl, ix in slots:
                        if used[ix] != supplied[ix]:
                            cause = stale.get((w, sl), 'unknown')
                            st['U-violations'] = st.get('U-violations', 0) + 1
                            if cause == 'unknown' or (ghost.ok and cause != 'unprocessed-request'):
                                hk = hk or _hkey(out.steps)
                                tag = 'under-noreturn' if ghost.ok else 'unknown-cause'
                                fail(f'used-violated:{tag}:{hk}',
                                     'worker compiled against state other than the supplied one '
                                     f'({tag})', {'slot': sl, 'used': used, 'supplied': supplied})
                            else:
                                fail(f'{cause}-wrong-state-used',
                                     'a later request compiled against state other than what the '
                                     f'caller supplied (belief was left stale by: {cause})',
                                     {'slot': sl, 'used': used, 'supplied': supplied})
            if used is not None and step['op'] == 'T':
                ctok, root = used
                if step['p'] is None:
                    # dbview invariant: a transaction always passes its pickled state
                    st['none-state-requests-reaching-compiler'] = \
                        st.get('none-state-requests-reaching-compiler', 0) + 1
                elif ctok != toks.cid(step['p']):
                    cause = last_stale.get(w, 'unknown')
                    st['X-violations'] = st.get('X-violations', 0) + 1
                    if cause == 'unknown' or robs['send'] != 'reuse':
                        fail(f'intx-violated:{_hkey(out.steps)}', 'transaction compiled with a compiler '
                             'state other than the supplied one', {'used': used, 'supplied': toks.cid(step['p'])})
                    else:
                        key = ('reuse-marker-after-failed-compile-in-tx' if cause == 'failed-compile-in-tx'
                               else f'{cause}-wrong-state-reused')
                        fail(key,
                             'REUSE_LAST_STATE_MARKER sent to a worker whose LAST_STATE is not the '
                             f'supplied state (worker moved ahead by: {cause})',
                             {'used': used, 'supplied': toks.cid(step['p'])})
                if root is not None and root != toks.cid(step['s']):
                    cause = stale.get((w, ('S', step['db'])), 'unknown')
                    st['U-violations'] = st.get('U-violations', 0) + 1
                    if cause == 'unknown' or (ghost.ok and cause != 'unprocessed-request'):
                        fail(f'txroot-violated:{_hkey(out.steps)}', 'transaction root schema is not the '
                             'supplied one', {'root': root, 'supplied': toks.cid(step['s'])})
                    else:
                        fail(f'{cause}-wrong-root-schema-in-tx',
                             'compile_in_tx elided the schema but the worker holds a different one '
                             f'(belief was left stale by: {cause})',
                             {'root': root, 'supplied': toks.cid(step['s'])})
                if robs['send'] == 'reuse' and root is not None:
                    fail(f'intx-violated:{_hkey(out.steps)}', 'root schema reset on a reused state', {})
            # B: belief ⇒ actual, every worker, every slot
            for j in range(nw):
                (bdbs, bg, by, bl), (adbs, ag, ay, al) = now[j]
                (pbdbs, pbg, pby, pbl), _pa = prev[j]
                cur_slots = {}
                for db, (s_, r_, c_) in bdbs.items():
                    a3 = adbs.get(db, (None, None, None))
                    p3 = pbdbs.get(db, (None, None, None))
                    for k, bt, ac, pt in (('S', s_, a3[0], p3[0]), ('R', r_, a3[1], p3[1]),
                                          ('C', c_, a3[2], p3[2])):
                        cur_slots[(k, db)] = (bt, ac, pt)
                cur_slots[('G',)] = (bg, ag, pbg)
                cur_slots[('Y',)] = (by, ay, pby)
                for sl, (bt, ac, pt) in cur_slots.items():
                    agree = (bt != 'unk') and toks.cid(bt) == ac
                    if agree:
                        stale.pop((j, sl), None)
                        continue
                    if (j, sl) in stale:
                        if j == w and bt != pt and step['op'] == 'C' and step['out'] == 'req' \
                                and res == 'unpickleErr':
                            # an already lagging belief now jumps AHEAD: phantom acknowledgement
                            stale[(j, sl)] = 'unprocessed-request'
                        continue
                    # newly broken by this request: who moved?
                    lag = (bt == pt)
                    sup = dict((k, t_) for k, t_ in Ghost.slots(step)).get(sl) if step['op'] == 'C' else None
                    cause = 'unknown'
                    if j == w and not lag and step['op'] == 'C' and step['out'] == 'req' \
                            and res == 'unpickleErr':
                        cause = 'unprocessed-request'
                    if j == w and lag and step['op'] == 'C':
                        if res == 'syncFail':
                            cause = 'partial-sync'
                        elif step['out'] in ('rux', 'cancel') and res in ('unpickleErr', 'cancelled') \
                                and used is not None:
                            cause = 'lost-reply'
                        elif res == 'serErr':
                            cause = 'unserializable-result'
                        elif res in ('ok', 'compErr', 'statePickleErr') and sup is not None \
                                and toks.falsy(sup) and sl[0] in 'RC':
                            cause = 'falsy-merge'
                    stale[(j, sl)] = cause
                    st['B-violations'] = st.get('B-violations', 0) + 1
                    if cause == 'unknown':
                        fail(f'belief-violated:{"lag" if lag else "ahead"}:{_hkey(out.steps)}',
                             'server believes the worker holds state it does not hold',
                             {'worker': j, 'slot': sl, 'belief': bt, 'actual': ac})
                    elif cause == 'unprocessed-request':
                        fail('unprocessed-request-belief-ahead',
                             'worker_proc.worker could not unpickle the request (nothing ran, in particular no '
                             '__sync__), replied status 1 with that ordinary exception, and BaseWorker.call '
                             'ran the acknowledgement callback: the server records a sync that never happened',
                             {'worker': j, 'slot': sl, 'belief': bt, 'actual': ac})
                    else:
                        fail(f'{cause}-stale-belief',
                             'after this request the server believes the worker holds state it does '
                             f'not hold ({cause})', {'worker': j, 'slot': sl, 'belief': bt, 'actual': ac})
                # last state: a non-None _last_pickled_state denotes the worker's LAST_STATE
                # (None = "unknown": the pool forgets it whenever worker.call raises)
                if bl is None or (toks.cid(bl) == al and bl != 'unk'):
                    last_stale.pop(j, None)
                elif j not in last_stale:
                    cause = 'unknown'
                    if j == w and bl == pbl:
                        if res == 'statePickleErr':
                            cause = 'state-pickle-failure'
                        elif res == 'serErr':
                            cause = 'unserializable-result'
                        elif res == 'compErr' and step['op'] == 'T' and step['out'] == 'mut' \
                                and robs.get('send') == 'reuse':
                            cause = 'failed-compile-in-tx'
                    last_stale[j] = cause
                    st['L-violations'] = st.get('L-violations', 0) + 1
                    if cause == 'unknown':
                        fail(f'last-state-violated:{_hkey(out.steps)}',
                             '_last_pickled_state does not denote the worker\'s LAST_STATE',
                             {'worker': j, 'belief': bl, 'actual': al})
                    else:
                        fail(f'{cause}-stale-last-state',
                             '_last_pickled_state no longer denotes the worker\'s LAST_STATE '
                             f'({cause})', {'worker': j, 'belief': bl, 'actual': al})
            prev = now
        out.noreturn_ok = ghost.ok
        out.toks = toks
    finally:
        rig.close()
    return out


def spec_tokens(toks):
    return {str(t): d for t, d in toks.desc.items() if d[0] != 'P' or d[1] == 'g'}


# ------------------------------------------------- hand-written witnesses
def witness_specs():
    """The concrete histories of Props/C17.lean, same token numbers: the
    status-2 counter-histories (must still fail on the real code) and the
    histories that failed before the repairs 2709780 / 03eafed / ae526a3
    (regression witnesses: must be served correctly).
    tokens: 8 S1, 12 S2, 16 R1, 20 C1, 25 E(empty cfg), 28 G1, 34 Gbad, 36 Y1."""
    tokens = {'8': ['S', 'n', 'S1'], '12': ['S', 'n', 'S2'], '16': ['R', 'n', 'R1'],
              '20': ['C', 'n', 'C1'], '25': ['C', 'e', 'E'], '28': ['G', 'n', 'G1'],
              '34': ['G', 'b', 'BAD'], '36': ['Y', 'n', 'Y1']}
    init = {'dbs': {'0': [8, 16, 20]}, 'glob': 28, 'sys': 36}

    def C(w, s, c, g, out, ns):
        return {'op': 'C', 'mode': w, 'db': 0, 's': s, 'r': 16, 'g': g, 'c': c, 'y': 36,
                'out': out, 'ns': ns, 'fronts': [True, True]}

    def T(w, s, pref, out, ns):
        return {'op': 'T', 'mode': w, 'db': 0, 's': s, 'pref': pref, 'out': out, 'ns': ns,
                'fronts': [True, True]}

    base = {'kind': 'fixed', 'nworkers': 2, 'ndbs': 1, 'regime': 'witness', 'init': init, 'tokens': tokens}
    return [
        # --- still failing: status 2 gives no acknowledgement (Props: …_counterexample_status2)
        ('status2_belief', dict(base), [C(0, 12, 20, 28, 'unp', 400)],
         {'unserializable-result-stale-belief'}),
        ('status2_used', dict(base), [C(0, 12, 20, 28, 'unp', 400), C(0, 8, 20, 28, 'ok', 404)],
         {'unserializable-result-stale-belief', 'unserializable-result-wrong-state-used'}),
        ('status2_tx_root', dict(base), [C(1, 8, 20, 28, 'ok', 400), C(0, 12, 20, 28, 'unp', 404),
                                         T(0, 8, ['ret', 400], 'ok', 408)],
         {'unserializable-result-stale-belief', 'unserializable-result-wrong-root-schema-in-tx'}),
        # --- repaired by 3499a3b (Props: C17_repaired_lost_request): a request the worker cannot unpickle
        ('lost_request', dict(base), [C(0, 12, 20, 28, 'req', 400), C(0, 12, 20, 28, 'ok', 404)], set()),
        # --- the caller is cancelled in flight / the reply cannot be unpickled: like status 2
        ('lost_reply_cancel', dict(base), [C(0, 12, 20, 28, 'cancel', 400), C(0, 8, 20, 28, 'ok', 404)],
         {'lost-reply-stale-belief', 'lost-reply-wrong-state-used'}),
        ('lost_reply_undecodable', dict(base), [C(0, 12, 20, 28, 'rux', 400), C(0, 8, 20, 28, 'ok', 404)],
         {'lost-reply-stale-belief', 'lost-reply-wrong-state-used'}),
        # --- repaired (Props: …_repaired): must be served correctly now
        ('falsy', dict(base), [C(0, 8, 25, 28, 'ok', 400), C(0, 8, 20, 28, 'ok', 404)], set()),
        ('partial', dict(base), [C(0, 12, 20, 34, 'ok', 400), C(0, 8, 20, 28, 'ok', 404)], set()),
        ('tx_root', dict(base), [C(1, 8, 20, 28, 'ok', 400), C(0, 12, 20, 34, 'ok', 404),
                                 T(0, 8, ['ret', 400], 'ok', 408)], set()),
        ('intx', dict(base), [C(0, 8, 20, 28, 'ok', 400), T(0, 8, ['ret', 400], 'spf', 404),
                              T(0, 8, ['ret', 400], 'ok', 408)], set()),
        ('intx_failed_compile', dict(base),
         [C(0, 8, 20, 28, 'ok', 400), T(0, 8, ['ret', 400], 'mut', 404), T(0, 8, ['ret', 400], 'ok', 408)],
         set()),
        ('intx_compile_spf', dict(base),
         [C(0, 8, 20, 28, 'ok', 400), C(0, 8, 20, 28, 'spf', 404), T(0, 8, ['ret', 400], 'ok', 408)], set()),
    ]


# -------------------------------------------------- exhaustive small scope
def exhaustive_alphabet():
    """Reduced alphabet over 2 workers, 1 database.  Tokens as in witness_specs
    plus 40 Ybad (late failure point), 44 S1' (twin of S1)."""
    tokens = {'8': ['S', 'n', 'S1'], '12': ['S', 'n', 'S2'], '16': ['R', 'n', 'R1'],
              '20': ['C', 'n', 'C1'], '25': ['C', 'e', 'E'], '28': ['G', 'n', 'G1'],
              '34': ['G', 'b', 'BAD'], '36': ['Y', 'n', 'Y1'], '44': ['S', 'n', 'S1']}
    init = {'dbs': {'0': [8, 16, 20]}, 'glob': 28, 'sys': 36}
    spec = {'kind': 'fixed', 'nworkers': 2, 'ndbs': 1, 'regime': 'exhaustive', 'init': init,
            'tokens': tokens}
    alpha = []
    for w in (0, 1):
        for (s, c, g, out) in ((8, 20, 28, 'ok'), (12, 20, 28, 'ok'), (8, 25, 28, 'ok'),
                               (12, 20, 34, 'ok'), (12, 20, 28, 'unp'), (44, 20, 28, 'raise')):
            alpha.append(('C', w, s, c, g, out))
        alpha.append(('T', w, 8, 'last', 'ok'))
        alpha.append(('T', w, 8, 'last', 'spf'))
        alpha.append(('T', w, 8, 'last', 'mut'))
    return spec, alpha


def exhaustive_steps(word):
    """turn a word over the alphabet into steps; 'last' = most recently returned state
    (resolved at run time through pref ['ret', ns] of the latest state-returning step;
    requests that return a state are predictable: out == ok)."""
    steps, ns, returned = [], 400, []
    for a in word:
        if a[0] == 'C':
            _, w, s, c, g, out = a
            steps.append({'op': 'C', 'mode': w, 'db': 0, 's': s, 'r': 16, 'g': g, 'c': c, 'y': 36,
                          'out': out, 'ns': ns, 'fronts': [True, True]})
        else:
            _, w, s, _p, out = a
            pref = ['ret', returned[-1]] if returned else None
            steps.append({'op': 'T', 'mode': w, 'db': 0, 's': s, 'pref': pref, 'out': out, 'ns': ns,
                          'fronts': [False, True]})
        returned.append(ns)     # optimistic; a missing state makes the request be skipped
        ns += 4
    return steps


# ------------------------------------------------------------------ compare
def compare(ctx, spec, out, model_lines, stats):
    """model vs real, line by line. Returns number of disagreements."""
    toks = out.toks
    nw = spec['nworkers']
    n_dis = 0
    for idx, (line, robs, mline) in enumerate(zip(out.lines, out.real, model_lines)):
        diffs = []
        if mline == 'bad-op':
            diffs.append('driver rejected the line')
        else:
            head, _, tail = mline.partition(' | ') if ' | ' in mline else ('', '', mline[3:])
            try:
                mstate = parse_model_state(tail, nw)
            except Exception as e:   # noqa: BLE001
                diffs.append(f'unparsable model state: {e}')
                mstate = None
            if mstate is not None:
                for j in range(nw):
                    (mb, ma), (rb, ra) = mstate[j], robs['state'][j]
                    if mb != rb:
                        diffs.append(f'belief of worker {j}: model {mb} real {rb}')
                    if side_to_cid(ma, toks) != ra:
                        diffs.append(f'actual of worker {j}: model {side_to_cid(ma, toks)} real {ra}')
            f = dict(x.split('=', 1) for x in head.split(' ') if '=' in x)
            if line.startswith('C'):
                msent = tuple(None if x == '-' else ('BAD' if toks.bad(int(x)) else toks.cid(int(x)))
                              for x in f['sent'].split(','))
                if robs['sent'] is not None and msent != robs['sent']:
                    diffs.append(f'sent: model {msent} real {robs["sent"]}')
                if robs['cb'] is not None and (f['cb'] == '1') != robs['cb']:
                    diffs.append(f'callback: model {f["cb"]} real {robs["cb"]}')
                mused = None if f['used'] == '-' else tuple(toks.cid(int(x)) for x in f['used'].split(','))
                if mused != (None if robs['used'] is None else tuple(robs['used'])):
                    diffs.append(f'used: model {mused} real {robs["used"]}')
                if robs['res'] is not None and f['res'] != robs['res']:
                    diffs.append(f'res: model {f["res"]} real {robs["res"]}')
            elif line.startswith('T'):
                if f['send'] != robs['send']:
                    diffs.append(f'send: model {f["send"]} real {robs["send"]}')
                if f['used'] == '-':
                    mused = None
                else:
                    a, b = f['used'].split(',')
                    mused = (toks.cid(int(a)), None if b == '-' else toks.cid(int(b)))
                if mused != (None if robs['used'] is None else tuple(robs['used'])):
                    diffs.append(f'used: model {mused} real {robs["used"]}')
                if f['res'] != robs['res']:
                    diffs.append(f'res: model {f["res"]} real {robs["res"]}')
        if diffs:
            n_dis += 1
            if stats.get('corr-recorded', 0) >= 10:
                break
            stats['corr-recorded'] = stats.get('corr-recorded', 0) + 1
            hist = {'spec': dict(spec, tokens=spec_tokens(toks)), 'steps': out.steps[:idx]}
            ctx.fail(f'corr:{_hkey(hist)}', 'model and implementation disagree',
                     {'history': hist, 'line': line, 'model': mline, 'diffs': diffs[:6],
                      'stream': 'real pool+worker rig vs EdbVerif.Sync.step'}, no_input=True)
            break       # later lines of this history are not comparable
    return n_dis


def _src_hash():
    """hash of the sources under test (they are read once, at the first rig)"""
    h = hashlib.sha1()
    for fn in ('pool.py', 'worker.py', 'worker_proc.py', 'state.py', 'queue.py', 'server.py',
               'multitenant_worker.py'):
        h.update(open(f'{core.REPO}/edb/server/compiler_pool/{fn}', 'rb').read())
    return h.hexdigest()


# ---------------------------------------------------------------------- run
def run(ctx: core.Ctx):
    R = rig_mod()
    src0 = _src_hash()
    proved = ctx.proof_stage(PROPS, ['EdbVerif.Props.C17', 'Driver.C17', 'Driver.C17MT'], required=REQUIRED)
    ctx.log('proof stage:', 'ok' if proved else ctx.proof['broken'])

    loop = asyncio.new_event_loop()
    asyncio.set_event_loop(loop)
    results = []       # (spec, Outcome, stream)
    t0 = time.time()

    def execute(spec, source, stream):
        out = loop.run_until_complete(run_history(loop, spec, ctx.rng, source))
        results.append((spec, out, stream))
        return out

    from lib import c17mt
    import sys as _sys
    this = _sys.modules[__name__]
    results_mt = []
    results_lmt = []
    from lib import c17churn
    churn_runs = []
    scenario_runs = []

    def execute_mt(spec, source, stream):
        out = loop.run_until_complete(c17mt.run_history(loop, spec, source, this))
        results_mt.append((spec, out, stream))
        return out

    if ctx.replay:
        rp = json.load(open(ctx.replay))
        for f in rp['failures']:
            h = f.get('detail', {}).get('history') if isinstance(f.get('detail'), dict) else None
            if h and h.get('scenario') == 'sync_lock':
                scenario_runs.append(loop.run_until_complete(c17mt.sync_lock_scenario(loop, this)))
            elif h and h.get('churn'):
                churn_runs.append((h['churn'], *loop.run_until_complete(c17churn.run(loop, h['churn'], this))))
            elif h and h.get('lmt'):
                results_lmt.append((h['spec'], loop.run_until_complete(
                    c17mt.run_local_history(loop, h['spec'], h['steps'], this)), 'replay-lmt'))
            elif h and h.get('mt'):
                execute_mt(h['spec'], h['steps'], 'replay-mt')
            elif h:
                execute(h['spec'], h['steps'], 'replay')
    else:
        # 0. churn (first: gc.collect() is cheap while the heap is small): superseded state objects are freed, addresses get reused (value-level oracle)
        t5 = time.time()
        per = ctx.budget(150, 1500)     # > 128: the real lru_cache must start evicting within one run
        for variant in ('fixed', 'multitenant'):
            for nw in (1, 2):
                params = {'variant': variant, 'nworkers': nw, 'steps': per, 'burst': 8,
                          'seed': ctx.rng.randrange(1 << 30)}
                churn_runs.append((params, *loop.run_until_complete(c17churn.run(loop, params, this))))
        ctx.log(f'churn: {sum(r[1]["steps"] for r in churn_runs)} steps, '
                f'{sum(r[1]["address_reuse_events"] for r in churn_runs)} address reuse events '
                f'in {time.time() - t5:.1f}s')
        # 0b. corpus/C17/*.json: concrete histories of earlier findings and seeds (root-cause witnesses)
        cdir = os.path.join(core.VERIF, 'corpus', 'C17')
        n_corpus = 0
        for fn in sorted(os.listdir(cdir)) if os.path.isdir(cdir) else []:
            if not fn.endswith('.json'):
                continue
            ce = json.load(open(os.path.join(cdir, fn)))
            n_corpus += 1
            if ce['stream'] == 'st':
                got = {k for k, _, _ in execute(ce['spec'], ce['steps'], 'corpus').fails}
            elif ce['stream'] == 'mt':
                got = {k for k, _, _ in execute_mt(ce['spec'], ce['steps'], 'corpus-mt').fails}
            elif ce['stream'] == 'lmt':
                lo = loop.run_until_complete(c17mt.run_local_history(loop, ce['spec'], ce['steps'], this))
                results_lmt.append((ce['spec'], lo, 'corpus-lmt'))
                got = {k for k, _, _ in lo.fails}
            elif ce['stream'] == 'scenario':
                sf, sd = loop.run_until_complete(c17mt.sync_lock_scenario(loop, this))
                scenario_runs.append((sf, sd))
                got = {k for k, _, _ in sf}
            else:
                raise core.Infra(f'corpus/C17/{fn}: unknown stream {ce["stream"]}')
            if not set(ce['expect']) <= got:
                ctx.fail(f'witness-not-reproduced:corpus-{fn[:-5]}',
                         'a corpus history no longer shows the recorded behaviour on the real code (fixed? then '
                         'update the corpus entry and the model)',
                         {'expected': ce['expect'], 'got': sorted(got)}, no_input=True)
        # 1. the counter-histories proved in Lean, replayed on the real code
        for name, spec, steps, expect in witness_specs():
            out = execute(spec, steps, 'witness')
            got = {k for k, _, _ in out.fails}
            if not expect <= got:
                ctx.fail(f'witness-not-reproduced:{name}',
                         'the Lean counter-history does not fail on the real code any more '
                         '(model out of date, or the code was fixed: update Props/C17.lean)',
                         {'history': {'spec': spec, 'steps': steps}, 'expected': sorted(expect),
                          'got': sorted(got)}, no_input=True)
            # (a repaired witness that fails again is reported by the oracle under its own key)
        # 2. random histories
        n_hist = ctx.budget(2000, 12000)
        for i in range(n_hist):
            rng = ctx.rng
            regime = ('nostatus2', 'noreturn', 'wild')[i % 3]
            toks = Toks(R)
            nw, ndbs = rng.choice([2, 3]), rng.choice([2, 3])
            gen = Gen(rng, toks, regime, nw, ndbs)
            spec = {'kind': rng.choice(['fixed', 'adaptive']), 'nworkers': nw, 'ndbs': ndbs,
                    'regime': regime, 'init': gen.init(),
                    'len': rng.choice([5, 20, 40, 80, 80])}
            execute(spec, gen, 'random:' + regime)
        ctx.log(f'{n_hist} random histories executed on the real rig in {time.time() - t0:.1f}s')
        # 3. exhaustive small scope
        espec, alpha = exhaustive_alphabet()
        maxlen = ctx.budget(3, 4)
        t1 = time.time()
        n_ex = 0
        for L in range(1, maxlen + 1):
            for word in itertools.product(alpha, repeat=L):
                execute(dict(espec), exhaustive_steps(word), f'exhaustive18<={maxlen}')
                n_ex += 1
        if not ctx.quick():
            # length 5 over the 10-letter sub-alphabet; by worker symmetry the first
            # request goes to worker 0
            small = [a for a in alpha if a[0] == 'T' and a[4] == 'ok' or
                     a[0] == 'C' and a[2:] in ((8, 20, 28, 'ok'), (8, 25, 28, 'ok'),
                                              (12, 20, 34, 'ok'), (12, 20, 28, 'unp'))]
            assert len(small) == 10
            for word in itertools.product(small, repeat=5):
                if word[0][1] == 1:
                    continue
                execute(dict(espec), exhaustive_steps(word), 'exhaustive10=5')
                n_ex += 1
        ctx.log(f'{n_ex} exhaustive histories (alphabet {len(alpha)}, length <= {maxlen}'
                f'{"" if ctx.quick() else "; 10-letter alphabet at length 5"}) in {time.time() - t1:.1f}s')
    # 4. the remote (three-tier) path: RemotePool -> MultiSchemaPool -> multitenant_worker
    if not ctx.replay:
        t3 = time.time()
        for name, spec, steps, expect in c17mt.witness_specs():
            out = execute_mt(spec, steps, 'mt-witness')
            got = {k for k, _, _ in out.fails}
            if not expect <= got:
                ctx.fail(f'witness-not-reproduced:mt-{name}',
                         'the Lean counter-history (remote path) does not fail on the real code any more',
                         {'history': {'mt': True, 'spec': spec, 'steps': steps},
                          'expected': sorted(expect), 'got': sorted(got)}, no_input=True)
        n_mt = ctx.budget(600, 6000)
        for i in range(n_mt):
            rng = ctx.rng
            regime = ('clean', 'noreturn', 'wild')[i % 3]
            toks = Toks(R)
            nw, ndbs, ncl = rng.choice([2, 3]), rng.choice([2, 3]), rng.choice([1, 2])
            gen = c17mt.GenMT(rng, toks, regime, nw, ndbs, ncl)
            spec = {'nworkers': nw, 'cache_size': rng.choice([1, 2]), 'regime': regime,
                    'init': gen.init(), 'len': rng.choice([5, 15, 30, 50])}
            execute_mt(spec, gen, 'mt-random:' + regime)
        n_mx = 0
        for spec, steps in c17mt.exhaustive(ctx.budget(4, 5)):
            execute_mt(spec, steps, 'mt-exhaustive')
            n_mx += 1
        # 5. the in-process MultiTenantPool (oracle only, no model)
        # 7. concurrent requests of one client on the remote path (scripted scenario)
        sfails, sdetail = loop.run_until_complete(c17mt.sync_lock_scenario(loop, this))
        scenario_runs.append((sfails, sdetail))
        sexpect = {'remote-concurrent-request-compiled-against-newer-state',
                   'remote-sync-lock-released-by-other-request'}
        if not sexpect <= {k for k, _, _ in sfails}:
            ctx.fail('witness-not-reproduced:scenario-sync-lock', 'the concurrent RemotePool scenario does not '
                     'fail on the real code any more', {'expected': sorted(sexpect),
                                                        'got': sorted(k for k, _, _ in sfails),
                                                        'detail': sdetail}, no_input=True)
        # (repaired by a325b39: both MultiTenantPool histories are regression witnesses now; a failure
        #  shows up under its own key)
        for wit in (c17mt.local_witness, c17mt.local_witness_drop):
            lspec, lsteps, _lexpect = wit()
            results_lmt.append((lspec, loop.run_until_complete(
                c17mt.run_local_history(loop, lspec, lsteps, this)), 'lmt-witness'))
        for i in range(ctx.budget(300, 3000)):
            rng = ctx.rng
            regime = ('clean', 'noreturn', 'wild')[i % 3]
            toks = Toks(R)
            nw = rng.choice([1, 2, 3])
            gen = c17mt.GenMT(rng, toks, regime, nw, rng.choice([2, 3]), rng.choice([1, 2]))
            gen.init()
            spec = {'nworkers': nw, 'cache_size': rng.choice([1, 2]), 'regime': regime, 'lmt': True,
                    'drops': True, 'len': rng.choice([5, 15, 30, 50])}
            results_lmt.append((spec, loop.run_until_complete(
                c17mt.run_local_history(loop, spec, gen, this)), 'lmt-random:' + regime))
        ctx.log(f'remote path: {n_mt} random + {n_mx} exhaustive histories on the three-tier rig '
                f'in {time.time() - t3:.1f}s')
    loop.close()
    if _src_hash() != src0:
        # e.g. somebody's mutation test touched /repo while this run had half of the modules loaded
        raise core.Infra('edb/server/compiler_pool/*.py changed while the check was running; '
                         'the observations mix two versions of the code - run again')

    # ---------------------------------------------------------- model run
    all_lines = []
    for spec, out, _ in results:
        all_lines.extend(out.lines)
    t2 = time.time()
    model = ctx.driver('C17', all_lines) if all_lines else []
    if len(model) != len(all_lines):
        raise core.Infra(f'driver returned {len(model)} lines for {len(all_lines)}')
    ctx.log(f'{len(all_lines)} lines through the Lean driver in {time.time() - t2:.1f}s')

    pos = 0
    n_dis = 0
    stats, streams, regimes = {}, {}, {}
    n_req = 0
    distinct = set()
    keys_hit = {}
    lens = {}
    for spec, out, stream in results:
        ml = model[pos:pos + len(out.lines)]
        pos += len(out.lines)
        n_dis += compare(ctx, spec, out, ml, stats)
        for k, v in out.stats.items():
            stats[k] = stats.get(k, 0) + v
        streams[stream] = streams.get(stream, 0) + 1
        n_req += len(out.steps)
        lb = min(80, (len(out.steps) // 10) * 10)
        lens[lb] = lens.get(lb, 0) + 1
        if getattr(out, 'noreturn_ok', False):
            regimes['noreturn-holds'] = regimes.get('noreturn-holds', 0) + 1
        if len(out.steps) >= 2:
            distinct.add(hashlib.sha1('\n'.join(out.lines).encode()).digest())
        for key, what, extra in out.fails:
            keys_hit[key.split(':')[0]] = keys_hit.get(key.split(':')[0], 0) + 1
            if ':' in key and keys_hit[key.split(':')[0]] > 10:
                continue       # per-history keys: the first ten of a kind are enough for a replay file
            k = extra.get('step_index')
            hist = {'spec': dict(spec, tokens=spec_tokens(out.toks)),
                    'steps': out.steps[:(k + 1) if k is not None else None]}
            ctx.fail(key, what, dict(extra, history=hist))
    # ---- remote path: model run, comparison, reporting
    mt_lines = []
    for spec, out, _ in results_mt:
        mt_lines.extend(out.lines)
    mt_stats, mt_streams, mt_keys = {}, {}, {}
    mt_req, mt_noreturn = 0, 0
    if mt_lines:
        t4 = time.time()
        mt_model = ctx.driver('C17MT', mt_lines)
        if len(mt_model) != len(mt_lines):
            raise core.Infra(f'driver C17MT returned {len(mt_model)} lines for {len(mt_lines)}')
        ctx.log(f'{len(mt_lines)} lines through the Lean driver C17MT in {time.time() - t4:.1f}s')
        pos = 0
        for spec, out, stream in results_mt:
            ml = mt_model[pos:pos + len(out.lines)]
            pos += len(out.lines)
            n_dis += c17mt.compare(ctx, spec, out, ml, mt_stats)
            for k, v in out.stats.items():
                mt_stats[k] = mt_stats.get(k, 0) + v
            mt_streams[stream] = mt_streams.get(stream, 0) + 1
            mt_req += len(out.steps)
            mt_noreturn += 1 if out.noreturn_ok else 0
            if len(out.steps) >= 2:
                distinct.add(hashlib.sha1(('MT' + '\n'.join(out.lines)).encode()).digest())
            for key, what, extra in out.fails:
                mt_keys[key.split(':')[0]] = mt_keys.get(key.split(':')[0], 0) + 1
                if ':' in key and mt_keys[key.split(':')[0]] > 10:
                    continue
                k = extra.get('step_index')
                hist = {'mt': True,
                        'spec': dict(spec, tokens={str(t): d for t, d in out.toks.desc.items()}),
                        'steps': out.steps[:(k + 1) if k is not None else None]}
                ctx.fail(key, what, dict(extra, history=hist))
    # ---- in-process MultiTenantPool: oracle verdicts
    lmt_stats, lmt_keys, lmt_req = {}, {}, 0
    for spec, out, stream in results_lmt:
        lmt_req += len(out.steps)
        for k, v in out.stats.items():
            lmt_stats[k] = lmt_stats.get(k, 0) + v
        for key, what, extra in out.fails:
            lmt_keys[key.split(':')[0]] = lmt_keys.get(key.split(':')[0], 0) + 1
            if ':' in key and lmt_keys[key.split(':')[0]] > 10:
                continue
            k = extra.get('step_index')
            hist = {'lmt': True, 'spec': dict(spec, tokens={str(t): d for t, d in out.toks.desc.items()}),
                    'steps': out.steps[:(k + 1) if k is not None else None]}
            ctx.fail(key, what, dict(extra, history=hist))
    # ---- churn stream verdicts
    churn_cov = {'runs': len(churn_runs), 'steps': sum(r[1]['steps'] for r in churn_runs),
                 'address_reuse_events': sum(r[1]['address_reuse_events'] for r in churn_runs),
                 'reuse_by_kind': {k: sum(r[1]['reuse_by_kind'][k] for r in churn_runs)
                                   for k in c17churn.KINDS},
                 'per_run': [dict(r[0], **{k: v for k, v in r[1].items() if k != 'reuse_by_kind'})
                             for r in churn_runs],
                 'rule': 'real FixedPool and in-process MultiTenantPool, 1-2 workers; every step supplies a '
                         'freshly allocated single-entry Map (unique content tag) for one of reflection '
                         'cache / database config / system config; the harness keeps no reference to '
                         'superseded maps (tags and id() integers only), gc.collect() + a burst of 8 '
                         'same-shaped maps before each request, preferring a reused address; oracle by '
                         'VALUE: recorder input tags == supplied tags, belief tags == worker tags'}
    for params, _stats, fails in churn_runs:
        for key, what, detail in fails:
            ctx.fail(key, what, dict(detail, history={'churn': params}))
    for sfails, _sdetail in scenario_runs:
        for key, what, detail in sfails:
            ctx.fail(key, what, detail)
    if not proved:
        ctx.proof_broken_verdict()

    sample = []
    for spec, out, stream in results[:1] + results[len(results) // 2:len(results) // 2 + 1]:
        sample.append(f'[{stream}] ' + ' / '.join(out.lines[:4]))
    ctx.cov.update({
        'evaluations': len(results) + len(results_mt) + len(results_lmt),
        'requests': n_req + mt_req + lmt_req,
        'address_reuse_events': churn_cov['address_reuse_events'],
        'concurrency_scenarios': [d for _f, d in scenario_runs],
        'churn': churn_cov,
        'multitenant_pool_in_process': {
            'histories': len(results_lmt), 'requests': lmt_req, 'histogram': lmt_stats,
            'oracle_keys_hit': lmt_keys,
            'rule': 'real pool.MultiTenantPool + MultiTenantWorker over 1-3 multitenant_worker instances, 1-2 '
                    'clients, cache size 1-2; oracle only (no Lean model for this variant)',
        },
        'remote_path': {
            'histories': len(results_mt), 'requests': mt_req, 'streams': mt_streams,
            'histories_satisfying_NoReturn': mt_noreturn,
            'histogram': {k: v for k, v in sorted(mt_stats.items())},
            'oracle_keys_hit': mt_keys,
            'rule': 'real RemotePool (one per client) -> MultiSchemaPool -> 2-3 multitenant_worker instances; '
                    '1-2 clients, 2-3 databases, cache size 1-2 (evictions), forced or queue-chosen worker; '
                    'regimes clean / noreturn / wild; all words <= 4 (quick) / 5 (thorough) over '
                    '{worker 0,1} x {db 0,1} x {same, new schema}; the 3 concrete histories of Props/C17.lean',
        },
        'distinct_nontrivial': len(distinct),
        'rule': 'one evaluation = one request history executed on the real pool/worker rig and on the model; '
                'non-trivial = at least 2 requests; distinct = distinct protocol text. Streams: the 9 concrete histories of Props/C17.lean (3 status-2 counter-histories, 6 regression witnesses of the repairs); random histories (2-3 workers, 2-3 dbs, length 5..80, regimes nostatus2 / '
                'noreturn / wild, each of the five parts changing or not, fresh / empty / equal-twin / '
                'unpicklable / returning identities, compile outcomes ok|nostate|raise|raise-after-in-place-mutation|state-pickle-failure|'
                'unserializable-result, compile_in_tx with returned / twin / garbage / None states, forced or '
                'pool-chosen worker, FixedPool or SimpleAdaptivePool); all words of length <= 3 (quick) / <= 4 '
                '(thorough) over an 18-letter request alphabet (2 workers, 1 db: base / schema change / empty '
                'config / unpicklable global schema / unserializable result / twin schema + compile error, '
                'compile_in_tx ok / state-pickle failure / failure after in-place mutation) and, thorough only, all words of length 5 over a '
                '10-letter sub-alphabet',
        'samples': sample,
        'streams': streams,
        'history_length_histogram': {str(k): v for k, v in sorted(lens.items())},
        'request_outcome_histogram': {k: v for k, v in sorted(stats.items()) if ':' in k},
        'oracle_violation_counts': {k: v for k, v in stats.items() if k.endswith('-violations')},
        'none_state_requests_reaching_compiler': stats.get('none-state-requests-reaching-compiler', 0),
        'oracle_keys_hit': keys_hit,
        'histories_satisfying_NoReturn': regimes.get('noreturn-holds', 0),
        'disagreements_model_vs_impl': n_dis,
        'exhaustive': False,
        'correspondence': 'real FixedPool/SimpleAdaptivePool.compile/compile_in_tx + _compute_compile_preargs '
                          '+ sync_worker_state_cb + BaseWorker.call + worker_proc.worker + worker.__sync__/'
                          'compile/compile_in_tx vs Lean EdbVerif.Sync.step: wire contents, callback presence, '
                          'outcome class, compiler inputs, belief and actual state of every worker after '
                          'every request',
    })
    ctx.assumptions += [
        'requests are executed one at a time (no two requests in flight) in the model and in every stream '
        'except the scripted RemotePool scenario `sync_lock`; which worker serves is either forced (the '
        'others look busy) or left to the real WorkerQueue and then read back',
        'callers never pass None for one of the five parts; init args are unpicklable-free; a compile_in_tx '
        'request passes its pickled state (dbview invariant) - requests passing None are executed and '
        'compared with the model but exempt from oracle X',
        'process transport, worker restarts / late spawns, RemotePool and MultiTenantPool are not modelled',
        'identity of Python objects is modelled by token numbers; falsiness and unpicklability are '
        'attributes of tokens',
        'the Lean model has no address reuse: a token denotes one object for ever, and `_pickle_memoized` is '
        'modelled as the identity (the bytes sent for an object are the pickle of that object). This is right '
        'iff an object cannot be confused with a dead one while its memo entry lives (functools.lru_cache holds '
        'a strong reference to its keys); stated as hypothesis MemoFaithful in Model/SyncSpec.lean '
        '(C17_memo_faithful / C17_memo_counterexample) and TESTED on the real code by the churn stream',
    ]
    ctx.trusted_base += [
        'hand-written model EdbVerif/Model/Sync.lean; tied by the differential run above',
        'harness/lib/c17rig.py: in-process transport replacing amsg sockets, Recorder replacing the compiler, '
        'edb.graphql stub',
        'harness/props/c17.py generators, oracle, cause classification and canonicalisation',
    ]
