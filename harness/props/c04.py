"""C04 — the schema stays referentially intact; earlier versions stay frozen
(edb/schema/schema.py::FlatSchema).

Proof: lean/EdbVerif/Props/C04.lean over Model/Store.lean.

Tie (level 1): random histories of raw operations (``add_raw/add/update_obj/
set_obj_field/unset_obj_field/delete/discard/delist``) and of guarded commands
(create / alter / drop-with-owned-children) over the REAL schema classes with
synthetic data tuples are applied to a real ``FlatSchema`` and to the Lean
model.  After every operation the complete content of the six real indexes is
dumped (ids are the harness' own numbering of the uuids, hash containers
sorted) and compared with the model's state, error class included.  Every
schema value ever obtained is kept and re-dumped at the end of the history: it
must equal its first dump (frozen versions).

Oracle (on the real object only, through the public API): ``Inv`` (lookups by
name / id / referrer agree with the objects' own data, both directions) after
every operation of a history that respects the raw-operation guard, plus
``NoDangling`` after every guarded command, plus "rejected => schema
unchanged", plus the old-version fingerprints.
"""
from __future__ import annotations

import hashlib
import itertools
import json
import re
import uuid

from lib import core

PROPS = 'EdbVerif/Props/C04.lean'
REQUIRED = [
    'EdbVerif.C04.store_inv', 'EdbVerif.C04.store_err', 'EdbVerif.C04.C04_nodangling',
    'EdbVerif.C04.C04_dropped', 'EdbVerif.C04.C04_frozen', 'EdbVerif.C04.store_no_internal_error',
]

SPECIAL = {0: '__derived__', 1: '__ext_casts__', 2: '__ext_index_matches__'}
SPECIAL_REV = {v: k for k, v in SPECIAL.items()}

# what Model/Store.lean::moduleCls hard-codes about edb.schema.modules.Module
MODULE_CLS_LINE = 'cls 1 1 0 6 2 - 5 5'


def modstr(m: int) -> str:
    return SPECIAL.get(m, f'm{m}')


def modnum(s: str) -> int:
    if s in SPECIAL_REV:
        return SPECIAL_REV[s]
    if not re.fullmatch(r'm\d+', s):
        raise ValueError(s)
    return int(s[1:])


def uid(i: int) -> uuid.UUID:
    return uuid.UUID(int=i + 1)


def nat(u) -> int:
    return int(u) - 1


class World:
    """The real classes, their descriptors and the value translators."""

    def __init__(self):
        import shim  # noqa: F401  (must come first: stubs for native modules)
        from edb.schema import schema as s_schema, objects as so, name as sn
        from edb.schema import (annos, modules, objtypes, properties, links, constraints,
                                functions, roles, operators)
        from edb.schema import expr as s_expr
        from edb.schema import abc as s_abc
        from edb import errors
        self.s_schema, self.so, self.sn, self.s_expr, self.errors = s_schema, so, sn, s_expr, errors
        self.classes = {
            1: modules.Module, 2: objtypes.ObjectType, 3: properties.Property, 4: links.Link,
            5: constraints.Constraint, 6: functions.Function, 7: annos.Annotation,
            8: annos.AnnotationValue, 9: roles.Role,
        }
        self.tag_of = {c.__name__: t for t, c in self.classes.items()}
        self.desc = {}
        for tag, cls in self.classes.items():
            fs = cls.get_schema_fields()
            refs = sorted(cls.get_object_reference_fields(), key=lambda f: f.index)
            if not all(f in cls.get_reducible_fields() for f in refs):
                raise core.Infra('shape: an object-reference field is not reducible')
            single, coll, kinds = [], [], {}
            for f in refs:
                if issubclass(f.type, so.Object):
                    single.append(f.index)
                    kinds[f.index] = 'single'
                elif issubclass(f.type, so.ObjectCollection):
                    coll.append(f.index)
                    kinds[f.index] = 'set' if issubclass(f.type, so.ObjectSet) else 'list'
                elif issubclass(f.type, s_expr.Expression):
                    coll.append(f.index)
                    kinds[f.index] = 'expr'
                else:
                    raise core.Infra(f'shape: unknown object container {f.type!r}')
            own = sorted(fs[rd.attr].index for rd in cls.get_refdicts())
            atoms = [f.index for f in fs.values()
                     if f.name in ('builtin', 'internal', 'abstract', 'is_derived')
                     and not issubclass(f.type, s_abc.Reducible)]
            self.desc[tag] = {
                'cls': cls, 'tag': tag,
                'global': not issubclass(cls, so.QualifiedObject),
                'sn': issubclass(cls, (functions.Function, operators.Operator)),
                'nfields': len(fs), 'name': fs['name'].index,
                'single': single, 'coll': coll, 'own': own, 'kinds': kinds, 'atoms': atoms,
                'fname': {f.index: f.name for f in fs.values()},
                'findex': {f.name: f.index for f in fs.values()},
            }
            if not set(own) <= set(coll):
                raise core.Infra('shape: a refdict attribute is not a collection field')

    def cls_line(self, tag):
        d = self.desc[tag]
        nl = lambda l: ','.join(map(str, l)) if l else '-'
        return (f"cls {tag} {int(d['global'])} {int(d['sn'])} {d['nfields']} {d['name']} "
                f"{nl(d['single'])} {nl(d['coll'])} {nl(d['own'])}")

    # ---- values: abstract token <-> real python value
    def name_to_real(self, tok: str):
        sn = self.sn
        k, parts = tok[0], [int(x) for x in tok[1:].split('.')]
        if k == 'U':
            return sn.UnqualName(modstr(parts[0]))
        if k == 'Q':
            return sn.QualName(modstr(parts[0]), f'n{parts[1]}')
        m, sm, n, q = parts
        return sn.QualName(modstr(m), f'{modstr(sm)}|n{n}@q{q}')

    def name_from_real(self, name) -> str:
        sn = self.sn
        if isinstance(name, sn.UnqualName):
            return f'U{modnum(name.name)}'
        if not isinstance(name, sn.QualName):
            raise ValueError(f'not a name: {name!r}')
        m = re.fullmatch(r'([^|@]+)\|n(\d+)@q(\d+)', name.name)
        if m:
            return f'S{modnum(name.module)}.{modnum(m.group(1))}.{m.group(2)}.{m.group(3)}'
        m = re.fullmatch(r'n(\d+)', name.name)
        if not m:
            raise ValueError(f'unexpected name {name!r}')
        return f'Q{modnum(name.module)}.{m.group(1)}'

    def handle(self, i: int, tag: int = 2):
        return self.so.Object.raw_schema_restore(self.classes[tag].__name__, uid(i))

    def val_to_real(self, tok: str, kind: str | None, reduced: bool, types: dict[int, int]):
        """kind: field kind for reference fields (single/list/set/expr), None otherwise.
        reduced=True gives what is stored; False gives the object handed to add /
        set_obj_field / update_obj (which reduce it themselves)."""
        so = self.so
        if tok == 'N':
            return None
        if tok[0] == 'n':
            return self.name_to_real(tok[1:])
        if tok[0] == 'a':
            return int(tok[1:])
        if tok[0] == 'r':
            i = int(tok[1:])
            h = self.handle(i, types.get(i, 2))
            return h.schema_reduce() if reduced else h
        if tok[0] == 'l':
            ids = tuple(uid(int(x)) for x in tok[1:].split(',')) if tok[1:] != '-' else ()
            if kind == 'set':
                red = ('ObjectSet', None, frozenset(ids), ())
            else:
                red = ('ObjectList', None, ids, ())
            if kind == 'expr':
                red = ('ObjectSet', None, frozenset(ids), ())
                if reduced:
                    return ('text', red, None)
                return self.s_expr.Expression(text='text', refs=so.ObjectCollection.schema_restore(red))
            return red if reduced else so.ObjectCollection.schema_restore(red)
        raise ValueError(tok)

    def val_from_real(self, v) -> str:
        if v is None:
            return 'N'
        if isinstance(v, (self.sn.QualName, self.sn.UnqualName)):
            return 'n' + self.name_from_real(v)
        if isinstance(v, bool):
            raise ValueError('bool')
        if isinstance(v, int):
            return f'a{v}'
        if isinstance(v, tuple):
            if len(v) == 2 and isinstance(v[0], str) and isinstance(v[1], uuid.UUID):
                return f'r{nat(v[1])}'
            if len(v) == 3 and isinstance(v[1], tuple) and len(v[1]) == 4:
                v = v[1]
                ids = sorted(nat(x) for x in v[2])       # expression refs: a set
                return 'l' + (','.join(map(str, ids)) or '-')
            if len(v) == 4 and isinstance(v[0], str):
                ids = [nat(x) for x in v[2]]
                if isinstance(v[2], frozenset) or v[0] == 'ObjectSet':
                    ids = sorted(ids)          # a set: iteration order is not part of the value
                return 'l' + (','.join(map(str, ids)) or '-')
        raise ValueError(f'unexpected stored value {v!r}')


def canon_val(tok: str, kind: str | None) -> str:
    """set-like containers: the order of ids is not part of the value"""
    if tok[0] == 'l' and kind in ('set', 'expr') and tok != 'l-':
        ids = sorted(set(int(x) for x in tok[1:].split(',')))
        return 'l' + ','.join(map(str, ids))
    return tok


# ------------------------------------------------------------------ dumps
def dump_real(w: World, s) -> str:
    D, T, N, G, S, R, K = [], [], [], [], [], [], []
    for i, data in s._id_to_data.items():
        toks = [str(len(data))]
        for f, v in enumerate(data):
            if v is not None:
                toks.append(f'{f}:{w.val_from_real(v)}')
        D.append(f'{nat(i)}=' + ';'.join(toks))
    for i, cn in s._id_to_type.items():
        T.append(f'{nat(i)}={w.tag_of[cn]}')
    for n, i in s._name_to_id.items():
        N.append(f'{w.name_from_real(n)}={nat(i)}')
    for (c, n), i in s._globalname_to_id.items():
        G.append(f'{w.tag_of[c.__name__]}/{w.name_from_real(n)}={nat(i)}')
    for (c, n), ids in s._shortname_to_id.items():
        if not ids:
            S.append(f'EMPTY:{w.tag_of[c.__name__]}/{w.name_from_real(n)}')
        for i in ids:
            S.append(f'{w.tag_of[c.__name__]}/{w.name_from_real(n)}>{nat(i)}')
    for tgt, m in s._refs_to.items():
        K.append(str(nat(tgt)))
        for (c, fn), srcs in m.items():
            tag = w.tag_of[c.__name__]
            if not srcs:
                R.append(f'EMPTY:{nat(tgt)}<{tag}.{fn}')
            for src in srcs:
                R.append(f"{nat(tgt)}<{tag}.{w.desc[tag]['findex'].get(fn, '?' + fn)}<{nat(src)}")
    return '|'.join(' '.join(sorted(x)) for x in (D, T, N, G, S, R, K))


def canon_model_dump(w: World, d: str, types_hint=None) -> str:
    secs = d.split('|')
    if len(secs) != 7:
        return 'MALFORMED ' + d
    types = {}
    for t in secs[1].split():
        i, tag = t.split('=')
        types[int(i)] = int(tag)
    out = []
    for k, sec in enumerate(secs):
        toks = sec.split()
        if k == 0:
            nt = []
            for t in toks:
                i, rest = t.split('=', 1)
                parts = rest.split(';')
                kinds = w.desc[types[int(i)]]['kinds'] if int(i) in types else {}
                vs = []
                for p in parts[1:]:
                    f, v = p.split(':', 1)
                    vs.append(f'{f}:{canon_val(v, kinds.get(int(f)))}')
                nt.append(f'{i}=' + ';'.join([parts[0]] + vs))
            toks = nt
        out.append(' '.join(sorted(toks)))
    return '|'.join(out)


def canon_real_dump(w: World, d: str) -> str:
    # the real dump already sorts set-like containers; list-like fields keep order.
    return d


# ----------------------------------------------------------- real execution
class Real:
    """Applies one protocol line to the real FlatSchema."""

    def __init__(self, w: World):
        self.w = w
        self.s = w.s_schema.FlatSchema()
        self.versions = []          # [(schema, first dump)]
        self.vn_failures = 0
        self.zombies = {}           # id -> class tag of data created by update_obj on an absent object

    def types(self):
        return {nat(i): self.w.tag_of[cn] for i, cn in self.s._id_to_type.items()}

    def handle_types(self):
        """class of the handle a caller would hold for each id that has data"""
        return {i: t for i, t in self.zombies.items() if uid(i) in self.s._id_to_data} | self.types()

    def note(self, line, status):
        t = line.split()
        if status == 'ok' and t[0] == 'upd' and int(t[1]) not in self.types() and len(t) > 3:
            self.zombies.setdefault(int(t[1]), int(t[2]))
        if status == 'ok' and t[0] in ('del', 'dis'):
            self.zombies.pop(int(t[1]), None)

    def err_class(self, e: BaseException) -> str:
        name = type(e).__name__
        if not isinstance(e, self.w.errors.SchemaError) or name in ('UnknownModuleError', 'InvalidReferenceError'):
            tb = e.__traceback__
            fns = []
            while tb is not None:
                fns.append(tb.tb_frame.f_code.co_name)
                tb = tb.tb_next
            if any(f.startswith('get_verbosename') or f.startswith('get_displayname') for f in fns):
                # the "... already exists" message could not be rendered for the
                # synthetic object: still the duplicate-name rejection
                self.vn_failures += 1
                return 'SchemaError'
        return name

    def kv_real(self, tag, kvs, reduced):
        d = self.w.desc[tag]
        types = self.types()
        return [(f, self.w.val_to_real(v, d['kinds'].get(f), reduced, types)) for f, v in kvs]

    def mkdata(self, tag, kvs, reduced):
        d = self.w.desc[tag]
        data = [None] * d['nfields']
        for f, v in self.kv_real(tag, kvs, reduced):
            data[f] = v
        return tuple(data)

    def present(self, i):
        return self.s.has_object(uid(i)) and self.s._id_to_data.get(uid(i)) is not None

    def obj(self, i, tag=None):
        """handle as obtained from the schema (class as recorded), or of class
        `tag` for ids the schema does not know"""
        o = self.s.get_by_id(uid(i), None)
        if o is not None and tag is None:
            return o
        return self.w.handle(i, tag if tag is not None else 2)

    def run(self, line: str, raw_variant: int = 0):
        """returns (status, schema_after) ; status = 'ok' | 'err <Class>'.
        Everything the harness itself computes (value translation, guards of the
        command layer) happens in `prepare`; only the calls into the real code
        run under the exception handler."""
        s = self.s
        try:
            call = self.prepare(line, raw_variant)
        except core.Infra:
            raise
        except Exception as e:      # noqa: BLE001
            raise core.Infra(f'harness could not translate {line!r}: {type(e).__name__}: {e}') from e
        if isinstance(call, str):
            return call, s
        try:
            ns = call()
        except BaseException as e:      # noqa: BLE001  (the real code's verdict)
            return 'err ' + self.err_class(e), s
        return 'ok', ns

    def prepare(self, line: str, raw_variant: int):
        w, s = self.w, self.s
        t = line.split()
        op = t[0]
        if op in ('add', 'create'):
            i, tag = int(t[1]), int(t[2])
            cut = None
            rest = t[3:]
            if rest and rest[0].startswith('len='):
                cut = int(rest[0][4:])
                rest = rest[1:]
            kvs = [(int(a), b) for a, b in (x.split('=') for x in rest)]
            if op == 'create':
                d = w.desc[tag]
                for f, v in kvs:
                    if f in d['kinds']:
                        for r in ref_ids(v):
                            if not self.present(r):
                                return 'err InvalidReferenceError'
            if cut is not None:
                raw_variant = 0      # `add` walks ALL reducible slots first; short tuples go to add_raw
            data = self.mkdata(tag, kvs, raw_variant == 0)
            if cut is not None:
                data = data[:cut]
            if raw_variant == 0:
                return lambda: s.add_raw(uid(i), w.classes[tag], data)
            return lambda: s.add(uid(i), w.classes[tag], data)
        if op == 'upd':
            i, tag = int(t[1]), int(t[2])
            kvs = [(int(a), b) for a, b in (x.split('=') for x in t[3:])]
            d = w.desc[tag]
            ups = {d['fname'][f]: v for f, v in self.kv_real(tag, kvs, False)}
            h = w.handle(i, tag)
            return lambda: s.update_obj(h, ups)
        if op == 'alter':
            i = int(t[1])
            kvs = [(int(a), b) for a, b in (x.split('=') for x in t[2:])]
            if not self.present(i):
                return 'err InvalidReferenceError'
            tag = self.types()[i]
            d = w.desc[tag]
            if len(set(f for f, _ in kvs)) != len(kvs):
                return 'err InvalidReferenceError'
            for f, v in kvs:
                if f in d['kinds']:
                    for r in ref_ids(v):
                        if not self.present(r):
                            return 'err InvalidReferenceError'
            ups = {d['fname'][f]: v for f, v in self.kv_real(tag, kvs, False)}
            h = self.obj(i)
            return lambda: s.update_obj(h, ups)
        if op in ('set', 'cset'):
            i, f, v = int(t[1]), int(t[2]), t[3]
            tag = self.handle_types().get(i, 2)
            d = w.desc[tag]
            if op == 'cset':
                if not self.present(i):
                    return 'err InvalidReferenceError'
                if f in d['kinds']:
                    for r in ref_ids(v):
                        if not self.present(r):
                            return 'err InvalidReferenceError'
            rv = w.val_to_real(v, d['kinds'].get(f), False, self.types())
            h = self.obj(i)
            return lambda: s.set_obj_field(h, d['fname'][f], rv)
        if op in ('unset', 'cunset'):
            i, f = int(t[1]), int(t[2])
            tag = self.handle_types().get(i, 2)
            h = self.obj(i)
            fname = w.desc[tag]['fname'][f]
            return lambda: s.unset_obj_field(h, fname)
        if op == 'del':
            h = w.handle(int(t[1]), int(t[2]))
            return lambda: s.delete(h)
        if op == 'dis':
            h = w.handle(int(t[1]), int(t[2]))
            return lambda: s.discard(h)
        if op == 'delist':
            n = w.name_to_real(t[1])
            return lambda: s.delist(n)
        if op == 'gc':
            # conditional drop (if_exists, if_unused): collect only when nothing else refers to it
            i = int(t[1])
            if not self.present(i):
                return lambda: s
            h = self.obj(i)

            def do_gc():
                if any(nat(r.id) != i for r in s.get_referrers(h)):
                    return s
                return s.delete(s.get_by_id(uid(i)))
            return do_gc
        if op == 'drop':
            i = int(t[1])
            if not self.present(i):
                return 'err InvalidReferenceError'
            ds = self.drop_set(i)
            self.last_drop = len(ds)

            def do_drop():
                # _delete_finalize: a referrer that is not being deleted blocks the drop
                for x in ds:
                    for r in s.get_referrers(self.obj(x)):
                        if nat(r.id) not in ds:
                            raise w.errors.SchemaError('cannot drop: other objects depend on it')
                ns = s
                for x in ds:
                    ns = ns.delete(ns.get_by_id(uid(x)))
                return ns
            return do_drop
        raise core.Infra(f'unknown op {line!r}')

    def drop_set(self, i):
        """mirror of Store.collect (owned closure, same fuel)"""
        s, w = self.s, self.w
        fuel = len(s._id_to_data) + 1
        todo, acc = [i], []
        while fuel > 0 and todo:
            fuel -= 1
            x = todo.pop(0)
            if x in acc or not self.present(x):
                continue
            tag = self.types()[x]
            d = w.desc[tag]
            data = s._id_to_data[uid(x)]
            fld = {f.index: f for f in d['cls'].get_schema_fields().values()}
            ch = []
            for f in d['own']:
                if data[f] is not None:
                    ids = fld[f].type.schema_refs_from_data(data[f])
                    tok = w.val_from_real(data[f])
                    order = [int(y) for y in tok[1:].split(',')] if tok != 'l-' else []
                    assert set(order) == {nat(y) for y in ids}
                    ch += order
            todo = ch + todo
            acc = [x] + acc
        return acc


def ref_ids(tok: str):
    if tok == 'N' or tok == 'l-':
        return []
    if tok[0] == 'r':
        return [int(tok[1:])]
    if tok[0] == 'l':
        return [int(x) for x in tok[1:].split(',')]
    return []


# ------------------------------------------------------------------ oracle
def audit(w: World, s, universe, names, check_dangling: bool):
    """Inv (and NoDangling) of the real schema through its public API.
    Returns a list of violation strings."""
    bad = []
    so, sn = w.so, w.sn
    objs = {}
    try:
        for o in s.get_objects(exclude_internal=False):
            objs[nat(o.id)] = o
    except Exception as e:       # noqa: BLE001
        return [f'get_objects failed: {type(e).__name__}: {e}']
    info = {}
    # TypesAgree
    for i in universe:
        h = w.handle(i)
        has_t = s.has_object(uid(i))
        data = s.maybe_get_obj_data_raw(h)
        if has_t != (data is not None):
            bad.append(f'types: object {i} has_object={has_t} but data present={data is not None}')
        if has_t != (i in objs):
            bad.append(f'types: object {i} has_object={has_t} but get_objects lists it={i in objs}')
        if has_t and data is not None:
            o = s.get_by_id(uid(i))
            tag = w.tag_of[type(o).__name__]
            d = w.desc[tag]
            # (a tuple shorter than the class' field list is what an old serialized
            #  schema holds until upgrade_schema pads it; add_raw accepts it as long as
            #  the name and reference slots exist)
            refs = {}
            for f in d['single'] + d['coll']:
                if data[f] is not None:
                    fld = d['cls'].get_schema_field(d['fname'][f])
                    for r in fld.type.schema_refs_from_data(data[f]):
                        refs.setdefault(nat(r), set()).add((tag, d['fname'][f]))
            info[i] = (o, tag, data[d['name']], refs)
    # NamesAgree, forward
    for i, (o, tag, name, refs) in info.items():
        d = w.desc[tag]
        if name is None:
            continue
        try:
            if d['global']:
                got = s.get_global(d['cls'], name, None)
            else:
                got = s.get(name, None)
            if got is None or got.id != o.id:
                bad.append(f'names: lookup of the name of {i} gives {got!r}')
            if d['sn']:
                fs = s.get_functions(sn.shortname_from_fullname(name), ())
                if o.id not in [f.id for f in fs]:
                    bad.append(f'names: function {i} not found under its short name')
        except Exception as e:   # noqa: BLE001
            bad.append(f'names: lookup of the name of {i} raised {type(e).__name__}')
    # NamesAgree, backward (probe the whole name universe)
    for ntok in names:
        name = w.name_to_real(ntok)
        try:
            if ntok[0] == 'U':
                for tag, d in w.desc.items():
                    if not d['global']:
                        continue
                    got = s.get_global(d['cls'], name, None)
                    if got is not None:
                        i = nat(got.id)
                        if i not in info or info[i][1] != tag or info[i][2] != name:
                            bad.append(f'names: global index maps {ntok} of class {tag} to {i} whose data disagrees')
            else:
                got = s.get(name, None)
                if got is not None:
                    i = nat(got.id)
                    if i not in info or w.desc[info[i][1]]['global'] or info[i][2] != name:
                        bad.append(f'names: name index maps {ntok} to {i} whose data disagrees')
                if ntok[0] == 'Q':
                    for f in s.get_functions(name, ()):
                        i = nat(f.id)
                        if (i not in info or info[i][1] != 6 or info[i][2] is None
                                or sn.shortname_from_fullname(info[i][2]) != name):
                            bad.append(f'names: short-name index maps {ntok} to {i} whose data disagrees')
        except Exception as e:   # noqa: BLE001
            bad.append(f'names: probing {ntok} raised {type(e).__name__}: {e}')
    # RefsToExact (both directions, per (class, field))
    for t in universe:
        try:
            ex = s.get_referrers_ex(w.handle(t))
            allr = s.get_referrers(w.handle(t))
        except Exception as e:   # noqa: BLE001
            bad.append(f'refs: get_referrers({t}) raised {type(e).__name__}: {e}')
            continue
        got = set()
        for (c, fn), rs in ex.items():
            for r in rs:
                got.add((nat(r.id), w.tag_of[c.__name__], fn))
        want = set()
        for i, (o, tag, name, refs) in info.items():
            for (tg, fn) in refs.get(t, ()):
                want.add((i, tg, fn))
        if got != want:
            bad.append(f'refs: referrers of {t}: index says {sorted(got)}, object data says {sorted(want)}')
        if {nat(r.id) for r in allr} != {x[0] for x in want}:
            bad.append(f'refs: get_referrers({t}) disagrees with object data')
    if check_dangling:
        for i, (o, tag, name, refs) in info.items():
            for t in refs:
                if s.get_by_id(uid(t), None) is None:
                    bad.append(f'dangling: object {i} refers to {t} which is not in the schema')
    return bad


# --------------------------------------------------------------- generators
TAGS = [1, 2, 3, 4, 5, 6, 7, 8, 9]
TAG_W = [14, 18, 14, 8, 8, 16, 5, 5, 12]
MODS = [0, 3, 4, 5]           # 0 is special; 5 is usually not created
NIDS = 8


def name_universe():
    out = [f'U{m}' for m in (0, 1, 3, 4, 5)]
    for m in MODS:
        for n in range(3):
            out.append(f'Q{m}.{n}')
    for m in MODS:
        for sm in (3, 4):
            for n in range(2):
                for q in range(2):
                    out.append(f'S{m}.{sm}.{n}.{q}')
    return out


class Gen:
    def __init__(self, w: World, rng, nids=NIDS, n_ops=40):
        self.w, self.rng, self.nids, self.n_ops = w, rng, nids, n_ops

    mods: frozenset = frozenset()      # module numbers that currently exist (set by gen_history)

    def name_for(self, tag):
        rng, d = self.rng, self.w.desc[tag]
        if tag == 1 and rng.random() < 0.7:
            missing = [m for m in (3, 4) if m not in self.mods]
            if missing:
                return f'U{missing[0]}'
        if d['global']:
            return 'U' + str(rng.choice([3, 3, 3, 4, 4, 5, 0]))
        m = rng.choice([3, 3, 3, 3, 4, 4, 5, 0, 0])
        if d['sn'] and rng.random() < 0.85:
            return f'S{m}.{rng.choice([3, 4])}.{rng.randrange(2)}.{rng.randrange(2)}'
        return f'Q{m}.{rng.randrange(3)}'

    def pick_id(self, present, p_present):
        rng = self.rng
        if present and rng.random() < p_present:
            return rng.choice(sorted(present))
        absent = [i for i in range(self.nids) if i not in present]
        if absent and rng.random() < 0.8:
            return rng.choice(absent)
        return rng.randrange(self.nids)

    def ref_val(self, f, tag, present, p_present=0.8):
        rng, d = self.rng, self.w.desc[tag]
        if d['kinds'][f] == 'single':
            return f'r{self.pick_id(present, p_present)}'
        k = rng.choice([0, 1, 1, 2, 2, 3])
        ids = [self.pick_id(present, p_present) for _ in range(k)]
        if d['kinds'][f] in ('set', 'expr'):
            ids = sorted(set(ids))
        return 'l' + (','.join(map(str, ids)) or '-')

    def fields(self, tag, present, p_present=0.8, allow_none=False, with_name=None):
        """a few distinct field assignments"""
        rng, d = self.rng, self.w.desc[tag]
        kvs = []
        if with_name is not None:
            kvs.append((d['name'], with_name))
        reff = d['single'] + d['coll']
        for f in rng.sample(reff, min(len(reff), rng.choice([0, 1, 1, 2, 3]))):
            if allow_none and rng.random() < 0.2:
                kvs.append((f, 'N'))
            else:
                kvs.append((f, self.ref_val(f, tag, present, p_present)))
        if d['atoms'] and rng.random() < 0.3:
            f = rng.choice(d['atoms'])
            kvs.append((f, 'N' if allow_none and rng.random() < 0.3 else f'a{rng.randrange(3)}'))
        rng.shuffle(kvs)
        return kvs

    def raw_op(self, types: dict[int, int], wild: bool):
        rng, w = self.rng, self.w
        present = set(types)
        r = rng.random()
        kv = lambda kvs: ' '.join(f'{f}={v}' for f, v in kvs)
        if r < 0.34 or not present:
            tag = rng.choices(TAGS, TAG_W)[0]
            if not any(t == 1 for t in types.values()) and rng.random() < 0.6:
                tag = 1
            i = self.pick_id(present, 0.12)
            nm = self.name_for(tag)
            if wild and rng.random() < 0.03:
                nm = None
            kvs = self.fields(tag, present, 0.75, with_name=('n' + nm if nm else None))
            if wild and rng.random() < 0.04:
                # a short data tuple (what upgrade_schema repairs): the IndexError exits
                k = rng.randrange(w.desc[tag]['nfields'])
                return f'add {i} {tag} len={k} {kv(kvs)}'.rstrip()
            return f'add {i} {tag} {kv(kvs)}'.rstrip()
        if r < 0.56:
            i = self.pick_id(present, 0.92)
            tag = types.get(i, 2)
            d = w.desc[tag]
            x = rng.random()
            if x < 0.3:
                v = 'n' + self.name_for(tag) if rng.random() < 0.93 else 'N'
                return f"set {i} {d['name']} {v}"
            if x < 0.85:
                f = rng.choice(d['single'] + d['coll'])
                v = self.ref_val(f, tag, present) if rng.random() < 0.94 else 'N'
                return f'set {i} {f} {v}'
            if d['atoms']:
                return f"set {i} {rng.choice(d['atoms'])} {'a' + str(rng.randrange(3)) if rng.random() < 0.8 else 'N'}"
            return f"set {i} {d['name']} n{self.name_for(tag)}"
        if r < 0.72:
            i = self.pick_id(present, 0.95 if not wild else 0.85)
            if i in types:
                tag = types[i]
            else:
                if not wild:
                    i = rng.choice(sorted(present))
                    tag = types[i]
                else:
                    tag = rng.choices(TAGS, TAG_W)[0]
            nm = ('n' + self.name_for(tag) if rng.random() < 0.9 else 'N') if rng.random() < 0.3 else None
            kvs = self.fields(tag, present, 0.8, allow_none=True, with_name=nm)
            return f'upd {i} {tag} {kv(kvs)}'.rstrip()
        if r < 0.80:
            i = self.pick_id(present, 0.9)
            tag = types.get(i, 2)
            d = w.desc[tag]
            f = rng.choice([d['name']] + (d['single'] + d['coll']) * 2 + d['atoms'])
            return f'unset {i} {f}'
        if r < 0.94 or not wild:
            i = self.pick_id(present, 0.85)
            tag = types.get(i, rng.choices(TAGS, TAG_W)[0])
            return f"{'del' if rng.random() < 0.8 else 'dis'} {i} {tag}"
        return f'delist {self.name_for(2)}'

    def cmd(self, types: dict[int, int], real: 'Real'):
        rng, w = self.rng, self.w
        present = set(types)
        r = rng.random()
        kv = lambda kvs: ' '.join(f'{f}={v}' for f, v in kvs)
        if r < 0.45 or not present:
            tag = rng.choices(TAGS, TAG_W)[0]
            if not any(t == 1 for t in types.values()) and rng.random() < 0.6:
                tag = 1
            i = self.pick_id(present, 0.1)
            kvs = self.fields(tag, present, 0.93, with_name='n' + self.name_for(tag))
            # make parents own their children now and then: child.source/subject = parent,
            # parent.pointers/constraints ∋ child is established by a later alter
            return f'create {i} {tag} {kv(kvs)}'.rstrip()
        if r < 0.62:
            i = self.pick_id(present, 0.93)
            tag = types.get(i, 2)
            d = w.desc[tag]
            if rng.random() < 0.5 and d['own']:
                # adopt: put some present objects into an owned collection
                f = rng.choice(d['own'])
                ids = [self.pick_id(present, 0.95) for _ in range(rng.choice([1, 1, 2]))]
                return f"alter {i} {f}=l{','.join(map(str, ids))}"
            nm = 'n' + self.name_for(tag) if rng.random() < 0.3 else None
            kvs = self.fields(tag, present, 0.93, allow_none=True, with_name=nm)
            return f'alter {i} {kv(kvs)}'.rstrip()
        if r < 0.72:
            i = self.pick_id(present, 0.93)
            tag = types.get(i, 2)
            d = w.desc[tag]
            if rng.random() < 0.35:
                return f"cset {i} {d['name']} n{self.name_for(tag)}"
            f = rng.choice(d['single'] + d['coll'])
            return f'cset {i} {f} {self.ref_val(f, tag, present, 0.93)}'
        if r < 0.78:
            i = self.pick_id(present, 0.93)
            tag = types.get(i, 2)
            d = w.desc[tag]
            return f"cunset {i} {rng.choice(d['single'] + d['coll'] + [d['name']])}"
        if rng.random() < 0.3:
            return f'gc {self.pick_id(present, 0.93)}'
        return f'drop {self.pick_id(present, 0.93)}'


# ------------------------------------------------------------ one history
def run_history(w: World, source, mode, universe, names, tally):
    """Runs one history on a fresh real schema.  `source` is either a list of
    (line, variant) pairs (corpus / exhaustive / replay) or a `Gen` — then the next
    operation is generated from what the real schema contains at that moment (one
    pass: generation, execution, audit), `n_ops` operations long.
    Returns (lines, variants, per-line (status, dump, oracle verdicts), frozen verdicts)."""
    real = Real(w)
    outs, lines, variants = [], [], []
    inv_expected = True
    d0 = dump_real(w, real.s)
    real.versions.append((real.s, d0))
    fixed = isinstance(source, list)
    n_ops = len(source) if fixed else source.n_ops
    for k in range(n_ops):
        if fixed:
            line, var = source[k]
        else:
            g = source
            types = real.handle_types()
            g.mods = frozenset(modnum(n.name) for (c, n) in real.s._globalname_to_id
                               if c is w.classes[1] and re.fullmatch(r'm\d+|__\w+__', n.name))
            line = g.cmd(types, real) if mode == 'cmd' else g.raw_op(types, wild=(mode == 'wild'))
            var = g.rng.randrange(2)
        lines.append(line)
        variants.append(var)
        before = real.s
        dump_before = dump_real(w, before)
        op = line.split()[0]
        # raw-operation guard of store_inv: no delist, update_obj only on present objects
        t = line.split()
        guard_ok = not (op == 'delist' or (op == 'upd' and not real.present(int(t[1])))
                        or (op in ('del', 'dis', 'upd') and real.types().get(int(t[1]), int(t[2])) != int(t[2])))
        status, ns = real.run(line, var)
        real.note(line, status)
        bad = []
        if status != 'ok':
            if ns is not before:
                bad.append('rejected operation returned a different schema object')
            if dump_real(w, before) != dump_before:
                bad.append('rejected operation changed the schema it was applied to')
        else:
            if dump_real(w, before) != dump_before:
                bad.append('operation changed the schema value it was applied to (not persistent)')
        if inv_expected and guard_ok and status in ('err KeyError', 'err LookupError'):
            # from a consistent schema (audited after the previous operation) a guarded raw
            # operation has no business tripping over a missing index entry
            bad.append(f'internal {status[4:]} raised from a schema that satisfies Inv')
        real.s = ns
        dmp = dump_real(w, ns)
        if status == 'ok' and ns is not before:
            real.versions.append((ns, dmp))
        if not guard_ok and status == 'ok':
            inv_expected = False
        if inv_expected:
            bad += audit(w, ns, universe, names, check_dangling=(mode == 'cmd'))
            tally['audits'] += 1
        outs.append((status, dmp, bad))
        tally['ops'][op] = tally['ops'].get(op, 0) + 1
        tally['status'][status] = tally['status'].get(status, 0) + 1
        if op == 'drop':
            key = ('absent' if status == 'err InvalidReferenceError' else
                   'refused: outside referrer' if status != 'ok' else
                   'ok: single object' if getattr(real, 'last_drop', 1) == 1 else 'ok: with owned children')
            tally['drops'][key] = tally['drops'].get(key, 0) + 1
    # frozen versions
    frozen_bad = []
    for k, (sv, first) in enumerate(real.versions):
        if dump_real(w, sv) != first:
            frozen_bad.append(f'schema version #{k} changed after it was obtained')
    tally['versions'] += len(real.versions)
    tally['vn_failures'] += real.vn_failures
    return lines, variants, outs, frozen_bad, real.s


def gen_exhaustive(w: World):
    """every history of <= 4 operations from a small alphabet over 3 objects
    (a module, two object types referring to each other)"""
    alpha = [
        'add 0 1 2=nU3',
        'add 1 2 2=nQ3.0',
        'add 2 2 2=nQ3.1 14=r1 17=l1',
        'add 2 3 2=nQ3.0 14=r1',
        'set 1 14 r2',
        'set 2 2 nQ3.0',
        'set 1 2 nQ4.0',
        'upd 2 2 17=l1,2 14=N',
        'upd 1 2 2=nQ3.1',
        'unset 2 14',
        'unset 1 2',
        'del 1 2',
        'del 2 2',
        'del 0 1',
        'dis 2 2',
        'delist Q3.0',
    ]
    for n in range(1, 5):
        for combo in itertools.product(alpha, repeat=n):
            yield list(combo)


# the guard-necessity witnesses of Props/C04.lean (store_inv_needs_*), replayed on the real code:
# after the last operation the audit of Inv on the REAL schema must fail.
WITNESSES = [
    ('wild', ['add 0 1 2=nU3', 'add 1 2 2=nQ3.0', 'delist Q3.0']),
    ('wild', ['upd 5 2 14=r5']),
    ('wild', ['add 0 1 2=nU3', 'add 1 2 2=nQ3.0', 'add 2 2 2=nQ3.1 14=r1', 'del 2 7']),
]


# --------------------------------------------------------------------- run
def run(ctx: core.Ctx):
    proved = ctx.proof_stage(PROPS, ['EdbVerif.Props.C04', 'Driver.C04'], required=REQUIRED)
    ctx.log('proof stage:', 'ok' if proved else ctx.proof['broken'])

    # install the shims and the front-end bridge before anything of edb is imported
    # (level 2 needs the bridge; level 1 is indifferent to it)
    try:
        from bridge import env as bridge_env
        bridge_env.setup()
    except ImportError:
        bridge_env = None
    w = World()
    if w.cls_line(1) != MODULE_CLS_LINE:
        ctx.fail('corr:module-layout', 'edb.schema.modules.Module no longer has the layout hard-coded in '
                 'Model/Store.lean::moduleCls', {'real': w.cls_line(1), 'model': MODULE_CLS_LINE,
                                                 'stream': 'class descriptors'}, no_input=True)
    header = ['reset'] + [w.cls_line(t) for t in TAGS]
    universe = list(range(NIDS))
    names = name_universe()

    sources = []      # (mode, source)
    if ctx.replay:
        rp = json.load(open(ctx.replay))
        for f in rp['failures']:
            d = f.get('detail')
            if isinstance(d, dict) and 'history' in d:
                vs = d.get('variants') or [0] * len(d['history'])
                sources.append((d['mode'], list(zip(d['history'], vs))))
    else:
        for wmode, wl in WITNESSES:
            sources.append((wmode, [(l, 0) for l in wl]))
        exh = list(gen_exhaustive(w))
        if ctx.quick():
            # a slice of the exhaustive space that rotates with the seed
            exh = [h for j, h in enumerate(exh) if len(h) <= 2 or j % 40 == ctx.seed % 40]
        for h in exh:
            sources.append(('wild', [(l, 0) for l in h]))
        n_hist = ctx.budget(330, 20000)
        for k in range(n_hist):
            sources.append((('guarded', 'wild', 'cmd')[k % 3], Gen(w, ctx.rng)))
    ctx.log(f'{len(sources)} histories to run')

    tally = {'ops': {}, 'status': {}, 'audits': 0, 'versions': 0, 'vn_failures': 0, 'drops': {}}
    st = {'n_dis': 0, 'n_fail_hist': 0, 'nontrivial': 0, 'n_ops': 0, 'n_hist': 0}
    distinct = set()
    samples = []
    n_corr_reported = 0

    def compare_batch(batch):
        """batch: [(mode, lines, variants, outs, frozen_bad)] -> pipes the same lines through the
        Lean driver and compares"""
        nonlocal n_corr_reported
        all_lines = []
        for (_mode, lines, _v, _o, _f) in batch:
            all_lines += header + lines
        model = ctx.driver('C04', all_lines)
        if len(model) != len(all_lines):
            raise core.Infra(f'driver returned {len(model)} lines for {len(all_lines)}')
        pos = 0
        for (mode, lines, variants, outs, frozen_bad) in batch:
            hm = model[pos:pos + len(header) + len(lines)]
            pos += len(header) + len(lines)
            if any(x != 'ok' and not x.startswith('ok|') for x in hm[:len(header)]):
                raise core.Infra(f'driver rejected the class table: {hm[:len(header)]}')
            hkey = hashlib.sha1(('\n'.join(lines) + repr(variants)).encode()).hexdigest()[:12]
            detail = {'mode': mode, 'history': lines, 'variants': variants}
            oracle_failed = False
            for k, (status, dmp, bad) in enumerate(outs):
                for b in bad:
                    oracle_failed = True
                    ctx.fail(f'oracle:{hkey}:{k}', f'{b} (after operation #{k}: {lines[k]})',
                             detail | {'at': k, 'real_status': status, 'real_dump': dmp})
            for b in frozen_bad:
                oracle_failed = True
                ctx.fail(f'frozen:{hkey}', b, detail)
            for k, ((status, dmp, bad), mline) in enumerate(zip(outs, hm[len(header):])):
                if mline == 'bad-op':
                    raise core.Infra(f'driver rejected generated line {lines[k]!r}')
                mstatus, _, mdump = mline.partition('|')
                if mstatus != status or canon_model_dump(w, mdump) != dmp:
                    st['n_dis'] += 1
                    if not oracle_failed and n_corr_reported < 50:
                        n_corr_reported += 1
                        ctx.fail(f'corr:{hkey}:{k}', 'model and implementation disagree (property holds on this input)',
                                 detail | {'at': k, 'op': lines[k], 'real': status + '|' + dmp,
                                           'model': mstatus + '|' + canon_model_dump(w, mdump),
                                           'stream': 'FlatSchema raw ops vs EdbVerif.Store.step'}, no_input=True)
                    break
            if oracle_failed:
                st['n_fail_hist'] += 1
            n_ok = sum(1 for o in outs if o[0] == 'ok')
            if n_ok >= 2 and hkey not in distinct:
                distinct.add(hkey)
                st['nontrivial'] += 1
            if len(samples) < 4 and len(lines) >= 10 and not any(x['mode'] == mode for x in samples):
                samples.append({'mode': mode, 'first_ops': lines[:6], 'statuses': [o[0] for o in outs[:6]]})
            st['n_ops'] += len(lines)
            st['n_hist'] += 1

    batch = []
    for idx, (mode, source) in enumerate(sources):
        lines, variants, outs, frozen_bad, final = run_history(w, source, mode, universe, names, tally)
        if not ctx.replay and idx < len(WITNESSES):
            # Lean proves Inv is broken after this history; the real schema must show it too
            if not audit(w, final, universe, names, False):
                ctx.fail(f'witness:{idx}', 'a guard-necessity witness of Props/C04.lean does not break '
                         'Inv on the real FlatSchema', {'mode': mode, 'history': lines,
                                                        'stream': 'store_inv_needs_* witnesses'}, no_input=True)
            tally['witnesses'] = tally.get('witnesses', 0) + 1
        batch.append((mode, lines, variants, outs, frozen_bad))
        if sum(len(b[1]) for b in batch) >= 60000:
            compare_batch(batch)
            batch = []
            ctx.log(f"  … {st['n_hist']} histories, {st['n_ops']} operations compared")
    if batch:
        compare_batch(batch)
    ctx.log(f"real FlatSchema vs model: {st['n_hist']} histories, {st['n_ops']} operations, "
            f"{tally['audits']} audits, {tally['versions']} schema versions kept; statuses {tally['status']}; "
            f"drops {tally['drops']}")
    n_dis, n_fail_hist, nontrivial = st['n_dis'], st['n_fail_hist'], st['nontrivial']
    histories = None
    # ---- level 2: real DDL through the real schema engine (front-end bridge)
    l2 = None
    if not ctx.replay or any(isinstance(f.get('detail'), dict) and 'script' in f['detail']
                             for f in json.load(open(ctx.replay))['failures']):
        try:
            from props import c04_level2
        except ImportError as e:
            raise core.Infra(f'level 2 unavailable: {e}') from e
        l2 = c04_level2.run_level2(ctx)

    if not proved:
        ctx.proof_broken_verdict()

    ctx.cov.update({
        'evaluations': st['n_ops'],
        'histories': st['n_hist'],
        'distinct_nontrivial': nontrivial,
        'rule': 'a history = a sequence of operations from the empty schema over 9 real classes (Module, ObjectType, '
                'Property, Link, Constraint, Function, Annotation, AnnotationValue, Role), 8 ids and a small name '
                'pool; three kinds rotate: raw operations inside the guard of store_inv, raw operations with misuse '
                '(delist, update_obj on an absent object, nameless objects), guarded commands (create/alter/drop); '
                'plus exhaustive histories of <= 4 operations from a 16-operation alphabet over 3 objects '
                '(quick tier: all of length <= 2 and 1/40 of the rest, rotating with the seed). '
                'non-trivial = at least two operations succeed; distinct = distinct operation sequence',
        'samples': samples,
        'operation_histogram': tally['ops'],
        'outcome_histogram': tally['status'],
        'oracle_audits': tally['audits'],
        'drop_commands': tally['drops'],
        'guard_witnesses_confirmed_on_real_code': tally.get('witnesses', 0),
        'schema_versions_refingerprinted': tally['versions'],
        'already_exists_message_not_renderable': tally['vn_failures'],
        'disagreements_model_vs_impl': n_dis,
        'histories_with_oracle_failure': n_fail_hist,
        'exhaustive': False,
        'level2_real_ddl': l2,
        'correspondence': 'real edb.schema.schema.FlatSchema vs Lean EdbVerif.Store: status (ok / exception class) and '
                          'the complete content of _id_to_data, _id_to_type, _name_to_id, _globalname_to_id, '
                          '_shortname_to_id, _refs_to after every operation',
    })
    ctx.assumptions += [
        'raw-operation histories are restricted to shape-correct values (a reference field gets a reduced object / '
        'collection / expression, the name field a name of the kind the class wants) and to handles whose class is the '
        'one the schema records for a present id (what get_by_id returns)',
        'Inv is claimed (and audited) only while the history stays inside the guard of store_inv: no delist, '
        'update_obj only on present objects; outside it only the model/implementation comparison, the '
        '"rejected => unchanged" check and the frozen-version check apply',
        "level 1 does not run the command engine of delta.py: its guarded command layer is the model's, re-implemented "
        'in the harness over the real FlatSchema with get_referrers as the referrer test; the real engine is '
        'exercised at level 2 (generated DDL scripts through the front-end bridge), where the declarative invariant '
        'is audited on the real schema after every statement',
    ]
    ctx.assumptions += [
        'refdict collections (ObjectType.pointers, .annotations, .constraints, …) carry name-derived keys inside the '
        'reduced collection value; FlatSchema stores them as opaque data, so the Lean model and its Inv do not speak '
        'about them: key consistency (key == key of the member\'s current name, lookup through the owner, no orphans) '
        'and first-pass == canonical-replay are checked by the real-code oracle of level 2 only',
    ]
    ctx.trusted_base += [
        'hand-written model EdbVerif/Model/Store.lean of FlatSchema; tied by the differential run above',
        'harness/props/c04.py: generators, value translators, dump canonicalisation and the Python audit of Inv / NoDangling',
        'an exception raised while rendering the "... already exists" message for a synthetic object is counted as '
        'the SchemaError it was about to raise',
    ]
