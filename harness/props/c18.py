"""C18 — quoted literals and identifiers cannot break out of their quotes.

Proof: lean/EdbVerif/Props/C18.lean over Model/{Lex,Quote,PgLex}.lean.

Tie, three independent legs (all on the REAL code from /repo):
 (1) the Python quoting functions (edb.edgeql.quote, edb.edgeql.codegen
     visit_Constant / visit_BytesConstant through generate_source,
     edb.pgsql.common, edb.pgsql.codegen, dbops.base.encode_value) against
     Model/Quote.lean, on an adversarial alphabet (exhaustive short strings),
     all keywords in three case variants and random long strings;
 (2) Model/Lex.lean against the REAL Rust tokenizer (lib.rustlex, rebuilt from
     /repo on every run) on the quoted outputs, on the outputs followed by
     delimiters, and on raw adversarial text: kind, unescaped value, consumed
     length, error class of the first token;
 (3) the oracle S on real code only: real quoting function -> real tokenizer ->
     exactly one token (+EOI) with the original value (also inside delimiter
     contexts).  For the SQL forms there is no server: the oracle is
     Model/PgLex.lean (my transcription of the PostgreSQL documentation, trusted)
     executed by the Lean driver on the real outputs.

Known-false regions left on the current tree (see notes/C18.known_findings.json), each reported with
ONE stable key and the minimal witness in the detail: dbops-textwrap-alters-literal:*,
dbops-marker-substitution-in-literal:fixup_query and
`pg-eliteral-backslash:quote_e_literal` (`quote_e_literal` does not escape
backslashes; dead code) and `pg-name-byte-length:edgedb_name_to_pg_name` (the
length guard counts characters, PostgreSQL truncates at 63 bytes; the detail
carries a colliding pair).
Every other oracle failure is a violation keyed by the function and the input —
in particular a reappearance of the defects repaired by 269eaeb / 6e967b8 /
1c83ec0 / 878e057 (see notes/C18.known_findings.json).
"""
from __future__ import annotations

import base64
import hashlib
import importlib.util
import itertools
import json
import os
import re
import unicodedata

from lib import core, rustlex

PROPS = 'EdbVerif/Props/C18.lean'
REQUIRED = [
    'EdbVerif.C18.edgeql_str', 'EdbVerif.C18.edgeql_dollar', 'EdbVerif.C18.edgeql_dollar_tag',
    'EdbVerif.C18.edgeql_const', 'EdbVerif.C18.edgeql_bytes',
    'EdbVerif.C18.edgeql_ident', 'EdbVerif.C18.edgeql_ident_forced',
    'EdbVerif.C18.edgeql_str_single', 'EdbVerif.C18.edgeql_dollar_single',
    'EdbVerif.C18.edgeql_const_single', 'EdbVerif.C18.edgeql_bytes_single',
    'EdbVerif.C18.pg_literal', 'EdbVerif.C18.pg_ident', 'EdbVerif.C18.pg_bytea',
    'EdbVerif.C18.pg_eliteral_partial', 'EdbVerif.C18.pg_eliteral_counterexample',
    'EdbVerif.C18.edgeql_dollar_total', 'EdbVerif.C18.edgeql_const_total',
    'EdbVerif.C18.pg_name_length', 'EdbVerif.C18.pg_name_partial', 'EdbVerif.C18.pg_name_counterexample',
    'EdbVerif.C18.pg_do_block', 'EdbVerif.C18.pg_funcbody', 'EdbVerif.C18.pg_comment_on',
    'EdbVerif.C18.edgeql_param',
]

BIDI = set(range(0x202A, 0x202F)) | set(range(0x2066, 0x206A))

# ------------------------------------------------------------------ alphabets
A_STR = ["'", '"', '\\', '$', '\n', 'a', '\x85', '‮', '\x00', '(', '\t', '1']
A_ID = ['`', '_', 'a', '1', ':', '@', '$', '²', 'é', ' ', 'S', '.']
A_MIX = ["'", '"', '`', '\\', '$', '\n', '\r', 'e', 'n', '_', '.', '9']
A_RAW = ["'", '"', '`', '\\', '$', 'x', '4', '+', 'u', 'b', 'r', '(', ')', '\n', ' ', '#', '_',
         ':', '?', '!', '=', '.', '<', '@', 'a', 'é', '‮', '\x00', '0', 'U']
POOL = (
    [chr(c) for c in range(0, 0x21)] + [chr(0x7f)] + [chr(c) for c in range(0x80, 0xa2)] +
    ['­', 'ª', '²', 'µ', '½', 'ß', 'é', 'İ', 'ı', 'ǅ',
     'ʰ', '́', 'ͅ', 'Σ', 'ς', 'σ', '٠', '०', ' ', ' ',
     '​', '‍', ' ', ' ', '‪', '‫', '‬', '‭', '‮', ' ',
     ' ', '⁦', '⁧', '⁨', '⁩', 'Ⅰ', 'Ⅷ', 'K', '①', '　',
     '〇', '一', '三', '꧐', '힣', '', 'ﬁ', '﻿', '０', 'Ａ',
     '￿', '\U00010000', '\U0001d49c', '\U0001d7ce', '\U0001f600', '\U000e0001', '\U0010ffff'])
ASCII_PRINT = [chr(c) for c in range(0x20, 0x7f)]
TAGLIKE = ['$a$', '$$', '$b$', '$a', '$1a$', '$a1$', '$f$', '$aa$']
CONTEXTS = ['', ';', ' x', "'", '"', '$', '$$', 'a', '`', '``', '_', '1', '\n', '\\', ')', 'é', '::', '.', "\n'"]
ID_CONTEXTS = ['', ';', ' x', '.', '(', ':=', '\n', ')']


def _genkw():
    p = os.path.join(core.VERIF, 'harness', 'gen', 'keywords.py')
    spec = importlib.util.spec_from_file_location('c18_gen_keywords', p)
    m = importlib.util.module_from_spec(spec)
    spec.loader.exec_module(m)
    return m


def hx(s: str) -> str:
    return '=' + s.encode('utf-8').hex()


def unhx(f: str) -> str:
    return bytes.fromhex(f[1:]).decode('utf-8')


def case_variants(k: str, rng):
    out = {k, k.upper(), k.capitalize()}
    out.add(''.join(c.upper() if rng.random() < 0.5 else c for c in k))
    return sorted(out)


# ------------------------------------------------------------ the real functions
class Real:
    def __init__(self):
        import shim  # noqa: F401  (stubs for the native modules)
        from edb.edgeql import quote as q, codegen as qc, ast as qlast
        from edb.pgsql import common as pc, codegen as pgc, ast as pgast
        from edb.pgsql.dbops import base as dbase
        from edb.edgeql.parser.grammar import keywords as qlkw
        from edb.pgsql import keywords as pgkw
        self.q, self.qc, self.qlast, self.pc, self.pgc, self.pgast, self.dbase = q, qc, qlast, pc, pgc, pgast, dbase
        self.qlkw, self.pgkw = qlkw, pgkw

    def call(self, f, *a, **k):
        try:
            return f(*a, **k)
        except Exception as e:  # an exception of the code under test is an outcome
            return f'!EXC {type(e).__name__}'

    def strings(self, s: str) -> list:
        """the 12 outputs of the driver's Q line, same order"""
        q, pc = self.q, self.pc
        c = self.call
        return [
            c(q.escape_string, s), c(q.quote_literal, s), c(q.dollar_quote_literal, s),
            c(lambda: self.qc.generate_source(self.qlast.Constant.string(s))),
            c(q.quote_ident, s), c(q.quote_ident, s, force=True),
            c(q.quote_ident, s, allow_reserved=True), c(q.quote_ident, s, allow_num=True),
            c(pc.quote_literal, s), c(pc.quote_e_literal, s),
            c(pc.quote_ident, s), c(pc.quote_ident, s, column=True),
            c(self.qc.param_to_str, s),
        ]

    def via_generators(self, s: str) -> dict:
        """the same strings through the code generators / encode_value"""
        c = self.call
        return {
            'pgsql.codegen StringConstant': c(lambda: self.pgc.generate_source(self.pgast.StringConstant(val=s))),
            'dbops.encode_value': c(self.dbase.encode_value, s),
            'dbops.encode_value tuple': c(self.dbase.encode_value, (s,)),
            'param_to_str': c(self.qc.param_to_str, s),
            'ident_to_str': c(self.qc.ident_to_str, s),
        }

    def bytes_(self, b: bytes) -> list:
        c = self.call
        return [
            c(lambda: self.qc.generate_source(self.qlast.BytesConstant(value=b))),
            c(self.pc.quote_bytea_literal, b),
        ]

    def bytes_via_generators(self, b: bytes) -> dict:
        c = self.call
        return {'pgsql.codegen ByteaConstant': c(lambda: self.pgc.generate_source(self.pgast.ByteaConstant(val=b)))}


QNAMES = ['escape_string', 'quote_literal', 'dollar_quote_literal', 'visit_Constant', 'quote_ident',
          'quote_ident(force)', 'quote_ident(allow_reserved)', 'quote_ident(allow_num)',
          'pg.quote_literal', 'pg.quote_e_literal', 'pg.quote_ident', 'pg.quote_ident(column)', 'param_to_str']
BNAMES = ['visit_BytesConstant', 'pg.quote_bytea_literal']

# ----------------------------------------------------- Rust result -> model form
ERR_MAP = [
    (r'unterminated string, quoted by', 'unterminatedString'),
    (r'unterminated string with interpolations', 'unterminatedString'),
    (r'unterminated backtick', 'unterminatedBacktick'),
    (r'unterminated string started with', 'unterminatedDollar'),
    (r'character U\+[0-9A-F]+ is not allowed', 'prohibited'),
    (r'prefix .* is not allowed for strings', 'badPrefix'),
    (r'prefix .* is not allowed for field names', 'badFieldPrefix'),
    (r'backtick-quoted (name|argument) cannot start with char `@`', 'backtickAt'),
    (r'backtick-quoted name cannot start with char `\$`', 'backtickDollar'),
    (r'backtick-quoted (name|argument) cannot contain `::`', 'backtickNamespace'),
    (r'backtick-quoted (names|arguments) surrounded by double underscores', 'backtickDunder'),
    (r'backtick quotes cannot be empty|backtick-quoted argument cannot be empty', 'backtickEmpty'),
    (r'identifiers surrounded by double underscores are forbidden', 'identDunder'),
    (r'bare \$ is not allowed', 'bareDollar'),
    (r'dollar quote must not start with a digit', 'dollarDigit'),
    (r'dollar quote supports only ascii chars', 'dollarNonAscii'),
    (r'the .* is not a valid argument', 'badArgument'),
    (r'invalid (string|bytes) literal: invalid escape sequence', 'badEscape'),
    (r'quoted string cannot end in slash', 'endInSlash'),
    (r'invalid bytes literal: character', 'bytesNonAscii'),
    (r'Bare `\?`|Bare `!`|`\?!` is not an operator', 'bareOp'),
    (r'only alphanumerics are allowed in \\\(name\) token|unclosed \\\(name\) token', 'badSubstitution'),
    (r'unexpected character', 'unexpectedChar'),
]
NUMBER_KINDS = {'IntConst', 'FloatConst', 'BigIntConst', 'DecimalConst'}
NUMBER_ERR = re.compile(r'leading zeros|expected digit|extra decimal dot|optional `\+` or `-`|suffix .* is invalid|'
                        r'error reading|can\'t parse|out of range|number is not|only integers are allowed', re.S)
SIMPLE_KINDS = {'Str': 'str', 'BinStr': 'binStr', 'StrInterpStart': 'strInterpStart', 'Ident': 'ident',
                'Parameter': 'parameter', 'Substitution': 'substitution', 'EOI': 'eoi'}


def rust_first(text: str, res) -> str:
    """first token of the real tokenizer in the driver's `L` output format;
    'SKIP:<why>' for what the model declares out of scope"""
    if res.toks:
        t = res.toks[0]
        consumed = len(text.encode('utf-8')[:t.end].decode('utf-8'))
        if t.kind in NUMBER_KINDS:
            return 'SKIP:number'
        m = re.fullmatch(r'Keyword\(Keyword\("(.*)"\)\)', t.kind)
        if m:
            if ' ' in m.group(1):
                return 'SKIP:combined-keyword'
            kind = 'kw:' + m.group(1)
        elif t.kind in SIMPLE_KINDS:
            kind = SIMPLE_KINDS[t.kind]
        elif t.kind in ('StrInterpCont', 'StrInterpEnd'):
            return 'SKIP:interp-state'
        else:
            kind = 'p:' + t.text.encode().hex()
        if t.kind == 'EOI':
            consumed = len(text)
        if t.vkind == 'none':
            val = 'none ='
        elif t.vkind == 'str':
            val = 'str =' + t.value.hex()
        elif t.vkind == 'bytes':
            val = 'bytes =' + t.value.hex()
        else:
            return 'SKIP:number'
        return f'ok {kind} {val} {consumed}'
    err = res.error or ''
    if NUMBER_ERR.search(err):
        return 'SKIP:number'
    for pat, cls in ERR_MAP:
        if re.search(pat, err, re.S):
            return 'err ' + cls
    return 'err ?' + err


def canon_model_lex(out: str) -> str:
    if out in ('err nulChar', 'err prohibitedChar'):
        return 'err prohibited'   # the real messages for the two are identical for U+0000
    if out == 'err notModelled':
        return 'SKIP:number'
    return out


# --------------------------------------------------------------------- oracle
def is_single_token(res, value: bytes, vkind: str, total_len_bytes: int, kinds) -> bool:
    if res.error is not None or len(res.toks) != 2:
        return False
    t, e = res.toks
    return (e.kind == 'EOI' and t.vkind == vkind and t.value == value and t.start == 0 and
            t.end == total_len_bytes and kinds(t.kind))


def first_token_is(res, value: bytes, vkind: str, end_bytes: int, kinds) -> bool:
    if not res.toks:
        return False
    t = res.toks[0]
    return t.vkind == vkind and t.value == value and t.start == 0 and t.end == end_bytes and kinds(t.kind)


PANICS: list = []


def safe_lex_many(texts):
    """rustlex.lex_many, surviving a panic of the real tokenizer (it has at
    least one: tokenizer.rs parse_number slices `&suffix[..8]` inside a
    multi-byte character, e.g. on `1aééééé`): bisect, mark the culprit."""
    texts = list(texts)
    if not texts:
        return []
    try:
        return rustlex.lex_many(texts)
    except core.Infra:
        if len(texts) == 1:
            PANICS.append(texts[0])
            return [rustlex.LexResult([], 'PANIC')]
        h = len(texts) // 2
        return safe_lex_many(texts[:h]) + safe_lex_many(texts[h:])


# a number token followed by a non-ASCII alphanumeric can hit the panic above; raw
# (unquoted) adversarial text of that shape is left out (numbers are not modelled anyway)
PANIC_SHAPE = re.compile(r'(?<![0-9A-Za-z_\u0080-\U0010ffff])[0-9][0-9A-Za-z_.]*[^\x00-\x7f]')


# ----------------------------------------------------------- history dependence
# The Lean models are pure functions of their arguments.  That the Python
# functions are (no memo / cache / global that lets an earlier call decide a later
# one) is checked here: every entry point, with every flag combination, is
# evaluated on the same inputs at several points of the run and in several
# orders, in this process and in fresh subprocesses; all outputs must agree.

def probe_table(R: 'Real') -> dict:
    """name -> callable(str): every string entry point with every flag combination"""
    q, qc, pc, qlast, pgast = R.q, R.qc, R.pc, R.qlast, R.pgast
    g = qc.generate_source
    t = {
        'escape_string': q.escape_string, 'quote_literal': q.quote_literal,
        'dollar_quote_literal': q.dollar_quote_literal,
        'gen:Constant': lambda s: g(qlast.Constant.string(s)),
        'ident_to_str': lambda s: qc.ident_to_str(s),
        'ident_to_str(allow_num=True)': lambda s: qc.ident_to_str(s, allow_num=True),
        'param_to_str': qc.param_to_str,
        'gen:Ptr': lambda s: g(qlast.Path(steps=[qlast.ObjectRef(name='t'), qlast.Ptr(name=s)])),
        'gen:Ptr(property)': lambda s: g(qlast.Path(steps=[qlast.ObjectRef(name='t'), qlast.Ptr(name='l'),
                                                              qlast.Ptr(name=s, type='property')])),
        'gen:ObjectRef': lambda s: g(qlast.ObjectRef(name=s)),
        'gen:ObjectRef(module)': lambda s: g(qlast.ObjectRef(name='x', module=s)),
        'gen:TypeName': lambda s: g(qlast.TypeName(maintype=qlast.ObjectRef(name=s, module='m'))),
        'gen:ModuleAliasDecl': lambda s: g(qlast.SelectQuery(
            result=qlast.ObjectRef(name='x'), aliases=[qlast.ModuleAliasDecl(module='m', alias=s)])),
        'gen:CreateObjectType': lambda s: g(qlast.CreateObjectType(name=qlast.ObjectRef(name=s, module='m'))),
        'gen:Parameter': lambda s: g(qlast.Parameter(name=s)),
        'pg.quote_literal': pc.quote_literal, 'pg.quote_e_literal': pc.quote_e_literal,
        'pg.qname': lambda s: pc.qname(s, s), 'pg.quote_type': lambda s: pc.quote_type(s),
        'pg.edgedb_name_to_pg_name': pc.edgedb_name_to_pg_name,
        'pg.edgedb_name_to_pg_name(5)': lambda s: pc.edgedb_name_to_pg_name(s, 5),
        'dbops.encode_value': R.dbase.encode_value,
        'gen:pg.StringConstant': lambda s: R.pgc.generate_source(pgast.StringConstant(val=s)),
    }
    for force in (False, True):
        for ar in (False, True):
            for an in (False, True):
                t[f'quote_ident(force={force},allow_reserved={ar},allow_num={an})'] = \
                    (lambda s, force=force, ar=ar, an=an: q.quote_ident(s, force=force, allow_reserved=ar, allow_num=an))
                t[f'needs_quoting({ar},{an})'] = (lambda s, ar=ar, an=an: repr(q.needs_quoting(s, ar, an)))
        for col in (False, True):
            t[f'pg.quote_ident(force={force},column={col})'] = \
                (lambda s, force=force, col=col: pc.quote_ident(s, force=force, column=col))
    t['pg.needs_quoting'] = lambda s: repr((pc.needs_quoting(s), pc.needs_quoting(s, column=True)))
    return t


def probe_table_bytes(R: 'Real') -> dict:
    return {
        'gen:BytesConstant': lambda b: R.qc.generate_source(R.qlast.BytesConstant(value=b)),
        'pg.quote_bytea_literal': R.pc.quote_bytea_literal,
        'gen:pg.ByteaConstant': lambda b: R.pgc.generate_source(R.pgast.ByteaConstant(val=b)),
    }


def probe_order(fnames: list, n_inputs: int, order) -> list:
    """the (function, input index) calls of one phase, in the order `order`:
    'fwd' function-major; 'rev' function-major, functions and inputs reversed;
    'interleave' input-major; 'interleave-rev' input-major, functions reversed;
    an int: shuffled with that seed; a list: explicit calls"""
    import random
    if isinstance(order, list):
        return [tuple(c) for c in order]
    if order == 'fwd':
        return [(f, i) for f in fnames for i in range(n_inputs)]
    if order == 'rev':
        return [(f, i) for f in reversed(fnames) for i in reversed(range(n_inputs))]
    if order == 'interleave':
        return [(f, i) for i in range(n_inputs) for f in fnames]
    if order == 'interleave-rev':
        return [(f, i) for i in range(n_inputs) for f in reversed(fnames)]
    calls = [(f, i) for f in fnames for i in range(n_inputs)]
    random.Random(order).shuffle(calls)
    return calls


def run_probe(R: 'Real', strings: list, byte_strings: list, order) -> list:
    """[(function, kind, input index, output)] in execution order"""
    ts, tb = probe_table(R), probe_table_bytes(R)
    out = []
    names = [('s', f) for f in ts] + [('b', f) for f in tb]
    if isinstance(order, list):
        calls = [(k, f, i) for (k, f, i) in order]
    else:
        cs = probe_order([f for _k, f in names if _k == 's'], len(strings), order)
        cb = probe_order([f for _k, f in names if _k == 'b'], len(byte_strings), order)
        calls = [('s', f, i) for f, i in cs] + [('b', f, i) for f, i in cb]
        if order in ('rev',):
            calls = [('b', f, i) for f, i in cb] + [('s', f, i) for f, i in cs]
    for k, f, i in calls:
        fn = ts[f] if k == 's' else tb[f]
        arg = strings[i] if k == 's' else byte_strings[i]
        out.append((f, k, i, R.call(fn, arg)))
    return out


def _probe_main():
    """entry point of the fresh-process phases: JSON request on stdin, JSON answer on stdout"""
    import sys
    req = json.load(sys.stdin)
    R = Real()
    strings = [bytes.fromhex(h).decode() for h in req['strings']]
    bs = [bytes.fromhex(h) for h in req['bytes']]
    res = run_probe(R, strings, bs, req['order'])
    json.dump(res, sys.stdout)


def fresh_probe(strings: list, byte_strings: list, order) -> list:
    import subprocess
    import sys
    req = json.dumps({'strings': [x.encode().hex() for x in strings], 'bytes': [b.hex() for b in byte_strings],
                      'order': order})
    r = subprocess.run([sys.executable, '-c', 'import props.c18 as m; m._probe_main()'], input=req,
                       capture_output=True, text=True, cwd=os.path.join(core.VERIF, 'harness'))
    if r.returncode != 0:
        raise core.Infra('fresh probe process failed: ' + r.stderr[-600:])
    return [tuple(x) for x in json.loads(r.stdout)]


def history_oracle(ctx, phases: dict, strings: list, byte_strings: list) -> dict:
    """phases: name -> [(function, kind, index, output)] in execution order.  All phases
    must give the same output for the same (function, input)."""
    by_call: dict = {}
    for ph, res in phases.items():
        for (f, k, i, o) in res:
            by_call.setdefault((f, k, i), {})[ph] = o
    bad = [(c, outs) for c, outs in by_call.items() if len(set(map(str, outs.values()))) > 1]
    bad.sort(key=lambda t: (len(strings[t[0][2]]) if t[0][1] == 's' else len(byte_strings[t[0][2]]), t[0]))
    # confirmation in fresh processes: the call alone; then the shortest prefix of the earlier calls ON THE SAME
    # INPUT (taken from a deviating phase) after which the call deviates (binary search), and finally the single
    # last call of that prefix followed by the call: the concrete pair.
    confirmed = {}
    used_inputs = set()
    for (f, k, i), outs in bad:
        if (k, i) in used_inputs or len(confirmed) >= 2:
            continue
        used_inputs.add((k, i))
        solo = fresh_probe(strings, byte_strings, [[k, f, i]])[0][3]
        dev = [ph for ph, o in outs.items() if str(o) != str(solo)]
        if not dev:
            continue
        hist_calls = []
        for (g, k2, i2, _o) in phases[dev[0]]:
            if (g, k2, i2) == (f, k, i):
                break
            if (k2, i2) == (k, i):
                hist_calls.append(g)

        def deviates(prefix):
            res = fresh_probe(strings, byte_strings, [[k, g, i] for g in prefix] + [[k, f, i]])
            return str(res[-1][3]) != str(solo), res
        ok_full, _ = deviates(hist_calls)
        info = {'fresh_process_alone': solo, 'deviating_phase': dev[0], 'earlier_calls_on_this_input': len(hist_calls),
                'history_reproduces_in_fresh_process': ok_full}
        if ok_full and hist_calls:
            lo, hi = 0, len(hist_calls)          # deviates(hist[:hi]) holds, deviates(hist[:lo]) does not
            while hi - lo > 1:
                mid = (lo + hi) // 2
                if deviates(hist_calls[:mid])[0]:
                    hi = mid
                else:
                    lo = mid
            g = hist_calls[hi - 1]
            okp, res = deviates([g])
            info['concrete_pair'] = {'first_call': g, 'first_output': res[0][3], 'second_call': f,
                                     'second_output': res[1][3], 'second_call_alone': solo,
                                     'pair_reproduces': okp}
        confirmed[(f, k, i)] = info
    for (f, k, i), outs in bad[:60]:
        x = strings[i] if k == 's' else byte_strings[i]
        xb = x.encode() if k == 's' else x
        detail = {'input_hex': xb.hex(), 'is_bytes': k == 'b', 'function': f, 'outputs_by_phase': outs,
                  'distinct_calls_with_history_dependent_output': len(bad)}
        if (f, k, i) in confirmed:
            detail['reproduction'] = confirmed[(f, k, i)]
        ctx.fail(f'oracle:history-dependent:{f}:{xb.hex()}',
                 f'{f} gives different outputs for the same input depending on what was called before '
                 f'(the function is not pure: a memo / cache / global decides)', detail)
    return {'phases': list(phases), 'calls_per_phase': len(by_call), 'history_dependent_calls': len(bad)}


# ------------------------------------------------- whole statements, both positions
def statement_stream(R: 'Real', id_pool: list, ptr_pool: list, rng, n: int) -> list:
    """[(template, names, printed text, expected token matchers)]: statements that print the SAME names in
    pointer position (`.name`, where bare digits are legal) and in non-pointer positions (type / alias /
    module / DDL names, where they are not), inside one AST and in consecutive ASTs, both orders."""
    qlast, g = R.qlast, R.qc.generate_source

    def P(a, b, **kw):
        return qlast.Path(steps=[qlast.ObjectRef(name=a), qlast.Ptr(name=b, **kw)])

    def t_path(a, b):
        return ('select A.B', (a, b), qlast.SelectQuery(result=P(a, b)),
                [('kw', 'select'), ('name', a), ('p', '.'), ('ptr', b)])

    def t_ref(a):
        return ('select A', (a,), qlast.SelectQuery(result=qlast.ObjectRef(name=a)), [('kw', 'select'), ('name', a)])

    def t_alias(al, m, a, b):
        return ('with AL as module M select A.B', (al, m, a, b),
                qlast.SelectQuery(result=P(a, b), aliases=[qlast.ModuleAliasDecl(module=m, alias=al)]),
                [('kw', 'with'), ('name', al), ('kw', 'as'), ('kw', 'module'), ('name', m), ('kw', 'select'),
                 ('name', a), ('p', '.'), ('ptr', b)])

    def t_cast(m, a, x, b):
        return ('select <M::A>X.B', (m, a, x, b),
                qlast.SelectQuery(result=qlast.TypeCast(
                    expr=P(x, b), type=qlast.TypeName(maintype=qlast.ObjectRef(name=a, module=m)))),
                [('kw', 'select'), ('p', '<'), ('name', m), ('p', '::'), ('name', a), ('p', '>'),
                 ('name', x), ('p', '.'), ('ptr', b)])

    def t_create(m, a):
        return ('create type M::A', (m, a), qlast.CreateObjectType(name=qlast.ObjectRef(name=a, module=m)),
                [('kw', 'create'), ('kw', 'type'), ('name', m), ('p', '::'), ('name', a)])

    def t_drop(m, a):
        return ('drop type M::A', (m, a), qlast.DropObjectType(name=qlast.ObjectRef(name=a, module=m)),
                [('kw', 'drop'), ('kw', 'type'), ('name', m), ('p', '::'), ('name', a)])

    def t_lprop(a, b, c):
        return ('select A.B@C', (a, b, c),
                qlast.SelectQuery(result=qlast.Path(steps=[qlast.ObjectRef(name=a), qlast.Ptr(name=b),
                                                            qlast.Ptr(name=c, type='property')])),
                [('kw', 'select'), ('name', a), ('p', '.'), ('ptr', b), ('p', '@'), ('ptr', c)])

    seq = []
    # the same name, pointer position first then non-pointer, and the reverse, on disjoint names
    both = [x for x in ptr_pool if x in set(id_pool)]
    for j, x in enumerate(both):
        if j % 2 == 0:
            seq += [t_path('t', x), t_ref(x), t_create('m', x), t_path(x, x)]
        else:
            seq += [t_ref(x), t_path('t', x), t_drop(x, x), t_lprop(x, 'l', x)]
    for _ in range(n):
        a, m, al, x = (rng.choice(id_pool) for _ in range(4))
        b, c = rng.choice(ptr_pool), rng.choice(ptr_pool)
        seq.append(rng.choice([lambda: t_path(a, b), lambda: t_ref(a), lambda: t_alias(al, m, a, b),
                               lambda: t_cast(m, a, x, b), lambda: t_create(m, a), lambda: t_drop(m, a),
                               lambda: t_lprop(a, b, c)])())
    out = []
    for (tmpl, names, node, exp) in seq:
        out.append((tmpl, names, R.call(g, node), exp))
    return out


def _needs_bq(x: str) -> bool:
    """a name that is not a plain ASCII identifier (writing it raw cannot be right)"""
    return not re.fullmatch(r'[A-Za-z_][A-Za-z0-9_]*', x) or x.lower() in _RESERVED_LOWER


_RESERVED_LOWER: set = set()

_RAW_WHAT = ('the visitor writes the name with self.write(node.name) — no quote_ident / ident_to_str — although the '
             'parser builds the node from an Identifier token (back-quoted names are legal): a name that needs '
             'back-quotes comes out raw and is read as several tokens (`a b; drop` ends the statement)')
# template -> (family key, every input fails?, what)
RAW_NAME_TEMPLATES = {
    'declare savepoint A': ('codegen-name-written-raw:visit_DeclareSavepoint', False, _RAW_WHAT),
    'rollback to savepoint A': ('codegen-name-written-raw:visit_RollbackToSavepoint', False, _RAW_WHAT),
    'release savepoint A': ('codegen-name-written-raw:visit_ReleaseSavepoint', False, _RAW_WHAT),
    'reset alias A': ('codegen-name-written-raw:visit_SessionResetAliasDecl', False, _RAW_WHAT),
    'set A := const': ('codegen-name-written-raw:visit_SetField', False, _RAW_WHAT),
    'reset A': ('codegen-name-written-raw:visit_SetField', False, _RAW_WHAT),
    'reset schema to A': ('codegen-reset-schema-prints-object-repr:visit_ResetSchema', True,
                          'visit_ResetSchema formats the ObjectRef NODE into an f-string (and lower-cases it): it prints '
                          '"reset schema to <edb.edgeql.ast.objectref object at 0x…>" for every target'),
}


def _repr_breaks(x: str) -> bool:
    return any(0x80 <= ord(c) <= 0xff and not c.isprintable() for c in x)


def _dollar_breaks(x: str) -> bool:
    return any(ord(c) in BIDI for c in x)


_REPR_WHAT = ('the visitor writes the string with Python repr() ({…!r}): non-printable U+0080–U+00FF come out as \\xNN, '
              'which the tokenizer accepts only below 0x80 (same class as the visit_Constant defect repaired by 1c83ec0)')
_DOLLAR_WHAT = ('the visitor writes the code text with dollar_quote_literal unconditionally; a dollar string has no '
                'escapes, a bidi control in the text is printed raw and rejected by the tokenizer (quote_literal would do)')
# template -> (family key, input is in the known-false region?, what)
LITERAL_TEMPLATES = {
    'create function using sql function L': ('codegen-repr-literal:visit_CreateFunction', _repr_breaks, _REPR_WHAT),
    'create operator using sql operator L': ('codegen-repr-literal:visit_CreateOperator', _repr_breaks, _REPR_WHAT),
    'create operator using sql function L': ('codegen-repr-literal:visit_CreateOperator', _repr_breaks, _REPR_WHAT),
    'create cast using sql function L': ('codegen-repr-literal:visit_CreateCast', _repr_breaks, _REPR_WHAT),
    'create function using sql L': ('codegen-dollar-literal-bidi:visit_CreateFunction', _dollar_breaks, _DOLLAR_WHAT),
    'create cast using sql L': ('codegen-dollar-literal-bidi:visit_CreateCast', _dollar_breaks, _DOLLAR_WHAT),
}


def printer_stream(R: 'Real', id_pool: list, literals: list) -> list:
    """visitors that write a name or a string on their own (not through visit_ObjectRef / visit_Constant)"""
    qlast, g = R.qlast, R.qc.generate_source
    from edb.edgeql import qltypes
    tn = qlast.TypeName(maintype=qlast.ObjectRef(name='str', module='std'))
    sq = qltypes.TypeModifier.SingletonType
    out = []

    def add(tmpl, names, node, exp):
        out.append((tmpl, names, R.call(g, node), exp))
    for a in id_pool:
        add('declare savepoint A', (a,), qlast.DeclareSavepoint(name=a),
            [('kw', 'declare'), ('kw', 'savepoint'), ('name', a)])
        add('rollback to savepoint A', (a,), qlast.RollbackToSavepoint(name=a),
            [('kw', 'rollback'), ('kw', 'to'), ('kw', 'savepoint'), ('name', a)])
        add('release savepoint A', (a,), qlast.ReleaseSavepoint(name=a),
            [('kw', 'release'), ('kw', 'savepoint'), ('name', a)])
        add('reset alias A', (a,), qlast.SessionResetAliasDecl(alias=a), [('kw', 'reset'), ('kw', 'alias'), ('name', a)])
        add('reset schema to A', (a,), qlast.ResetSchema(target=qlast.ObjectRef(name=a)),
            [('kw', 'reset'), ('kw', 'schema'), ('kw', 'to'), ('name', a)])
        if a == a.lower() and a not in ('expr', 'condition', 'target', 'default', 'type', 'annotation'):
            # (`set type` / `set annotation` are multi-word keywords of the tokenizer: not field names)
            # (the parser lower-cases SET / RESET field names)
            add('set A := const', (a,), qlast.SetField(name=a, value=qlast.Constant.integer(1)),
                [('kw', 'set'), ('name', a), ('p', ':='), ('any', '1')])
            add('reset A', (a,), qlast.SetField(name=a, value=None), [('kw', 'reset'), ('name', a)])

    def fn(**code):
        return qlast.CreateFunction(name=qlast.ObjectRef(name='f', module='m'), params=[], returning=tn,
                                    returning_typemod=sq,
                                    code=qlast.FunctionCode(language=qlast.Language.SQL, **code))

    def op(**code):
        return qlast.CreateOperator(name=qlast.ObjectRef(name='+', module='m'), kind=qltypes.OperatorKind.Infix,
                                    params=[], returning=tn, returning_typemod=sq,
                                    code=qlast.OperatorCode(language=qlast.Language.SQL, **code))

    def cast(**code):
        return qlast.CreateCast(from_type=tn, to_type=tn, code=qlast.CastCode(language=qlast.Language.SQL, **code))
    for lit in literals:
        add('create function using sql function L', (lit,), fn(from_function=lit), [('literal-only', lit)])
        add('create function using sql L', (lit,), fn(code=lit), [('literal-only', lit)])
        add('create operator using sql operator L', (lit,), op(from_operator=(lit,)), [('literal-only', lit)])
        add('create operator using sql function L', (lit,), op(from_function=(lit,)), [('literal-only', lit)])
        add('create cast using sql function L', (lit,), cast(from_function=lit), [('literal-only', lit)])
        add('create cast using sql L', (lit,), cast(code=lit), [('literal-only', lit)])
    return out


def check_statements(ctx, fam, stream: list, id_kind) -> dict:
    texts = [t for (_a, _b, t, _e) in stream if isinstance(t, str) and not t.startswith('!EXC')]
    lexed = dict(zip(texts, safe_lex_many(texts)))
    n_bad = 0
    for (tmpl, names, text, exp) in stream:
        r = lexed.get(text)
        ok = r is not None and r.error is None and len(r.toks) == len(exp) + 1 and r.toks[-1].kind == 'EOI'
        if ok and exp[0][0] != 'literal-only':
            for tok, (kind, val) in zip(r.toks, exp):
                if kind == 'kw':
                    ok = tok.text.lower() == val and (tok.kind.startswith('Keyword') or tok.kind == 'Ident')
                elif kind == 'p':
                    ok = tok.text == val and tok.vkind == 'none'
                elif kind == 'any':
                    ok = tok.text == val
                elif kind == 'name':
                    ok = tok.vkind == 'str' and tok.value == val.encode() and id_kind(tok.kind)
                else:   # pointer position: an identifier, or bare digits (tuple element / numeric link name)
                    ok = (tok.kind == 'IntConst' and tok.text == val) or \
                        (tok.vkind == 'str' and tok.value == val.encode() and id_kind(tok.kind))
                if not ok:
                    break
        if exp and exp[0][0] == 'literal-only':
            # the statement must lex, and carry exactly one string token, with this value
            want = exp[0][1]
            strs_ = [t for t in (r.toks if r else []) if t.kind == 'Str']
            ok = r is not None and r.error is None and len(strs_) == 1 and strs_[0].value == want.encode()
        big = []               # (repaired by 638d351)
        nonascii_num = []      # (repaired by 638d351: a regression is an ordinary violation)
        if not ok and nonascii_num:
            fam.add('numeric-name-non-ascii-digits:quote_ident(allow_num)',
                    'quote_ident(allow_num=True) (pointer position, parameters: ident_to_str / visit_Ptr / param_to_str) '
                    'matches purely numeric names with the Unicode \\d, the tokenizer reads ASCII digits only: a name '
                    'like "1\u0662" is left bare and read as the number 1 followed by a stray character',
                    min(nonascii_num, key=lambda v: (len(v), v)), text,
                    {'template': tmpl, 'tokenizer_error': r.error if r else None})
            continue
        raw = None             # (repaired by f480704 / 42c40f7)
        if not ok and raw and (raw[1] or any(_needs_bq(x) for x in names)):
            fam.add(raw[0], raw[2], min(names, key=lambda v: (len(v), v)), text,
                    {'template': tmpl, 'tokenizer_error': r.error if r else None,
                     'tokens': [(t.kind, t.text) for t in (r.toks if r else [])][:8]})
            continue
        lit = None             # (repaired by a7c78b9 / 489a007)
        if not ok and lit and lit[1](names[0]):
            fam.add(lit[0], lit[2], names[0], text, {'template': tmpl, 'tokenizer_error': r.error if r else None})
            continue
        if not ok and big and r is not None and r.error and 'error reading int' in r.error:
            fam.add('numeric-name-u64-overflow:quote_ident(allow_num)',
                    'quote_ident(allow_num=True) (pointer position: ident_to_str / visit_Ptr / param_to_str) leaves a '
                    'purely numeric name bare even when it exceeds 2**64-1; the tokenizer cannot read such an integer '
                    '("number too large to fit in target type"); the back-quoted form would be accepted',
                    min(big, key=lambda v: (len(v), v)), text, {'template': tmpl, 'tokenizer_error': r.error})
            continue
        if not ok:
            n_bad += 1
            if n_bad <= 40:
                ctx.fail('oracle:statement:' + tmpl.replace(' ', '_') + ':' + ':'.join(x.encode().hex() for x in names),
                         'a printed statement is not read back by the real tokenizer with the names of the AST '
                         '(a name in non-pointer position must come back as an identifier, not as a number)',
                         {'template': tmpl, 'names': list(names), 'names_hex': [x.encode().hex() for x in names],
                          'printed': text, 'tokenizer_error': r.error if r else None,
                          'tokens': [(t.kind, t.text) for t in (r.toks if r else [])][:14]})
    return {'statements': len(stream), 'failed': n_bad}


# ------------------------------------------------------------------ dbops wrappers
_LINEBREAKS = '\n\r\x0b\x0c\x1c\x1d\x1e\x85  '


def dbops_oracle(ctx, R: 'Real', fam: 'Families', labels: list) -> dict:
    """edb.pgsql.dbops wraps SQL that carries quoted literals into further quoting layers: the `DO … $__$` block
    of PLTopBlock, the `$____funcbody____$` body of CreateFunction, the '…'-string of SetMetadata's EXECUTE, and it
    re-indents whole statements.  Oracle (PgLex, trusted spec, in the Lean driver): each layer is read back as
    ONE constant whose content still holds the inner literal verbatim."""
    from edb.pgsql import dbops
    ql, qi = R.pc.quote_literal, R.pc.quote_ident
    items = []      # (kind, label, text to lex, op, expectation)
    for lab in labels:
        lit = ql(lab)
        for cond in (False, True):
            b = dbops.PLTopBlock()
            kw = {'neg_conditions': ['true']} if cond else {}
            r = R.call(lambda: dbops.CreateEnum(dbops.Enum(name=('edgedbpub', 'x'), values=[lab]), **kw).generate(b))
            text = R.call(b.to_string) if not (isinstance(r, str) and r.startswith('!EXC')) else r
            pre = 'DO LANGUAGE plpgsql '
            if isinstance(text, str) and text.startswith(pre):
                items.append(('do-cond' if cond else 'do', lab, text[len(pre):], 'PD', (lit, ';', text)))
        f = dbops.Function(name=('edgedbpub', 'f'), text='SELECT ' + lit, returns='text')
        code = R.call(dbops.CreateFunction(f).code)
        if isinstance(code, str) and 'AS $' in code:
            items.append(('func', lab, code[code.index('AS $') + 3:], 'PD', (lit, '\nLANGUAGE', code)))
        md = R.call(dbops.SetSingleDBMetadata('db', {'k': lab}).code)
        if isinstance(md, str) and "json = '" in md:
            items.append(('marker', lab, md[md.index("json = '") + 7:], 'PS', (json.dumps({'k': lab}), None, md)))
        if 0 < len(lab.encode()) <= 63:
            sm = R.call(dbops.SetMetadata(dbops.Database(name=lab), {'k': 'v'}).code)
            if isinstance(sm, str) and sm.startswith('EXECUTE '):
                items.append(('comment', lab, sm[len('EXECUTE '):].lstrip(' '), 'PS',
                              (f'COMMENT ON DATABASE {qi(lab)} IS ', None, sm)))
    # the tag-selection loops (f6e6d09): real tag vs Model/Quote doTag / funcTag on the body the loop saw
    tag_items = []
    for (kind, lab, text, _op, _e) in items:
        if kind in ('do', 'do-cond', 'func'):
            m = re.match(r'\$[A-Za-z0-9_]*\$', text)
            if m:
                tag = m.group(0)
                end = text.rfind('\n' + tag)
                if end > len(tag):
                    tag_items.append((kind, lab, tag, text[len(tag) + 1:end]))
    out_all = ctx.driver('C18', [f'{op} {hx(t)}' for (_k, _l, t, op, _e) in items] +
                         ['T ' + hx(body) for (_k, _l, _t, body) in tag_items])
    out = out_all[:len(items)]
    for (kind, lab, tag, body), mo in zip(tag_items, out_all[len(items):]):
        f = mo.split(' ')
        mtag = unhx(f[1 if kind == 'func' else 0]) if f[1 if kind == 'func' else 0].startswith('=') else f[0]
        if mtag != tag:
            ctx.fail(f'corr:dbops-tag:{kind}:{lab.encode().hex()}', 'Model/Quote tag loop and the real dbops tag differ',
                     {'input_hex': lab.encode().hex(), 'real_tag': tag, 'model_tag': mtag, 'body': body[:200]},
                     no_input=True)
    n_bad = 0
    for (kind, lab, text, op, (want, after, full)), mo in zip(items, out):
        f = mo.split(' ')
        good = False
        if f[0] == 'ok':
            content = unhx(f[1])
            rest = text[int(f[2]):]
            if kind in ('comment', 'marker'):
                good = content == want
            else:
                good = want in content and rest.startswith(after)
        if good:
            continue
        tagged = {'do': '$__$', 'do-cond': '$__$', 'func': '$____funcbody____$'}.get(kind)
        detail = {'layer': kind, 'generated_sql': full, 'pglex': mo[:300]}
        if False:   # (repaired by f6e6d09)
            key = 'dbops-fixed-dollar-tag:' + ('PLTopBlock' if kind != 'func' else 'CreateFunction')
            fam.add(key, f'dbops wraps the SQL in the FIXED dollar tag {tagged} without checking that the body (which '
                         f'carries quoted literals: enum labels, annotation values, defaults, function source) does '
                         f'not contain it: PostgreSQL ends the body at the first occurrence and executes the remainder '
                         f'as top-level SQL', lab, full, detail)
        elif kind in ('do-cond', 'func', 'comment') and any(c in lab for c in _LINEBREAKS) and \
                not (kind == 'comment' and "'" in lab):
            where = {'do-cond': 'PLBlock', 'func': 'CreateFunction', 'comment': 'SetMetadata'}[kind]
            fam.add('dbops-textwrap-alters-literal:' + where,
                    'dbops re-indents whole SQL statements with textwrap (PLBlock.add_command / to_string: indent; '
                    'CreateFunction.code, SetMetadata.creation_code: dedent, which also blanks whitespace-only lines): a '
                    'string literal or quoted identifier that spans lines (an enum label with a newline) gets indentation '
                    'inserted or white space removed INSIDE it — the value changes silently', lab, full, detail)
        elif kind == 'marker' and re.search(r'(edgedb|edgedbstd|edgedbsql|edgedbinstdata)_VER', lab):
            fam.add('dbops-marker-substitution-in-literal:fixup_query',
                    'trampoline.fixup_query replaces the markers edgedb_VER / edgedbstd_VER / edgedbsql_VER / '
                    'edgedbinstdata_VER textually in the WHOLE statement, including inside quoted literals that carry data '
                    '(SetSingleDBMetadata json, the extension config spec json in delta.py): a value containing a marker '
                    'is silently rewritten', lab, full, detail)
        elif False:   # (repaired by 4eafb00)
            fam.add('dbops-comment-on-unescaped-quote:SetMetadata',
                    'SetMetadata / UpdateMetadata splice object.get_id() (a "-quoted identifier) into the \'-quoted string '
                    '\'COMMENT ON … IS \' without doubling single quotes: a database (branch) or role name with an '
                    'apostrophe ends the string early (reachable: CREATE BRANCH `it\'s` -> CreateDatabase -> SetMetadata)',
                    lab, full, detail)
        else:
            n_bad += 1
            if n_bad <= 20:
                ctx.fail(f'oracle:dbops:{kind}:{lab.encode().hex()}',
                         'a dbops quoting layer is not read back (PgLex) as one constant holding the inner literal',
                         {'input_hex': lab.encode().hex(), **detail})
    return {'checks': len(items), 'tag_loop_comparisons': len(tag_items), 'failed_outside_known_regions': n_bad}


def param_oracle(ctx, R: 'Real', fam: 'Families', names: list) -> dict:
    """param_to_str(name) -> real tokenizer -> ONE Parameter token with value name, for every name that some
    parameter form ($name or $`name`) can carry"""
    outs = [R.call(R.qc.param_to_str, x) for x in names]
    bare = ['$' + x for x in names]
    bq = ['$`' + x.replace('`', '``') + '`' for x in names]
    texts = list(dict.fromkeys([o for o in outs if isinstance(o, str)] + bare + bq))
    lx = dict(zip(texts, safe_lex_many(texts)))

    def one(t, x):
        r = lx.get(t)
        return r is not None and r.error is None and len(r.toks) == 2 and r.toks[0].kind == 'Parameter' and \
            r.toks[0].value == x.encode() and r.toks[0].end == len(t.encode())
    n = n_bad = 0
    for x, o, b, q in zip(names, outs, bare, bq):
        if not (one(b, x) or one(q, x)):
            continue
        n += 1
        if isinstance(o, str) and one(o, x):
            continue
        r = lx.get(o)
        extra = {'tokenizer_error': r.error if r else None,
                 'tokens': [(t.kind, t.value.decode('utf-8', 'replace')) for t in (r.toks if r else [])][:4]}
        odd = [c for c in x if c.isalnum() and not c.isalpha() and c not in '0123456789']
        if False:   # (repaired by 237fcc6)
            fam.add('param-name-unicode-numeric:param_to_str',
                    'param_to_str decides with quote_ident\'s identifier classes (\\w: alphanumeric), but after `$` the '
                    'tokenizer continues a name only over ASCII digits, `_` and ALPHABETIC characters: a name with a '
                    'non-ASCII numeric character (superscript two, Arabic-Indic digits, …) is left bare and the parameter '
                    'ends in front of that character (the back-quoted form $`…` is accepted)', x, o, extra)
        elif False:   # (repaired by 638d351)
            fam.add('numeric-name-non-ascii-digits:quote_ident(allow_num)',
                    'quote_ident(allow_num=True) (pointer position, parameters: ident_to_str / visit_Ptr / param_to_str) '
                    'matches purely numeric names with the Unicode \\d, the tokenizer reads ASCII digits only: a name '
                    'like "1٢" is left bare and read as the number 1 followed by a stray character', x, o, extra)
        else:
            n_bad += 1
            if n_bad <= 20:
                ctx.fail(f'oracle:param_to_str:{x.encode().hex()}',
                         'param_to_str: the real tokenizer does not read the output back as one parameter token with '
                         'the original name', {'input_hex': x.encode().hex(), 'real_output': o, **extra})
    return {'checks': n, 'failed_outside_known_regions': n_bad}


class Families:
    """collects oracle failures per known defect family (minimal witness kept)"""

    def __init__(self):
        self.f: dict[str, dict] = {}

    def add(self, key, what, s, out, extra=None):
        r = self.f.setdefault(key, {'what': what, 'count': 0, 'witness': None})
        r['count'] += 1
        w = r['witness']
        plain = isinstance(s, str) and s.isascii() and s.isprintable()
        cand = (not plain, len(s), s)
        if w is None or cand < r['_best']:
            r['_best'] = cand
            r['witness'] = {'input_hex': (s if isinstance(s, bytes) else s.encode()).hex(),
                            'input': s.hex() if isinstance(s, bytes) else s,
                            'real_output': out, **(extra or {})}


def run(ctx: core.Ctx):
    # ---- generated Lean data first (BEFORE lake build), then the real lexer
    changed = _genkw().generate()
    ctx.log('keyword tables regenerated:', changed or 'unchanged')
    ok, log = rustlex.build()
    if not ok:
        raise core.Infra('rustlex.build failed: ' + log[-800:])
    proved = ctx.proof_stage(PROPS, ['EdbVerif.Props.C18', 'Driver.C18'], required=REQUIRED, gen_obligations=0)
    ctx.log('proof stage:', 'ok' if proved else ctx.proof['broken'][:6])

    R = Real()
    rng = ctx.rng
    fam = Families()
    hist: dict[str, int] = {}
    viols: dict[str, list] = {}     # function -> [(len, input bytes, what, detail)]
    clipped: dict[str, str] = {}    # PgLex reading of a too-long name -> first name read that way

    def viol(name, sb, what, detail):
        """an oracle failure on the real code: a violation keyed by function + input; at most
        the 20 shortest inputs per function are written out (the count goes into the detail)"""
        viols.setdefault(name, []).append((len(sb), sb, what, detail))

    def bump(k, n=1):
        hist[k] = hist.get(k, 0) + n

    # ------------------------------------------------------------- the cases
    strs: dict[str, str] = {}      # string -> stream
    byts: dict[bytes, str] = {}

    def add(s, stream):
        if s not in strs:
            strs[s] = stream

    if ctx.replay:
        rp = json.load(open(ctx.replay))
        for f in rp['failures']:
            d = f.get('detail')
            if isinstance(d, dict) and 'input_hex' in d:
                raw = bytes.fromhex(d['input_hex'])
                if d.get('is_bytes'):
                    byts.setdefault(raw, 'replay')
                else:
                    add(raw.decode(), 'replay')
    else:
        # witnesses of the `_counterexample` theorems, replayed on the real code
        for s in ['x$', '\'"$', '\n\x85', '\'"$$$a', '‮', '²a', '\\', '__x__', '@a', 'a::b', '',
                  '\n ', '\n­', "'\"$$", 'select', '__type__', '__TYPE__', 'a' * 64, 'é' * 32,
                  "\n'‮", '$$', '名' * 25 + '~1', '名' * 25 + '~2', 'a' * 51, 'a' * 52,
                  '0', '1', '10', '007', '1٢', '٢1', '18446744073709551615', '18446744073709551616', '9' * 20, '\'"$$$a$b$c$d$e$f$a1', '\'"' + ''.join('$%s$' % c for c in 'abcdef') + '$$']:
            add(s, 'witness')
        nmax = ctx.budget(3, 5)
        for n in range(0, nmax + 1):
            for t in itertools.product(A_STR, repeat=n):
                add(''.join(t), 'exh-str')
        for n in range(0, ctx.budget(3, 4) + 1):
            for t in itertools.product(A_ID, repeat=n):
                add(''.join(t), 'exh-id')
            for t in itertools.product(A_MIX, repeat=n):
                add(''.join(t), 'exh-mix')
        if ctx.quick():
            # length 4 over the 12 string symbols: the eighth selected by the seed
            for i, t in enumerate(itertools.product(A_STR, repeat=4)):
                if i % 8 == ctx.seed % 8:
                    add(''.join(t), 'exh-str4')
        # keywords in mixed case (EdgeQL and PostgreSQL), bare and decorated
        kws = sorted(set(R.qlkw.edgeql_keywords) | set(R.pgkw.pg_keywords))
        for k in kws:
            for v in case_variants(k, rng):
                add(v, 'keyword')
            add(k + '_', 'keyword')
            add('_' + k, 'keyword')
            add(k + ' ', 'keyword')
        # tag-like material around quotes
        for a in TAGLIKE:
            for b in TAGLIKE:
                add('\'"' + a + b, 'taglike')
                add(a + '\'"' + b, 'taglike')
                add('\'"$$' + a + b[:-1], 'taglike')
        # random strings up to length 60
        for _ in range(ctx.budget(6000, 60000)):
            n = rng.choice([1, 2, 3, 5, 8, 13, 21, 34, 60])
            n = rng.randint(max(1, n // 2), n)
            mode = rng.random()
            cs = []
            for _ in range(n):
                x = rng.random()
                if mode < 0.25:
                    cs.append(rng.choice(ASCII_PRINT) if x < 0.8 else rng.choice(A_STR))
                elif mode < 0.5:
                    cs.append(rng.choice('abcxyz_019ABZ') if x < 0.85 else rng.choice(POOL + A_ID))
                elif x < 0.35:
                    cs.append(rng.choice(A_STR + A_MIX + A_ID))
                elif x < 0.45:
                    cs.append(rng.choice(TAGLIKE))
                elif x < 0.7:
                    cs.append(rng.choice(POOL))
                else:
                    cs.append(rng.choice(ASCII_PRINT))
            add(''.join(cs), 'random')
        # long names for edgedb_name_to_pg_name (the 51-character / 63-byte border)
        for _ in range(ctx.budget(1200, 20000)):
            n = rng.choice([40, 49, 50, 51, 52, 53, 60, 62, 63, 64, 70, 90])
            n = max(1, n + rng.randint(-3, 3))
            kind = rng.random()
            if kind < 0.5:
                cs = [rng.choice('abcxyz_019ABZ~;-') for _ in range(n)]
            elif kind < 0.8:
                cs = [rng.choice('abcxyz_01~') if rng.random() < 0.7 else rng.choice('éß名😀²') for _ in range(n)]
            else:
                cs = [rng.choice('é名😀') for _ in range(rng.randint(14, 52))] + list(rng.choice(['~1', '~2', '_idx', '']))
            add(''.join(cs), 'longname')
        # bytes
        for b in range(256):
            byts.setdefault(bytes([b]), 'exh-bytes')
        AB = [0, 9, 10, 13, 0x1f, 0x20, 0x22, 0x27, 0x5c, 0x78, 0x7e, 0x7f, 0x80, 0xc3, 0xa9, 0xff, 0x30, 0x41]
        for n in (0, 2, 3):
            for t in itertools.product(AB, repeat=n):
                byts.setdefault(bytes(t), 'exh-bytes')
        for _ in range(ctx.budget(3000, 30000)):
            n = rng.randint(1, 60)
            byts.setdefault(bytes(rng.choice(AB) if rng.random() < 0.4 else rng.randrange(256) for _ in range(n)),
                            'random-bytes')

    S = list(strs)
    Bs = list(byts)
    ctx.log(f'{len(S)} strings, {len(Bs)} byte strings')

    # ---- history-dependence oracle, phase 1: before the corpus goes through anything
    NUMERIC = ['0', '1', '10', '007', '42', '1٢', '٢1', '18446744073709551615', '18446744073709551616', '9' * 20, '1_0', '٣']
    kw_some = sorted(set(R.qlkw.edgeql_keywords))[::9] + sorted(set(R.pgkw.pg_keywords))[::23]
    probe_strings = NUMERIC + ['select', 'SELECT', 'abort', '__type__', 'my name', 'a`b', 'a"b', "a'b", '@x', 'a::b', '',
                               'Ünï', '²a', 'x$', '\'"$', '\\', '\n', '‮', 'a' * 52, '名' * 25 + '~1', '$a$', 'User'] + kw_some
    probe_strings += [x for x in rng.sample(S, min(len(S), ctx.budget(250, 1500))) if x not in set(probe_strings)]
    probe_strings = list(dict.fromkeys(probe_strings))
    probe_bytes = [b'', b'\\', b"'", b'\x00\xff', b'abc', b'\\n'] + rng.sample(Bs, min(len(Bs), ctx.budget(40, 200)))
    phases = {}
    if not ctx.replay:
        phases['fresh process, function-major order'] = fresh_probe(probe_strings, probe_bytes, 'fwd')
        phases['this process, at start'] = run_probe(R, probe_strings, probe_bytes, 'interleave')
        ctx.log(f'history probes at start: {len(probe_strings)} strings x {len(probe_table(R))} entry points')

    acc = {'LT': 0, 'pg': 0, 'nontriv': 0, 'samples': []}
    n_dis = n_raw = n_lexcmp = n_oracle = n_ctx = n_pg = 0

    def batch(S, Bs, with_raw):
        """the whole pipeline on one batch of inputs (bounds memory in the thorough tier)"""
        nonlocal n_dis, n_raw, n_lexcmp, n_oracle, n_ctx, n_pg
        # ------------------------------------------------ real functions (leg 1)
        real_q = [R.strings(s) for s in S]
        real_b = [R.bytes_(b) for b in Bs]
        for s, outs in zip(S, real_q):
            # the generators must agree with the functions they wrap (real vs real)
            g = R.via_generators(s)
            exp = {'pgsql.codegen StringConstant': outs[8], 'dbops.encode_value': outs[8],
                   'dbops.encode_value tuple': 'ROW(' + str(outs[8]) + ')',
                   'param_to_str': outs[12],
                   'ident_to_str': '::'.join(str(R.call(R.q.quote_ident, part)) for part in s.split('::'))}
            for name, v in g.items():
                if v != exp[name]:
                    n_dis += 1
                    ctx.fail(f'gen:{name}:{s.encode().hex()}', f'{name} does not print what the quoting function returns',
                             {'input_hex': s.encode().hex(), 'generator': v, 'function': exp[name]}, no_input=True)
        for b, outs in zip(Bs, real_b):
            g = R.bytes_via_generators(b)
            if g['pgsql.codegen ByteaConstant'] != outs[1]:
                n_dis += 1
                ctx.fail(f'gen:ByteaConstant:{b.hex()}', 'pgsql codegen ByteaConstant differs from quote_bytea_literal',
                         {'input_hex': b.hex(), 'is_bytes': True, 'generator': g, 'function': outs[1]}, no_input=True)
        ctx.log('real functions evaluated')

        # ------------------------------------------------ texts for the lexers
        lex_texts: dict[str, None] = {}
        EDGEQL_FORMS = [1, 2, 3, 4, 5, 6, 7]       # indices into the Q outputs that are EdgeQL text
        for s, outs in zip(S, real_q):
            for i in EDGEQL_FORMS:
                o = outs[i]
                if isinstance(o, str) and not o.startswith('!EXC'):
                    lex_texts.setdefault(o)
        for outs in real_b:
            lex_texts.setdefault(outs[0])
        # outputs inside delimiter contexts (a sample: every string of the small streams, 1 in 8 of the others)
        ctx_items = []   # (kind, s, form index, output, context)
        for j, (s, outs) in enumerate(zip(S, real_q)):
            small = strs[s] in ('witness', 'taglike', 'replay') or len(s) <= (1 if ctx.quick() else 2)
            if not small and (j + ctx.seed) % 16:
                continue
            for i in (1, 2, 3):
                for c in (CONTEXTS if small else rng.sample(CONTEXTS, 3)):
                    ctx_items.append(('str', s, i, outs[i], c))
            for i in (4, 5):
                for c in (ID_CONTEXTS if small else rng.sample(ID_CONTEXTS, 2)):
                    ctx_items.append(('id', s, i, outs[i], c))
        for b, outs in list(zip(Bs, real_b))[::5]:
            for c in rng.sample(CONTEXTS, 3):
                ctx_items.append(('bytes', b, 0, outs[0], c))
        for (_k, _s, _i, o, c) in ctx_items:
            if isinstance(o, str) and not o.startswith('!EXC'):
                lex_texts.setdefault(o + c)
        # raw adversarial text (not produced by any quoting function)
        if not ctx.replay and with_raw:
            for n in range(0, ctx.budget(2, 3) + 1):
                for t in itertools.product(A_RAW, repeat=n):
                    lex_texts.setdefault(''.join(t))
                    n_raw += 1
            for q in ("'", '"', "b'", "r'", 'b"', "br'", "rb'", '`', '$$', '$a$', '$`', "x'", 'B"'):
                for _ in range(ctx.budget(800, 8000)):
                    n = rng.randint(0, 10)
                    body = ''.join(rng.choice(A_RAW) if rng.random() < 0.9 else rng.choice(POOL) for _ in range(n))
                    close = q[-1] if q[-1] in '\'"`' else q
                    t = q + body + (close if rng.random() < 0.8 else '')
                    if not PANIC_SHAPE.search(t):
                        lex_texts.setdefault(t)
                        n_raw += 1
            for s in S[::3]:
                if not PANIC_SHAPE.search(s):
                    lex_texts.setdefault(s)
                    n_raw += 1
            for e in ['\\x', '\\u', '\\U']:
                for _ in range(ctx.budget(1500, 8000)):
                    n = {'\\x': 2, '\\u': 4, '\\U': 8}[e]
                    digs = ''.join(rng.choice('0123456789abcdefABCDEF+gé') if rng.random() < 0.3
                                   else rng.choice('0012478dDfF') for _ in range(rng.randint(max(0, n - 1), n + 1)))
                    for q in ("'", "b'"):
                        lex_texts.setdefault(q + 'a' + e + digs + "z'")
                        n_raw += 1
        LT = list(lex_texts)
        ctx.log(f'{len(LT)} texts for the tokenizers ({n_raw} raw)')

        # ------------------------------------------------ Unicode tables in play
        nonascii = sorted({c for t in LT for c in t if ord(c) >= 128} | {c for s in S for c in s if ord(c) >= 128})
        probe = safe_lex_many([c for c in nonascii] + ['a' + c for c in nonascii])
        ralpha, ralnum = [], []
        for i, c in enumerate(nonascii):
            r1, r2 = probe[i], probe[len(nonascii) + i]
            if r1.toks and r1.toks[0].kind in ('Ident',) and r1.toks[0].text == c:
                ralpha.append(c)
            if r2.toks and r2.toks[0].text == 'a' + c:
                ralnum.append(c)
        header = [
            'U ralpha ' + hx(''.join(ralpha)), 'U ralnum ' + hx(''.join(ralnum)),
            'U pyalnum ' + hx(''.join(c for c in nonascii if c.isalnum())),
            'U pydecimal ' + hx(''.join(c for c in nonascii if c.isdecimal())),
            'U pyalpha ' + hx(''.join(c for c in nonascii if c.isalpha())),
        ]

        # ------------------------------------------------ the real tokenizer
        rust = safe_lex_many(LT)
        rust_of = dict(zip(LT, rust))
        ctx.log('real tokenizer done')

        # ------------------------------------------------ edgedb_name_to_pg_name (long names)
        name_items = []   # (s, prefix_length, real output, md5/base64 hash)
        for j, s in enumerate(S):
            pls = (0,) if j % 5 else (0, 5, 27, 28, 35, 51)
            hsh = base64.b64encode(hashlib.md5(s.encode(), usedforsecurity=False).digest()).decode().rstrip('=')
            for pl in pls:
                name_items.append((s, pl, R.call(R.pc.edgedb_name_to_pg_name, s, pl), hsh))

        # ------------------------------------------------ SQL texts for PgLex (oracle for the SQL forms)
        pg_lines = []     # (op, text, what, s, form index)
        for (s, pl, r, _h) in name_items:
            if pl == 0 and isinstance(r, str) and not r.startswith('!EXC'):
                qr = R.call(R.pc.quote_ident, r)
                if isinstance(qr, str) and not qr.startswith('!EXC'):
                    pg_lines.append(('PI', qr, 'plain', r, 99, len(qr)))
        for s, outs in zip(S, real_q):
            small = len(s) <= 2 or strs[s] in ('witness', 'replay')
            for op, i in (('PS', 8), ('PE', 9), ('PI', 10), ('PI', 11)):
                o = outs[i]
                if not isinstance(o, str) or o.startswith('!EXC'):
                    continue
                pg_lines.append((op, o, 'plain', s, i, len(o)))
                if small:
                    for c in (';', ' x', ' \n x', ')', ','):
                        pg_lines.append((op, o + c, 'ctx', s, i, len(o)))
        for b, outs in zip(Bs, real_b):
            pg_lines.append(('PB', outs[1], 'plain', b, 1, len(outs[1])))
            if len(b) <= 1:
                for c in (';', ' x', ')', ','):
                    pg_lines.append(('PB', outs[1] + c, 'ctx', b, 1, len(outs[1])))

        # ------------------------------------------------ the Lean driver (legs 1, 2 and PgLex)
        lines = list(header)
        lines += [f'Q {hx(s)} {hx(s.lower())}' for s in S]
        lines += ['B =' + b.hex() for b in Bs]
        lines += ['L ' + hx(t) for t in LT]
        lines += [f'{op} {hx(t)}' for (op, t, _w, _s, _i, _n) in pg_lines]
        lines += [f'N {hx(s)} {hx(h)} {pl}' for (s, pl, _r, h) in name_items]
        mout = ctx.driver('C18', lines)
        if len(mout) != len(lines):
            raise core.Infra(f'driver returned {len(mout)} lines for {len(lines)}')
        if any(o != 'ok' for o in mout[:len(header)]):
            raise core.Infra('driver rejected a table line')
        p = len(header)
        m_q = mout[p:p + len(S)]; p += len(S)
        m_b = mout[p:p + len(Bs)]; p += len(Bs)
        m_l = mout[p:p + len(LT)]; p += len(LT)
        m_pg = mout[p:p + len(pg_lines)]; p += len(pg_lines)
        m_n = mout[p:]
        ctx.log('driver done')

        # ---- leg 1: Python functions vs Model/Quote
        for s, outs, mo in zip(S, real_q, m_q):
            mf = mo.split(' ')
            if len(mf) != 13:
                raise core.Infra(f'driver Q answer malformed: {mo[:100]}')
            for i, (ro, m) in enumerate(zip(outs, mf)):
                mv = unhx(m) if m.startswith('=') else m
                if ro != mv:
                    n_dis += 1
                    ctx.fail(f'corr:{QNAMES[i]}:{s.encode().hex()}',
                             f'Model/Quote and the real {QNAMES[i]} disagree',
                             {'input_hex': s.encode().hex(), 'real': ro, 'model': mv}, no_input=True)
        for b, outs, mo in zip(Bs, real_b, m_b):
            mf = mo.split(' ')
            for i, (ro, m) in enumerate(zip(outs, mf)):
                mv = unhx(m) if m.startswith('=') else m
                if ro != mv:
                    n_dis += 1
                    ctx.fail(f'corr:{BNAMES[i]}:{b.hex()}', f'Model/Quote and the real {BNAMES[i]} disagree',
                             {'input_hex': b.hex(), 'is_bytes': True, 'real': ro, 'model': mv}, no_input=True)

        for (s, pl, r, _h), mo in zip(name_items, m_n):
            mv = unhx(mo) if mo.startswith('=') else ('!EXC ValueError' if mo == '!ValueError' else mo)
            if r != mv:
                n_dis += 1
                ctx.fail(f'corr:edgedb_name_to_pg_name:{s.encode().hex()}:{pl}',
                         'Model/Quote and the real edgedb_name_to_pg_name disagree',
                         {'input_hex': s.encode().hex(), 'prefix_length': pl, 'real': r, 'model': mv}, no_input=True)
        # ---- leg 2: Model/Lex vs the real tokenizer
        for t, r, mo in zip(LT, rust, m_l):
            rf = rust_first(t, r)
            mc = canon_model_lex(mo)
            if rf.startswith('SKIP:') or mc.startswith('SKIP:'):
                bump('lex ' + (rf if rf.startswith('SKIP:') else mc))
                if rf != mc:
                    n_dis += 1
                    ctx.fail(f'corr:lex:{t.encode().hex()}', 'Model/Lex and the real tokenizer disagree on what is a number',
                             {'input_hex': t.encode().hex(), 'real': rf, 'model': mo}, no_input=True)
                continue
            n_lexcmp += 1
            bump('lex ' + (rf.split(' ')[1].split(':')[0] if rf.startswith('ok') else rf))
            if rf != mc:
                n_dis += 1
                ctx.fail(f'corr:lex:{t.encode().hex()}', 'Model/Lex and the real tokenizer disagree on the first token',
                         {'input_hex': t.encode().hex(), 'real': rf, 'model': mo,
                          'real_error': r.error}, no_input=True)

        ctx.log('legs 1 and 2 compared')
        # ---- leg 3: oracle on real code, EdgeQL forms
        def str_kind(k):
            return k == 'Str'

        def bin_kind(k):
            return k == 'BinStr'

        reserved = set(R.qlkw.by_type[R.qlkw.RESERVED_KEYWORD])

        def id_kind(k):
            if k == 'Ident':
                return True
            m = re.fullmatch(r'Keyword\(Keyword\("(.*)"\)\)', k)
            return bool(m) and (m.group(1) not in reserved or m.group(1) in ('__type__', '__std__'))

        def bt(s):
            return '`' + s.replace('`', '``') + '`'

        # expressibility of identifiers is decided by the real tokenizer itself
        bt_texts = [bt(s) for s in S]
        bt_res = dict(zip(bt_texts, safe_lex_many(bt_texts)))
        plain_ok = [s for s in S if not PANIC_SHAPE.search(s)]   # a number token is never a lone identifier
        plain_res = dict(zip(plain_ok, safe_lex_many(plain_ok)))
        for s in S:
            plain_res.setdefault(s, rustlex.LexResult([], 'not lexed: number-shaped'))

        def classify_const(s, out):
            """which branch visit_Constant took, from its output"""
            if any(ord(c) <= 8 or ord(c) in (0xB, 0xC, 0x7F, 10) or 0xE <= ord(c) <= 0x1F or 0x80 <= ord(c) <= 0x9F
                   or ord(c) in BIDI for c in s):
                return 'escaped'
            if out.startswith('r'):
                return 'raw'
            if out.startswith('$'):
                return 'dollar'
            return 'plain'

        for s, outs in zip(S, real_q):
            sb = s.encode()
            has_nul = '\x00' in s
            has_bidi = any(ord(c) in BIDI for c in s)
            # --- string forms
            for i, name in ((1, 'quote_literal'), (2, 'dollar_quote_literal'), (3, 'visit_Constant')):
                o = outs[i]
                if has_nul:
                    bump(f'oracle {name}: not expressible (NUL)')
                    continue
                if name == 'dollar_quote_literal' and has_bidi:
                    bump(f'oracle {name}: not expressible (bidi in a dollar string)')
                    continue
                n_oracle += 1
                good = isinstance(o, str) and is_single_token(rust_of[o], sb, 'str', len(o.encode()), str_kind)
                if name == 'visit_Constant':
                    bump('visit_Constant form ' + classify_const(s, o))
                if good:
                    continue
                r = rust_of.get(o)
                extra = {'tokenizer_error': r.error if r else None,
                         'tokens': [(t.kind, t.value.decode('utf-8', 'replace')) for t in (r.toks if r else [])][:4]}
                viol(name, sb, f'{name}: the real tokenizer does not read the output back as one string token '
                     f'with the original value', {'input_hex': sb.hex(), 'real_output': o, **extra})
            # --- identifier forms (default flags, and force=True)
            for i, name in ((4, 'quote_ident'), (5, 'quote_ident(force)')):
                o = outs[i]
                b_ok = is_single_token(bt_res[bt(s)], sb, 'str', len(bt(s).encode()), id_kind)
                p_ok = is_single_token(plain_res[s], sb, 'str', len(sb), id_kind)
                if not (b_ok or (p_ok and i == 4)):
                    # force=True asks for the back-quoted form: only that form counts
                    bump(f'oracle {name}: not expressible as an identifier')
                    continue
                n_oracle += 1
                if isinstance(o, str) and is_single_token(rust_of[o], sb, 'str', len(o.encode()), id_kind):
                    bump(f'{name} ' + ('quoted' if o.startswith('`') else 'bare'))
                    continue
                r = rust_of.get(o)
                extra = {'tokenizer_error': r.error if r else None,
                         'tokens': [(t.kind, t.value.decode('utf-8', 'replace')) for t in (r.toks if r else [])][:4]}
                viol(name, sb, f'{name}: the real tokenizer does not read the output back as one identifier token '
                     f'with the original value', {'input_hex': sb.hex(), 'real_output': o, **extra})
        for b, outs in zip(Bs, real_b):
            o = outs[0]
            n_oracle += 1
            if not (isinstance(o, str) and is_single_token(rust_of[o], b, 'bytes', len(o.encode()), bin_kind)):
                r = rust_of.get(o)
                viol('visit_BytesConstant', b,
                     'visit_BytesConstant: the real tokenizer does not read the output back as one bytes token '
                     'with the original value',
                     {'input_hex': b.hex(), 'is_bytes': True, 'real_output': o,
                      'tokenizer_error': r.error if r else None,
                      'value_read': r.toks[0].value.hex() if r and r.toks else None})
        # --- outputs inside delimiter contexts: only where the bare output was fine
        for (kind, s, i, o, c) in ctx_items:
            if not isinstance(o, str) or o.startswith('!EXC'):
                continue
            sb = s if isinstance(s, bytes) else s.encode()
            kinds, vk = {'str': (str_kind, 'str'), 'id': (id_kind, 'str'), 'bytes': (bin_kind, 'bytes')}[kind]
            if not is_single_token(rust_of[o], sb, vk, len(o.encode()), kinds):
                continue
            if kind == 'id' and not o.startswith('`') and c and (c[0] == '_' or c[0].isalnum() or c[0] in '\'"`'):
                continue   # a bare identifier needs a delimiter after it
            if kind == 'id' and o.startswith('`') and c.startswith('`'):
                continue   # a back-quote right after the closing back-quote doubles it
            n_ctx += 1
            if not first_token_is(rust_of[o + c], sb, vk, len(o.encode()), kinds):
                r = rust_of[o + c]
                ctx.fail(f'oracle:context:{QNAMES[i] if kind != "bytes" else BNAMES[i]}:{sb.hex()}:{c.encode().hex()}',
                         'the quoted form followed by other text is not read back as the same single token',
                         {'input_hex': sb.hex(), 'is_bytes': kind == 'bytes', 'real_output': o, 'context': c,
                          'tokenizer_error': r.error,
                          'tokens': [(t.kind, t.value.decode('utf-8', 'replace')) for t in r.toks][:4]})

        ctx.log('EdgeQL oracle done')
        # ---- oracle for the SQL forms: PgLex (trusted spec) on the real outputs
        for (op, text, what, s, i, olen), mo in zip(pg_lines, m_pg):
            name = BNAMES[1] if op == 'PB' else (QNAMES[i] if i < 13 else 'pg.quote_ident(edgedb_name_to_pg_name)')
            isb = isinstance(s, bytes)
            sb = s if isb else s.encode()
            if not isb:
                if '\x00' in s:
                    bump(f'oracle {name}: not expressible (NUL)')
                    continue
                if op == 'PI' and (s == '' or (len(sb) > 63 and i != 99)):
                    bump(f'oracle {name}: not expressible (empty or longer than 63 bytes)')
                    continue
            n_pg += 1
            f = mo.split(' ')
            good = False
            if f[0] == 'ok':
                if op == 'PI':
                    # ident, unreserved keyword, or (column=False only) a col_name keyword
                    val, consumed = f[2], int(f[3])
                    good = f[1] in (('ident', 'kw1', 'kw4') if i in (10, 99) else ('ident', 'kw1'))
                else:
                    val, consumed = f[1], int(f[2])
                    good = True
                good = good and val == '=' + sb.hex() and consumed == olen
            if good:
                bump(f'{name} ' + ('quoted' if text[:1] in '\'"E' else 'bare'))
                continue
            if i == 99 and not isb and len(sb) > 63 and not s.isascii():
                extra = {'pglex': mo, 'bytes': len(sb), 'characters': len(s)}
                if f[0] == 'ok' and op == 'PI':
                    other = clipped.setdefault(f[2], s)
                    if other != s:
                        extra['collides_with_hex'] = other.encode().hex()
                        extra['both_read_as_hex'] = f[2][1:]
                fam.add('pg-name-byte-length:edgedb_name_to_pg_name',
                        'edgedb_name_to_pg_name compares the CHARACTER count with MAX_NAME_LENGTH, PostgreSQL truncates '
                        'identifiers to 63 BYTES: a name of <= 51 characters that needs more than 63 bytes is returned '
                        'unchanged (and the tail kept after the hash can push a hashed name over 63 bytes); PostgreSQL '
                        'silently truncates it, distinct names can collide',
                        s, text, extra)
                if 'collides_with_hex' in extra and 'pair' not in fam.f['pg-name-byte-length:edgedb_name_to_pg_name']:
                    fam.f['pg-name-byte-length:edgedb_name_to_pg_name']['pair'] = extra
            elif name == 'pg.quote_e_literal' and '\\' in s:
                fam.add('pg-eliteral-backslash:quote_e_literal',
                        'pg quote_e_literal does not escape backslashes: a backslash in the value is read by PostgreSQL as '
                        'the start of an escape (value changed; a trailing backslash swallows the closing quote)',
                        s, text, {'pglex': mo})
            else:
                viol(name, sb, f'{name}: PostgreSQL\'s lexical rules (Model/PgLex) do not read the output back as one '
                               f'literal/identifier with the original value',
                     {'input_hex': sb.hex(), 'is_bytes': isb, 'real_output': text, 'pglex': mo, 'context': what})

        acc['LT'] += len(LT)
        acc['pg'] += len(pg_lines)
        acc['nontriv'] += sum(1 for s, o in zip(S, real_q) if isinstance(o[1], str) and o[1] != "'" + s + "'") + \
            sum(1 for b, o in zip(Bs, real_b) if o[0] != "b'" + b.decode('latin-1') + "'")
        if S and len(acc['samples']) < 4:
            i = len(S) // 2
            acc['samples'].append({'input_hex': S[i].encode().hex(), 'outputs': dict(zip(QNAMES, real_q[i]))})

    BATCH = 25000
    nb = max((len(S) + BATCH - 1) // BATCH, (len(Bs) + BATCH - 1) // BATCH, 1)
    for k in range(nb):
        batch(S[k * BATCH:(k + 1) * BATCH], Bs[k * BATCH:(k + 1) * BATCH], k == 0)
        if nb > 1:
            ctx.log(f'batch {k + 1}/{nb} done')

    # ---- Unicode class compatibility, all code points (the hypotheses the unquoted-identifier theorem needs)
    ctx.log('SQL oracle done')
    # ---- history-dependence oracle, later phases: after the corpus went through every entry point
    hist_cov, stmt_cov = {}, {}
    if not ctx.replay:
        phases['this process, after the corpus, reversed order'] = run_probe(R, probe_strings, probe_bytes, 'rev')
        phases['this process, after the corpus, shuffled'] = run_probe(R, probe_strings, probe_bytes, ctx.seed + 1)
        phases['fresh process, reversed order'] = fresh_probe(probe_strings, probe_bytes, 'rev')
        phases['fresh process, input-major (non-pointer entry points first)'] = \
            fresh_probe(probe_strings, probe_bytes, 'interleave')
        phases['fresh process, input-major reversed (pointer entry points first)'] = \
            fresh_probe(probe_strings, probe_bytes, 'interleave-rev')
        phases['fresh process, shuffled'] = fresh_probe(probe_strings, probe_bytes, ctx.seed + 7)
        hist_cov = history_oracle(ctx, phases, probe_strings, probe_bytes)
        ctx.log('history oracle:', hist_cov)
        # ---- whole statements mixing pointer and non-pointer positions
        reserved_kw = set(R.qlkw.by_type[R.qlkw.RESERVED_KEYWORD])

        def id_kind2(k):
            if k == 'Ident':
                return True
            m = re.fullmatch(r'Keyword\(Keyword\("(.*)"\)\)', k)
            return bool(m) and (m.group(1) not in reserved_kw or m.group(1) in ('__type__', '__std__'))
        cand = list(dict.fromkeys(NUMERIC + ['123', '5', '77', '008', 'select', 'Select', 'abort', 'my name', 'a`b', 'Ünï',
                                             'x1', '_', 'T', 'type', 'module', 'as', 'with', '__type__']
                                  + [x for x in probe_strings if 0 < len(x) <= 12][:80]))
        bts = ['`' + x.replace('`', '``') + '`' for x in cand]
        btr = safe_lex_many(bts)
        id_pool = [x for x, t, r in zip(cand, bts, btr)
                   if is_single_token(r, x.encode(), 'str', len(t.encode()), id_kind2) and '::' not in x]
        ptr_pool = id_pool
        stream = statement_stream(R, id_pool, ptr_pool, rng, ctx.budget(1500, 20000))
        stmt_cov = check_statements(ctx, fam, stream, id_kind2)
        ctx.log('statement stream:', stmt_cov)
        # ---- visitors that write names / strings on their own; parameters; dbops layers
        _RESERVED_LOWER.update(reserved_kw)
        names_pr = list(dict.fromkeys(['sp1', 'a b', 'a b; drop', 'select', 'Select', 'x-y', '1a', 'näme', 'a`b', 'my field']
                                      + id_pool[:60]))
        lits = list(dict.fromkeys(['f', "it's", 'a"b', 'a\\b', '\x85', '\xa0x', 'x­y', '‮', 'a$$b', "'\"$", 'pg_catalog.lower',
                                   'line1\nline2', '$a$', 'é', '\x7f', '\x01']
                                  + [x for x in probe_strings if '\x00' not in x and 0 < len(x) <= 30][:ctx.budget(150, 1500)]))
        pstream = printer_stream(R, names_pr, lits)
        pr_cov = check_statements(ctx, fam, pstream, id_kind2)
        ctx.log('printer stream:', pr_cov)
        par_cov = param_oracle(ctx, R, fam, list(dict.fromkeys(NUMERIC + names_pr + probe_strings)))
        labels = list(dict.fromkeys(['a', "it's", 'see edgedbstd_VER docs', 'edgedb_VER', '$__$', 'a$__$; DROP TABLE t; --', '$____funcbody____$', 'a\nb', 'a\r\nb',
                                     '$_', '$__', 'x$____funcbody____', '\\', 'a\u2028b', '$$', 'é']
                                    + [x for x in probe_strings if '\x00' not in x and len(x.encode()) <= 63][:ctx.budget(200, 2000)]))
        db_cov = dbops_oracle(ctx, R, fam, labels)
        ctx.log('param / dbops:', par_cov, db_cov)
        stmt_cov = {'mixed_positions': stmt_cov, 'name_and_literal_visitors': pr_cov, 'param_to_str': par_cov,
                    'dbops_layers': db_cov}
    uni = unicode_sweep(ctx, viol, R)
    ctx.log('unicode sweep done')

    for key, r in sorted(fam.f.items()):
        w = r['witness']
        ctx.fail(key, r['what'], {**w, 'failing_inputs_in_this_run': r['count'],
                                  **({'colliding_pair': r['pair']} if 'pair' in r else {})})
    for name, lst in sorted(viols.items()):
        lst.sort(key=lambda t: (t[0], t[1]))
        for (_n, sb, what, detail) in lst[:20]:
            ctx.fail(f'oracle:{name}:{sb.hex()}', what, {**detail, 'failing_inputs_of_this_function_in_this_run': len(lst)})
    if not proved:
        ctx.proof_broken_verdict()

    streams: dict[str, int] = {}
    for s in S:
        streams[strs[s]] = streams.get(strs[s], 0) + 1
    for b in Bs:
        streams[byts[b]] = streams.get(byts[b], 0) + 1
    nontriv = acc['nontriv']
    ctx.cov.update({
        'evaluations': len(S) * 12 + len(Bs) * 2 + acc['LT'] + acc['pg'],
        'distinct_nontrivial': nontriv,
        'rule': 'distinct input strings / byte strings (dict keys) whose quote_literal / visit_BytesConstant output '
                'differs from the input wrapped in quotes, i.e. at least one character needed escaping. Streams: '
                'exhaustive strings over three 12-symbol adversarial alphabets (quotes, backslash, $, newline, CR, TAB, '
                'NUL, C1, bidi, back-quote, @, ::, non-decimal numeric, non-ASCII letter, digits, letters) to length '
                '3 (quick; plus the seed-selected quarter of length 4) or 5 (thorough), every EdgeQL and PostgreSQL '
                'keyword in 3-4 case variants, tag-like `$a$` material, random strings to length 60 over a pool of '
                'C0/C1/Cf/Zs/numeric/non-BMP characters; all single bytes, exhaustive short byte strings, random bytes',
        'samples': acc['samples'],
        'streams': streams,
        'strings': len(S), 'byte_strings': len(Bs),
        'tokenizer_texts': acc['LT'], 'tokenizer_texts_raw': n_raw,
        'lex_comparisons_model_vs_rust': n_lexcmp,
        'oracle_checks_edgeql': n_oracle, 'oracle_checks_in_context': n_ctx, 'oracle_checks_sql_pglex': n_pg,
        'histogram': dict(sorted(hist.items())),
        'unicode_sweep': uni,
        'history_oracle': hist_cov, 'statement_stream': stmt_cov,
        'disagreements_model_vs_impl': n_dis,
        'real_tokenizer_panics': [t.encode().hex() for t in PANICS[:10]],
        'known_false_regions_hit': {k: v['count'] for k, v in sorted(fam.f.items())},
        'exhaustive': False,
        'correspondence': '(1) 12 real Python quoting entry points + 5 generator paths vs Model/Quote.lean, outputs '
                          'compared exactly; (2) Model/Lex.lean lexOne∘skipWs vs the real Rust tokenizer (first token: '
                          'kind, value, consumed length, error class); (3) oracle on real code: real quoting function '
                          '-> real tokenizer; SQL forms -> Model/PgLex.lean in the Lean driver',
    })
    ctx.assumptions += [
        'PostgreSQL lexical rules (Model/PgLex.lean) are a transcription of the PostgreSQL documentation '
        '(standard_conforming_strings=on, UTF-8); no server in the sandbox; the key-word table is the one in '
        'edb/pgsql/keywords.py, assumed equal to the server\'s',
        'strings are sequences of Unicode scalar values: lone surrogates (possible in a Python str, not encodable '
        'in UTF-8) are outside the model and the tests',
        'Unicode tables (CPython str.isalnum/isdecimal/isalpha/lower, re \\w \\d; Rust is_alphabetic / '
        'is_alphanumeric) are parameters of the models: the theorems hold for every table; the identifier theorem '
        'has the inclusion of CPython\'s classes in the tokenizer\'s (Compat) as a hypothesis, which the sweep '
        'checks against the real tables (every code point in the thorough tier)',
        'a string containing U+0000 is not expressible in any EdgeQL string literal nor in a PostgreSQL query; '
        'the oracle skips those (counted in the histogram)',
        'identifiers: a token of kind Ident, or a keyword that is not reserved, or __type__/__std__ (which '
        'quote_ident deliberately leaves bare) counts as "the identifier"',
    ]
    ctx.trusted_base += [
        'hand-written models EdbVerif/Model/{Lex,Quote}.lean, tied by the differential legs (1) and (2)',
        'EdbVerif/Model/PgLex.lean: specification of PostgreSQL lexical rules, NOT tied to any implementation',
        'harness/gen/keywords.py (regex translation of keywords.rs and pgsql/keywords.py into Lean lists)',
        'harness/rust stub crates (bigdecimal, memchr::memmem::find, phf, unicode_width, thiserror) around the '
        'real tokenizer sources; rustc\'s compiled-in Unicode tables',
        'harness/props/c18.py generators, oracle and canonicalisation (error-message -> class map)',
        'PURITY: the Lean models are functions of their arguments; that the Python functions are (no memo / cache / '
        'global state that lets an earlier call decide a later one) is not assumed but checked by the '
        'history-dependence oracle: every entry point with every flag combination on the same inputs, at start / '
        'after the corpus / shuffled, in this process and in fresh processes, identical outputs required',
    ]


def unicode_sweep(ctx, viol, R: Real) -> dict:
    """All code points (surrogates excluded).
    (a) the hypothesis `Compat P U` of the identifier theorem on the real tables:
        str.isalpha() ⊆ Rust is_alphabetic, re \\w ⊆ {_} ∪ Rust is_alphanumeric;
    (b) the property itself on one- and two-character names: whatever quote_ident leaves
        bare must be a single identifier token for the real tokenizer;
    (c) the facts about CPython that Model/Quote hard-wires."""
    cps = [c for c in range(0x110000) if not 0xD800 <= c <= 0xDFFF]
    if ctx.quick():
        cps = [c for c in cps if c < 0x3400 or 0xA000 <= c < 0xAC00 or 0xF900 <= c < 0x12000 or
               0x1D000 <= c < 0x1F000 or c >= 0x10FF00 or c % 16 == ctx.seed % 16]
    chars = [chr(c) for c in cps]
    r1 = safe_lex_many(chars)
    r2 = safe_lex_many(['a' + ch for ch in chars])
    n_alpha = n_word = n_bare1 = n_bare2 = n_model = n_compat = 0
    w = re.compile(r'\w')
    d = re.compile(r'\d')
    qi = R.q.quote_ident
    for ch, a, b in zip(chars, r1, r2):
        rust_start = bool(a.toks) and a.toks[0].text == ch and a.toks[0].kind != 'EOI' and \
            (a.toks[0].kind == 'Ident' or a.toks[0].kind.startswith('Keyword'))
        rust_word = bool(b.toks) and b.toks[0].text == 'a' + ch
        is_w = bool(w.fullmatch(ch))
        n_alpha += ch.isalpha()
        n_word += is_w
        # (a)
        if (ch.isalpha() and not rust_start) or (is_w and ch != '_' and not rust_word):
            n_compat += 1
            ctx.fail(f'corr:unicode-compat:{ord(ch):04x}',
                     'hypothesis Compat of the identifier theorem fails on the real tables: a character CPython '
                     'classifies as alphabetic / word is not is_alphabetic / is_alphanumeric for the tokenizer',
                     {'code_point': ord(ch), 'isalpha': ch.isalpha(), 'word': is_w,
                      'rust_alphabetic': rust_start, 'rust_alphanumeric': rust_word}, no_input=True)
        # (b)
        o1 = qi(ch)
        if o1 == ch and ch != '@' and not rust_start:
            n_bare1 += 1
            viol('quote_ident', ch.encode(), 'quote_ident leaves a name bare that the real tokenizer does not read '
                 'as an identifier', {'input_hex': ch.encode().hex(), 'real_output': o1, 'tokenizer_error': a.error})
        o2 = qi('a' + ch)
        if o2 == 'a' + ch and ch != ':' and not rust_word:
            # ('a:' + ':' would be a '::' name; 'a:' itself is back-quoted)
            n_bare2 += 1
            viol('quote_ident', ('a' + ch).encode(), 'quote_ident leaves a name bare that the real tokenizer does '
                 'not read as an identifier',
                 {'input_hex': ('a' + ch).encode().hex(), 'real_output': o2, 'tokenizer_error': b.error})
        # (c)
        okm = (is_w == (ch.isalnum() or ch == '_')) and (bool(d.fullmatch(ch)) == ch.isdecimal())
        if ord(ch) < 128:
            okm = okm and ch.isalnum() == (ch in 'abcdefghijklmnopqrstuvwxyzABCDEFGHIJKLMNOPQRSTUVWXYZ0123456789') \
                and ch.isalpha() == (ch in 'abcdefghijklmnopqrstuvwxyzABCDEFGHIJKLMNOPQRSTUVWXYZ') \
                and ch.isdecimal() == (ch in '0123456789') \
                and ch.lower() == (chr(ord(ch) + 32) if 'A' <= ch <= 'Z' else ch)
        if not okm:
            n_model += 1
            ctx.fail(f'corr:unicode-assumption:{ord(ch):04x}', 'a fact about CPython that Model/Quote hard-wires '
                     'does not hold', {'code_point': ord(ch)}, no_input=True)
    return {'code_points': len(cps), 'python_isalpha': n_alpha, 'python_word': n_word,
            'compat_hypothesis_failures': n_compat,
            'bare_single_char_names_rejected_by_tokenizer': n_bare1,
            'bare_two_char_names_rejected_by_tokenizer': n_bare2,
            'model_assumption_failures': n_model}
