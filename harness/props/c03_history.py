"""DDL histories for C03: schemas that are reached by ALTERs, not by one SDL text.

A type `B` (and a grandchild `C`) inherits pointers from `A`; the history refines the INHERITED
pointers in the subtype by creating sub-objects / overriding fields (which silently makes the
pointer owned by the subtype), then gives ownership up again (`DROP OWNED`), takes it back
(`SET OWNED`), resets fields, changes the parent, renames, drops the base.  After every phase
(quick) / every statement (thorough) the schema goes through DESCRIBE AS DDL + AS SDL → replay on a
std-only schema → comparison with the original by the field-by-field dump (all objects incl.
sub-objects, `owned`, `inherited_fields`, `computed_fields`) and `delta_schemas`.

Every statement below is accepted by the unchanged tree (probed); each refinement kind uses its own
pointer so that the kinds do not interact.
"""
from __future__ import annotations

BASE = [
    "create module default if not exists;",
    "create type Tgt;",
    "create abstract annotation note;",
    "create abstract inheritable annotation inote;",
    "create type A { create property p1: str; create property p2: str; create property p3: str; "
    "create property p4: str; create property p5: int64; create property p6: str; create property p7: str; "
    "create link l1: Tgt; create link l3: Tgt; create link l4: Tgt; };",
    "create type B extending A;",
    # a second branch with a grandchild: only SUB-OBJECTS are refined on it (a field override on `Bg`
    # followed by DROP OWNED leaves `C` stale on the unchanged tree, see DROP_OWNED_DESCENDANT)
    "create type Bg extending A;",
    "create type C extending Bg;",
]
# kind -> (owner type, pointer kind, pointer, refinement)
REFINE = {
    'constraint': ('B', 'property', 'p1', "create constraint exclusive"),
    'annotation': ('B', 'property', 'p2', "create annotation note := 'x'"),
    'rewrite': ('B', 'property', 'p3', "create rewrite insert using ('r')"),
    'default': ('B', 'property', 'p4', "set default := 'd'"),
    'required': ('B', 'property', 'p5', "set required"),
    'inheritable-annotation': ('B', 'property', 'p6', "create annotation inote := 'y'"),
    'constraint-args': ('B', 'property', 'p7', "create constraint max_len_value(5)"),
    'link-property': ('B', 'link', 'l1', "create property w: int64"),
    'link-constraint': ('B', 'link', 'l3', "create constraint exclusive"),
    'link-on-target-delete': ('B', 'link', 'l4', "on target delete allow"),
    'grandchild-constraint': ('C', 'property', 'p2', "create constraint max_len_value(9)"),
    'middle-constraint': ('Bg', 'property', 'p1', "create constraint max_len_value(11)"),
    'middle-link-property': ('Bg', 'link', 'l1', "create property wg: str"),
}


def refine(kind):
    t, pk, p, what = REFINE[kind]
    return f"alter type {t} alter {pk} {p} {what};"


def drop_owned(kind):
    t, pk, p, _ = REFINE[kind]
    return f"alter type {t} alter {pk} {p} drop owned;"


LATER = [
    ["alter type B alter property p1 set owned;",
     "alter type B alter property p1 create constraint max_len_value(7);",
     "alter type B alter property p4 set default := 'e';",
     "alter type B alter property p4 reset default;",
     "alter type B alter property p5 set required;",
     "alter type B alter property p5 reset optionality;",
     "alter type A alter property p4 set default := 'pa';",
     "alter type A alter property p2 rename to p2r;"],
    ["alter type B alter link l1 create property w2: str;",
     "alter type C rename to C2;",
     "alter type A rename to A2;",
     "alter type B drop extending A2;"],
]


def history(rng, shuffle=True):
    """-> [phase], phase = [statement]"""
    kinds = list(REFINE)
    if shuffle:
        rng.shuffle(kinds)
    phases = [list(BASE), [refine(k) for k in kinds]]
    dk = list(kinds)
    if shuffle:
        rng.shuffle(dk)
    phases.append([drop_owned(k) for k in dk])
    phases += [list(p) for p in LATER]
    return phases


# candidate defect in the unchanged tree (reported by the seeder of c03f, confirmed): RESET EXPRESSION
# keeps `target` in computed_fields
RESET_EXPRESSION = [
    ["create module default if not exists;",
     "create type A { create property q := {'a', 'b'}; };",
     "alter type A alter property q reset expression;"],
]


# defect in the unchanged tree (found with this stream): a FIELD override on an inherited pointer
# followed by DROP OWNED reverts the field in `B` but not in `B`'s descendants
DROP_OWNED_DESCENDANT = [
    ["create module default if not exists;",
     "create type Tgt;",
     "create type A { create property p: str; create property r: int64; create link l: Tgt; };",
     "create type B extending A;",
     "create type C extending B;",
     "alter type B alter property p set default := 'd';",
     "alter type B alter property r set required;",
     "alter type B alter link l on target delete allow;",
     "alter type B alter property p drop owned;",
     "alter type B alter property r drop owned;",
     "alter type B alter link l drop owned;"],
]


def checkpoints(phases, every_statement):
    """-> [(label, DDL script prefix)]"""
    out = []
    done = []
    for pi, ph in enumerate(phases):
        for si, st in enumerate(ph):
            done.append(st)
            if every_statement and pi > 0:
                out.append((f'p{pi}s{si}', '\n'.join(done)))
        if not every_statement or pi == 0:
            out.append((f'p{pi}', '\n'.join(done)))
    return out
