"""C01 — one-hole contexts derived from the qlast FIELD LIST.

`expr_slot_table()` walks every concrete `qlast` node class and its declared field types (the introspection
`edb.common.ast` keeps in `cls._fields[name].type`) and returns every field that can hold an `Expr`:
single-valued (`Expr`, `Optional[Expr]`, `Union[Expr, TypeExpr, None]`), list-valued (`List[Expr]`), DICT-valued
(`Dict[str, Expr]`), tuple-valued (`Tuple[Optional[Expr], Optional[Expr]]`), and nestings of these.  A field added
to qlast, or re-typed (list -> dict …), shows up here without touching the harness.

`SlotBank` collects, from every text the real parser accepted during the run (upstream corpora, the DDL/SDL matrix,
templates), a small example tree per (class, field[, position]) slot.  `fill` grafts a filler expression into the
slot; the caller renders the tree with the safe printer (own parent links: independent of the printer's
`_fix_parent_links`) and runs the oracle from that text.  Slots for which no accepted example exists, and slots
for which every graft was rejected by the parser, are reported in the evidence.
"""
from __future__ import annotations

import copy
import typing

from . import c01_shrink as sh


def _ql():
    from edb.edgeql import ast as qlast
    return qlast


def _admits_expr(t, ql):
    """shape of the way type `t` can hold an Expr: None | 'single' | ('list', inner) | ('dict', inner) | ('tuple', [inner…])"""
    origin = typing.get_origin(t)
    if origin is typing.Union:
        for a in typing.get_args(t):
            r = _admits_expr(a, ql)
            if r:
                return r
        return None
    if origin in (list, typing.List, tuple, typing.Tuple, dict, typing.Dict) or origin is not None:
        args = typing.get_args(t)
        if origin in (list,):
            r = _admits_expr(args[0], ql) if args else None
            return ('list', r) if r else None
        if origin in (dict,):
            r = _admits_expr(args[1], ql) if len(args) == 2 else None
            return ('dict', r) if r else None
        if origin in (tuple,):
            if len(args) == 2 and args[1] is Ellipsis:
                r = _admits_expr(args[0], ql)
                return ('list', r) if r else None
            rs = [_admits_expr(a, ql) for a in args]
            return ('tuple', rs) if any(rs) else None
        try:
            import collections.abc as cabc
            if isinstance(origin, type) and issubclass(origin, cabc.Mapping):
                r = _admits_expr(args[1], ql) if len(args) == 2 else None
                return ('dict', r) if r else None
            if isinstance(origin, type) and issubclass(origin, cabc.Sequence):
                r = _admits_expr(args[0], ql) if args else None
                return ('list', r) if r else None
        except Exception:
            pass
        return None
    if isinstance(t, type) and issubclass(t, ql.Base) and issubclass(ql.Expr, t):
        return 'single'
    return None


def expr_slot_table():
    """{(class name, field name): shape} over all concrete qlast classes"""
    ql = _ql()
    out = {}
    for name, cls in vars(ql).items():
        if not (isinstance(cls, type) and issubclass(cls, ql.Base)):
            continue
        if cls.__dict__.get('__abstract_node__') or cls.__dict__.get('__mixin_node__'):
            continue
        for fname, fld in cls._fields.items():
            if fname in ('span', 'system_comment'):
                continue
            try:
                shape = _admits_expr(fld.type, ql)
            except Exception:
                shape = None
            if shape:
                out[(name, fname)] = shape
    return out


def _positions(shape, val, ql):
    """selectors (tuples of keys/indices) of the Expr-capable positions of a field value; () = the field itself"""
    if shape == 'single':
        yield ()
        return
    kind, inner = shape
    if kind == 'list':
        if isinstance(val, (list, tuple)) and val:
            for sel in _positions(inner, val[0], ql):
                yield (0,) + sel
            if len(val) > 1:
                for sel in _positions(inner, val[-1], ql):
                    yield (len(val) - 1,) + sel
        else:
            yield ('+',)
    elif kind == 'dict':
        if isinstance(val, dict) and val:
            k = next(iter(val))
            for sel in _positions(inner, val[k], ql):
                yield (('k', k),) + sel
        else:
            yield ('+k',)
    elif kind == 'tuple':
        for i, sub in enumerate(inner):
            if sub:
                cur = val[i] if isinstance(val, (list, tuple)) and len(val) > i else None
                for sel in _positions(sub, cur, ql):
                    yield (i,) + sel


class SlotBank:
    def __init__(self):
        self.table = expr_slot_table()
        self.examples = {}          # (cls, field, selector-kind) -> [(size, entry, unit, path, field, selector)]
        self.ql = _ql()

    def add(self, entry, unit):
        ql = self.ql
        tree = unit[0] if isinstance(unit, list) and len(unit) == 1 else unit
        if not isinstance(tree, ql.Base):
            return
        size = None
        for path, node in sh.walk(tree):
            cname = type(node).__name__
            for fname in node._fields:
                shape = self.table.get((cname, fname))
                if not shape:
                    continue
                val = getattr(node, fname, None)
                for sel in _positions(shape, val, ql):
                    cur = _get_sel(val, sel)
                    # only positions currently empty or holding an Expr (not a TypeExpr alternative)
                    if cur is not None and not isinstance(cur, ql.Expr):
                        continue
                    key = (cname, fname, _selkind(sel), cur is None)
                    lst = self.examples.setdefault(key, [])
                    if len(lst) >= 2:
                        continue
                    if size is None:
                        size = sh.size(tree)
                    if size > 60:
                        continue
                    lst.append((size, entry, tree, path, fname, sel))

    def slots(self):
        """(slot id, entry, tree, path, field, selector); filled examples first, then empty (None) ones"""
        for key in sorted(self.examples, key=lambda k: (k[3], k[0], k[1], str(k[2]))):
            for ex in self.examples[key]:
                yield (f'{key[0]}.{key[1]}{key[2]}' + ('?' if key[3] else ''),) + ex[1:]

    def covered(self):
        return {(k[0], k[1]) for k in self.examples}


def _selkind(sel):
    return ''.join('[i]' if isinstance(s, int) else '[k]' if isinstance(s, tuple) or s == '+k' else '[+]' for s in sel)


def _get_sel(val, sel):
    cur = val
    for s in sel:
        if s in ('+', '+k'):
            return None
        if isinstance(s, tuple):
            cur = cur[s[1]] if isinstance(cur, dict) else None
        else:
            cur = cur[s] if isinstance(cur, (list, tuple)) and len(cur) > s else None
        if cur is None:
            return None
    return cur


def _set_sel(val, sel, new):
    if not sel:
        return new
    s, rest = sel[0], sel[1:]
    if s == '+':
        return [new]
    if s == '+k':
        return {'k': new}
    if isinstance(s, tuple):
        d = dict(val)
        d[s[1]] = _set_sel(d.get(s[1]), rest, new)
        return d
    seq = list(val) if isinstance(val, (list, tuple)) else []
    while len(seq) <= s:
        seq.append(None)
    seq[s] = _set_sel(seq[s], rest, new)
    return tuple(seq) if isinstance(val, tuple) else seq


def fill(tree, path, field, sel, filler):
    """deep copy of `tree` with `filler` placed in the slot; None when the tree cannot be copied"""
    try:
        t = copy.deepcopy(tree)
    except Exception:
        return None
    node = sh.get(t, path)
    setattr(node, field, _set_sel(getattr(node, field, None), sel, filler))
    return t
