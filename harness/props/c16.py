"""C16 — every connection request is eventually served.

Proof: lean/EdbVerif/Props/C16.lean over Model/Pool.lean.
Tie + oracle + quiescence runs: see props/pool_common.py (shared with C15).
"""
from props import pool_common


def run(ctx):
    pool_common.run_check(ctx, 'C16')
