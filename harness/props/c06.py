"""C06 — reported cardinality and duplicate-freedom bound the actual result.

T1  translator: ``gen/card.py`` regenerates ``lean/EdbVerif/Gen/Card.lean`` from the
    current ``cardinality.py`` / ``qltypes.py`` / ``multiplicity.py`` (Python-AST -> Lean
    for a whitelisted subset; aborts otherwise); the theorems of ``Props/C06.lean`` are
    about those generated definitions and are re-checked on every run.
T2  exhaustive differential of the REAL pure combinators against the generated Lean
    definitions (all cardinality lists of length <= 4, all bound lists <= 4, ...), plus
    the property's own oracle (brute-force concretisation) on the real outputs.
T3  random MiniQL terms are built as REAL ``edb.ir.ast`` trees (real ``ScopeTreeNode``
    scope tree, stub schema objects) and run through the REAL ``infer_cardinality`` /
    ``infer_multiplicity``; the result is compared with the Lean model
    (``accepts`` / ``inferCard`` / ``inferMult``).
S   the same terms are evaluated by the REAL ``edb.tools.toy_eval_model`` on random
    conforming databases (qlast built by hand) and by the Lean ``eval`` (compared), and
    the REAL inferred cardinality / multiplicity is checked against the toy result
    (size, duplicates).  Failures are shrunk and attributed to a rule class.
"""
from __future__ import annotations

import itertools
import json
import os

from lib import core
from lib import c06_miniql as M

PROPS = 'EdbVerif/Props/C06.lean'
REQUIRED = [
    'EdbVerif.C06.bounds_roundtrip', 'EdbVerif.C06.cartesian_sound', 'EdbVerif.C06.union_sound',
    'EdbVerif.C06.max_sound', 'EdbVerif.C06.coalesce_sound', 'EdbVerif.C06.min_sound',
    'EdbVerif.C06.filter_sound', 'EdbVerif.C06.for_sound', 'EdbVerif.C06.stdCall_sound',
    'EdbVerif.C06.limit_one_sound', 'EdbVerif.C06.limit_const_sound', 'EdbVerif.C06.zero_lower_sound',
    'EdbVerif.C06.limit_offset_commute', 'EdbVerif.C06.offset_limit_sound',
    'EdbVerif.C06.C06_card_partial', 'EdbVerif.C06.C06_mult_partial',
    'EdbVerif.C06.C06_card_counterexample_dependent_rhs',
    'EdbVerif.C06.C06_card_counterexample_link_taken_as_id',
    'EdbVerif.C06.C06_mult_counterexample_exclusive_property_over_duplicates',
    'EdbVerif.C06.C06_mult_counterexample_for_path_rooted_at_iterator',
    'EdbVerif.C06.C06_mult_counterexample_for_filter_distinct_union',
    'EdbVerif.C06.C06_mult_counterexample_union_of_disjoint_flagged',
    'EdbVerif.C06.C06_mult_counterexample_nested_for_flag_leak',
    'EdbVerif.C06.C06_mult_counterexample_union_type_operand',
]

CARDS = ['AT_MOST_ONE', 'ONE', 'MANY', 'AT_LEAST_ONE']
BOUNDS = ['ZERO', 'ONE', 'MANY']
MULTS = ['EMPTY', 'UNIQUE', 'DUPLICATE']
TMODS = ['SetOfType', 'OptionalType', 'SingletonType']


def gamma(card: str, n: int) -> bool:
    return {'ONE': n == 1, 'AT_MOST_ONE': n <= 1, 'AT_LEAST_ONE': n >= 1, 'MANY': True}[card]


# ------------------------------------------------------------------ T2: combinators
def comb_cases():
    def lists(alpha, maxn):
        for n in range(maxn + 1):
            for c in itertools.product(alpha, repeat=n):
                yield list(c)
    for cs in lists(CARDS, 4):
        a = ','.join(cs) or '-'
        for f in ('cartesian', 'union', 'max', 'min', 'unzip'):
            yield (f, [a], cs)
    for bs in lists(BOUNDS, 4):
        yield ('product', [','.join(bs) or '-'], bs)
    for t in TMODS:
        yield ('typemod', [t], t)
    for c in CARDS:
        yield ('c2b', [c], c)
        yield ('preds', [c], c)
        for d in CARDS:
            yield ('subset', [c, d], (c, d))
    for b in BOUNDS:
        yield ('breq', [b], b)
        yield ('bsc', [b], b)
        for u in BOUNDS:
            yield ('b2c', [b, u], (b, u))
        for n in range(0, 6):
            yield ('badd', [b, str(n)], (b, n))
            yield ('bmul', [b, str(n)], (b, n))
    for r in ('true', 'false'):
        yield ('bfromreq', [r], r == 'true')
    for s in ('One', 'Many'):
        yield ('bfromsc', [s], s)
    for ms in lists(MULTS, 3):
        a = ','.join(ms) or '-'
        yield ('maxmult', [a], ms)
        yield ('minmult', [a], ms)


def comb_real(f, arg, C, Mu, Q, IC):
    """the REAL function on the same input, canonicalised like the driver's output"""
    card = lambda n: Q.Cardinality[n]               # noqa: E731
    bnd = lambda n: C.CardinalityBound[n]           # noqa: E731
    b = lambda x: str(bool(x)).lower()              # noqa: E731
    try:
        if f == 'cartesian':
            return C.cartesian_cardinality([card(c) for c in arg]).name
        if f == 'union':
            return C._union_cardinality([card(c) for c in arg]).name
        if f == 'max':
            return C.max_cardinality([card(c) for c in arg]).name
        if f == 'min':
            return C.min_cardinality([card(c) for c in arg]).name
        if f == 'unzip':
            lo, up = C._card_unzip([card(c) for c in arg])
            return ','.join(x.name for x in lo) + ' ' + ','.join(x.name for x in up)
        if f == 'product':
            return C.product([bnd(x) for x in arg]).name
        if f == 'typemod':
            return C._typemod_to_card(Q.TypeModifier[arg]).name
        if f == 'c2b':
            r = C._card_to_bounds(card(arg))
            return f'{r.lower.name} {r.upper.name}'
        if f == 'preds':
            c = card(arg)
            return f'{b(c.is_single())} {b(c.is_multi())} {b(c.can_be_zero())}'
        if f == 'subset':
            return b(C.is_subset_cardinality(card(arg[0]), card(arg[1])))
        if f == 'breq':
            return b(bnd(arg).as_required())
        if f == 'bsc':
            return bnd(arg).as_schema_cardinality().name
        if f == 'b2c':
            return C._bounds_to_card(bnd(arg[0]), bnd(arg[1])).name
        if f == 'badd':
            return (bnd(arg[0]) + arg[1]).name
        if f == 'bmul':
            return (bnd(arg[0]) * arg[1]).name
        if f == 'bfromreq':
            return C.CardinalityBound.from_required(arg).name
        if f == 'bfromsc':
            return C.CardinalityBound.from_schema_value(Q.SchemaCardinality[arg]).name
        if f in ('maxmult', 'minmult'):
            fn = Mu._max_multiplicity if f == 'maxmult' else Mu._min_multiplicity
            r = fn([IC.MultiplicityInfo(own=Q.Multiplicity[m]) for m in arg])
            return f'{r.own.name} {b(r.disjoint_union)} {b(r.fresh_free_object)}'
    except (AssertionError, ValueError) as e:
        return f'err {type(e).__name__}'
    raise core.Infra(f'comb_real: {f}')


def comb_oracle(f, arg, out):
    """the property itself, by brute force on the REAL output: every combination of
    operand sizes allowed by the operand cardinalities gives a result size allowed by
    the reported one.  Sizes 0..3 cover every case distinction of the concretisation."""
    bad = []
    if f in ('cartesian', 'union', 'max', 'min') and not out.startswith('err'):
        for ns in itertools.product(range(0, 4), repeat=len(arg)):
            if not all(gamma(c, n) for c, n in zip(arg, ns)):
                continue
            if f == 'cartesian':
                n = 1
                for x in ns:
                    n *= x
                sizes = [n]
            elif f == 'union':
                sizes = [sum(ns)]
            elif f == 'max':
                # `??`: the first non-empty operand; IF/ELSE-like choice is covered by cartesian
                sizes = [next((x for x in ns if x), 0)]
            else:
                sizes = [min(ns)]
            for n in sizes:
                if not gamma(out, n):
                    bad.append(f'{f}({",".join(arg)}) = {out} but operand sizes {list(ns)} give {n}')
                    return bad
    if f in ('max', 'min') and (out.startswith('err') != (len(arg) == 0)):
        bad.append(f'{f} raises iff the sequence is empty: {arg} -> {out}')
    return bad


# ------------------------------------------------------------------ S: oracle on terms
def has_dups(vals):
    return len(set(vals)) != len(vals)


def oracle_term(real: str, vals):
    """real = 'CARD MULT dis'; vals = canonical result list. -> list of (kind, what)"""
    bad = []
    card, mult, _ = real.split(' ')
    if not gamma(card, len(vals)):
        bad.append(('card', f'reported {card} but the result has {len(vals)} element(s)'))
    if mult == 'UNIQUE' and has_dups(vals):
        bad.append(('mult', 'classified UNIQUE but the result contains duplicates'))
    if mult == 'EMPTY' and vals:
        bad.append(('mult', 'classified EMPTY but the result is not empty'))
    return bad


def free_vars(t, depth=0, acc=None):
    acc = set() if acc is None else acc
    k = t[0]
    if k == 'var':
        if t[1] >= depth:
            acc.add(t[1] - depth)
    elif k in ('filter', 'for'):
        free_vars(t[1], depth, acc)
        free_vars(t[2], depth + 1, acc)
    else:
        for x in t[1:]:
            if isinstance(x, tuple) and x and isinstance(x[0], str):
                free_vars(x, depth, acc)
            elif isinstance(x, tuple):
                for y in x:
                    if isinstance(y, tuple) and y and isinstance(y[0], str):
                        free_vars(y, depth, acc)
    return acc


def subterms(t):
    """(path, subterm) for all positions; path = list of (index[, list index])"""
    yield (), t
    for i, x in enumerate(t[1:], 1):
        if isinstance(x, tuple) and x and isinstance(x[0], str):
            for p, s in subterms(x):
                yield ((i, None),) + p, s
        elif isinstance(x, tuple):
            for j, y in enumerate(x):
                if isinstance(y, tuple) and y and isinstance(y[0], str):
                    for p, s in subterms(y):
                        yield ((i, j),) + p, s


def replace_at(t, path, new):
    if not path:
        return new
    (i, j), rest = path[0], path[1:]
    l = list(t)
    if j is None:
        l[i] = replace_at(t[i], rest, new)
    else:
        inner = list(t[i])
        inner[j] = replace_at(inner[j], rest, new)
        l[i] = tuple(inner)
    return tuple(l)


def shrink(case, fails, budget=400):
    """structural shrinking of the term (schema and database fixed): hoist closed
    subterms, replace subterms by leaves, drop tuple / call structure"""
    sch, db, t = case
    changed = True
    while changed and budget > 0:
        changed = False
        cands = []
        for p, s in subterms(t):
            if p and not free_vars(s):
                cands.append(s)                       # hoist a closed subterm to the top
        for p, s in subterms(t):
            if not p:
                continue
            for leaf in (('lit', 1), ('empty',)) + tuple(('root', ty) for ty in range(sch['ntypes'])):
                if s != leaf and M.term_size(s) > 1:
                    cands.append(replace_at(t, p, leaf))
            # replace a node by one of its direct children when that child is closed under the same binders
            for i, x in enumerate(s[1:], 1):
                if isinstance(x, tuple) and x and isinstance(x[0], str):
                    if s[0] in ('filter', 'for') and i == 2:
                        continue
                    cands.append(replace_at(t, p, x))
        cands.sort(key=M.term_size)
        for c in cands:
            budget -= 1
            if budget <= 0:
                break
            if M.term_size(c) < M.term_size(t) and fails((sch, db, c)):
                t = c
                changed = True
                break
    return (sch, db, t)


CLASS_KIND = {
    'constant-set-of-optional-parameters': 'card',
    'excl-filter-rhs-depends-on-subject': 'card',
    'excl-filter-link-of-subject-type-taken-as-id': 'card',
}


def finding_key(kind, cls):
    """stable key of a rule class (a wrong AT_MOST_ONE shows up as a wrong UNIQUE as well: same key)"""
    return f'oracle:{CLASS_KIND.get(cls, kind)}:{cls}'


def classify(sch, t, kind):
    """attribute a (shrunk) failing term to a rule of the inference"""
    eq, and_ = M.FN_IX['eq'], M.FN_IX['and']

    def chain(q, depth):
        """pointer chain from the FILTER subject (var `depth`)?"""
        ps = []
        while q[0] == 'path':
            ps.append(q[2])
            q = q[1]
        return list(reversed(ps)) if q == ('var', depth) else None

    def eqs(w):
        if w[0] == 'call' and w[1] == and_:
            return eqs(w[2][0]) + eqs(w[2][1])
        if w[0] == 'call' and w[1] == eq:
            return [w[2]]
        return []

    found = set()

    def walk(q, dup_ctx=False):
        k = q[0]
        if k == 'cset' and all(isinstance(e, tuple) and not sch.get('params', [])[e[1]] for e in q[1]):
            found.add('constant-set-of-optional-parameters')
        if k == 'filter':
            for (l, r) in eqs(q[2]):
                for a, b in ((l, r), (r, l)):
                    ps = chain(a, 0)
                    if ps is not None:
                        if 0 in free_vars(b):
                            found.add('excl-filter-rhs-depends-on-subject')
                        if ps and sch['ptrs'][ps[-1]]['link'] is not None:
                            found.add('excl-filter-link-of-subject-type-taken-as-id')
                        if 0 not in free_vars(b) and free_vars(b):
                            found.add('for-filter-distinct-union')
        if k == 'path':
            p = sch['ptrs'][q[2]]
            if p['link'] is None and p['exclusive'] and q[1][0] not in ('root', 'var', 'path'):
                found.add('excl-prop-over-duplicate-source')
        if k == 'union':
            def root_var(b):
                while b[0] == 'path':
                    b = b[1]
                return b[0] == 'var'
            if root_var(q[1]) and root_var(q[2]):
                found.add('union-of-disjoint-flagged-operands')
        if k == 'for' and q[2][0] == 'for' and q[2][2][0] == 'for':
            found.add('nested-for-inner-disjoint-flag-leaks-outward')
        if k == 'for':
            def rooted(b, d):
                if b[0] == 'path':
                    x = b
                    while x[0] == 'path':
                        x = x[1]
                    if x == ('var', d):
                        return True
                return False
            for _, s in subterms(q[2]):
                if rooted(s, 0) or any(rooted(s, d) for d in range(1, 4)):
                    found.add('for-path-rooted-at-iterator-taken-as-disjoint')
        for x in q[1:]:
            if isinstance(x, tuple) and x and isinstance(x[0], str):
                walk(x)
            elif isinstance(x, tuple):
                for y in x:
                    if isinstance(y, tuple) and y and isinstance(y[0], str):
                        walk(y)
    walk(t)
    order = (['constant-set-of-optional-parameters', 'excl-filter-rhs-depends-on-subject',
              'excl-filter-link-of-subject-type-taken-as-id']
             if kind == 'card' else
             # a wrong AT_MOST_ONE also yields a wrong UNIQUE (singletons are UNIQUE): card classes last
             ['excl-prop-over-duplicate-source', 'union-of-disjoint-flagged-operands',
              'nested-for-inner-disjoint-flag-leaks-outward',
              'for-path-rooted-at-iterator-taken-as-disjoint', 'for-filter-distinct-union',
              'constant-set-of-optional-parameters',
              'excl-filter-rhs-depends-on-subject', 'excl-filter-link-of-subject-type-taken-as-id'])
    for c in order:
        if c in found:
            return c
    return None


# ------------------------------------------------------------------------- level 2
def level2(ctx, witnesses, load_case, case_json, lines, expect):
    """EdgeQL text -> REAL parser (bridge) -> REAL compile_ast_to_ir; REAL toy_eval_model on the same text.
    Appends `infer` / `eval` protocol lines (streams infer2 / eval2) and runs the oracle."""
    import time
    t0 = time.time()
    from bridge import env
    env.setup()
    from edb import errors
    from edb.tools import toy_eval_model as T
    from lib import c06_level2 as L2
    out = {'available': True, 'witness_texts': 0, 'witness_failures': 0, 'queries': 0, 'rejected_by_compiler': 0,
           'nonlinear_rejected': 0, 'toy_skipped': 0, 'oracle_checks': 0, 'oracle_failures': 0, 'samples': []}
    schemas = {}

    def schema(sdl):
        if sdl not in schemas:
            schemas[sdl] = env.load_schema(sdl, modname='default')
        return schemas[sdl]

    def compile_(rs, text):
        try:
            ir = env.compile_to_ir(rs, text)
            return f'{ir.cardinality.name} {ir.multiplicity.name}'
        except errors.QueryError:
            return 'reject'
        except errors.EdgeDBError as e:
            return f'EXC:{type(e).__name__}'

    def toy_text(toy, text):
        try:
            text = L2.toy_text(text, toy.sch)       # inheritance is desugared for the toy model
            text = L2.bind_params(text, toy.params)  # parameters are replaced by their arguments
            return [toy.canon(v) for v in T.toplevel_query(T.parse(text), toy.db)]
        except Exception:             # constructs the toy model does not cover (LIMIT {}, min({}), casts)
            return None

    pending = out['pending'] = []

    def defer(line_idx, real, key_attr, key_raw, what, detail):
        """report after the driver ran: under the known key `key_attr` only if the Lean model of the unchanged
        rules infers the same as the real compiler for this very term (protocol line `line_idx`); otherwise
        under `key_raw` (the concrete query).  `line_idx is None`: a fixed text-only witness."""
        pending.append(dict(line=line_idx, real=real, key_attr=key_attr, key_raw=key_raw, what=what,
                            detail=detail))

    # -- witnesses as text
    for w in witnesses:
        if not w.get('edgeql'):
            continue
        sch, db, t = load_case(dict(w, term=w['term'] if w.get('term') is not None else ['empty']))
        rs = schema(w['sdl'])
        real = compile_(rs, w['edgeql'])
        vals = toy_text(M.Toy(sch, db), w['edgeql'])
        out['witness_texts'] += 1
        if vals is None or ' ' not in real:
            continue
        li = None
        if w.get('term') is not None:
            li = len(lines)
            lines.append(f'infer {M.schema_line(sch)}|{M.term_line(t)}')
            expect.append(('winfer2', real, (w['edgeql'], sch, db, t)))
        for kind, what in oracle_term(real + ' 0', vals):
            out['witness_failures'] += 1
            defer(li, real, finding_key(kind, w['class']), f"oracle2:{kind}:{w['edgeql']}",
                  what + ' (real compiler on EdgeQL text; reference: toy_eval_model)',
                  {'edgeql': w['edgeql'], 'sdl': w['sdl'], 'compiler': real, 'result': vals,
                   'case': case_json(sch, db, t) if w.get('term') is not None else None,
                   'db': case_json(sch, db, ('empty',))['db'], 'comment': w.get('comment'), 'level': 2})

    # -- calls of the std functions with preserves_optionality / preserves_upper_cardinality (non-standard branch
    #    of cardinality.__infer_func_call): every flagged function x every parameter x argument class
    from lib import c06_funcs as FN
    out['func_calls'] = FN.run(ctx, env, errors, gamma, has_dups)
    out['oracle_checks'] += out['func_calls']['with_result']
    out['oracle_failures'] += out['func_calls']['oracle_failures']

    # -- every FILTER x OFFSET x LIMIT combination in one SELECT (top level, operand, shape element)
    from edb.ir import ast as irast

    def shape_card(ir, name):
        st = ir.expr
        while isinstance(st, irast.Set) and not st.shape and isinstance(st.expr, irast.SelectStmt):
            st = st.expr.result
        for el, _op in getattr(st, 'shape', ()):
            if el.expr.ptrref.shortname.name == name:
                return el.expr.ptrref.out_cardinality.name
        return None

    csch = dict(L2.COMBO_SCHEMA, fns=[dict(f) for f in M.STD_FNS])
    crs = schema(L2.sdl_of(csch))
    ctoy = M.Toy(csch, L2.COMBO_DB)
    out['combos'] = 0
    out['combo_shape_elements'] = 0
    for c in L2.stmt_combos():
        q, t = c['text'], c['term']
        out['combos'] += 1
        sl, tl = M.schema_line(csch), M.term_line(t)
        if c['pos'] == 'shape':
            try:
                real = shape_card(env.compile_to_ir(crs, q), 'z')
            except errors.QueryError:
                real = 'reject'
            out['combo_shape_elements'] += 1
            lines.append(f'infer {sl}|{tl}')
            expect.append(('shape2', real, (q, csch, L2.COMBO_DB, t)))
            sizes = None
            try:
                sizes = [len(o.shape['z']) for o in T.toplevel_query(T.parse(q), ctoy.db)]
            except Exception:
                out['toy_skipped'] += 1
            if sizes is not None and real not in (None, 'reject'):
                out['oracle_checks'] += 1
                for n in sizes:
                    if not gamma(real, n):
                        out['oracle_failures'] += 1
                        ctx.fail(f"oracle2:card:combo:{c['name']}",
                                 f'shape element reported {real} but has {n} element(s) '
                                 '(real compiler on EdgeQL text; reference: toy_eval_model)',
                                 {'edgeql': q, 'sdl': L2.sdl_of(csch), 'compiler': real, 'sizes': sizes,
                                  'case': case_json(csch, L2.COMBO_DB, t), 'level': 2})
                        break
            continue
        real = compile_(crs, q)
        vals = toy_text(ctoy, q) if ' ' in real else None
        if vals is None and ' ' in real:
            out['toy_skipped'] += 1
        lines.append(f'infer {sl}|{tl}')
        expect.append(('infer2', real, (q, csch, L2.COMBO_DB, t)))
        lines.append(f'eval {sl}|{M.db_line(L2.COMBO_DB)}|{tl}')
        expect.append(('eval2', None if vals is None else (' '.join(vals) or '-'), (q, csch, L2.COMBO_DB, t)))
        if vals is not None:
            out['oracle_checks'] += 1
            for kind, what in oracle_term(real + ' 0', vals):
                out['oracle_failures'] += 1
                ctx.fail(f"oracle2:{kind}:combo:{c['name']}",
                         what + ' (real compiler on EdgeQL text; reference: toy_eval_model)',
                         {'edgeql': q, 'sdl': L2.sdl_of(csch), 'compiler': real, 'result': vals,
                          'case': case_json(csch, L2.COMBO_DB, t), 'level': 2})

    # -- nested FOR over a duplicate inner iterator (fixed shapes)
    out['nested_for_shapes'] = 0
    for c in L2.nested_for_shapes():
        q, t = c['text'], c['term']
        out['nested_for_shapes'] += 1
        real = compile_(crs, q)
        vals = toy_text(ctoy, q) if ' ' in real else None
        sl, tl = M.schema_line(csch), M.term_line(t)
        li = len(lines)
        lines.append(f'infer {sl}|{tl}')
        expect.append(('infer2', real, (q, csch, L2.COMBO_DB, t)))
        lines.append(f'eval {sl}|{M.db_line(L2.COMBO_DB)}|{tl}')
        expect.append(('eval2', None if vals is None else (' '.join(vals) or '-'), (q, csch, L2.COMBO_DB, t)))
        if vals is not None:
            out['oracle_checks'] += 1
            for kind, what in oracle_term(real + ' 0', vals):
                out['oracle_failures'] += 1
                cls = classify(csch, t, kind)
                raw = f"oracle2:{kind}:shape:{c['name']}"
                defer(li, real, finding_key(kind, cls) if cls else raw, raw,
                      what + ' (real compiler on EdgeQL text; reference: toy_eval_model)',
                      {'edgeql': q, 'sdl': L2.sdl_of(csch), 'compiler': real, 'result': vals,
                       'case': case_json(csch, L2.COMBO_DB, t), 'level': 2})

    # -- UNION of object types under inheritance
    hsch = dict(L2.HIER_SCHEMA, fns=[dict(f) for f in M.STD_FNS])
    hrs = schema(L2.sdl_of(hsch))
    htoy = M.Toy(hsch, L2.HIER_DB)
    out['union_pairs'] = 0
    for c in L2.union_pairs():
        q, t = c['text'], c['term']
        out['union_pairs'] += 1
        real = compile_(hrs, q)
        vals = toy_text(htoy, q) if ' ' in real else None
        sl, tl = M.schema_line(hsch), M.term_line(t)
        li = len(lines)
        lines.append(f'infer {sl}|{tl}')
        expect.append(('infer2', real, (q, hsch, L2.HIER_DB, t)))
        lines.append(f'eval {sl}|{M.db_line(L2.HIER_DB)}|{tl}')
        expect.append(('eval2', None if vals is None else (' '.join(vals) or '-'), (q, hsch, L2.HIER_DB, t)))
        if vals is not None:
            out['oracle_checks'] += 1
            for kind, what in oracle_term(real + ' 0', vals):
                out['oracle_failures'] += 1
                raw = f"oracle2:{kind}:pair:{c['name']}"
                key = (finding_key(kind, 'union-with-union-type-operand-taken-as-disjoint') if c['nested']
                       else raw)
                defer(li, real, key, raw, what + ' (real compiler on EdgeQL text; reference: toy_eval_model with '
                      'the supertype expanded into the union of its exact subtypes)',
                      {'edgeql': q, 'toy_text': L2.toy_text(q, hsch), 'sdl': L2.sdl_of(hsch), 'compiler': real,
                       'result': vals, 'case': case_json(hsch, L2.HIER_DB, t), 'level': 2})

    # -- random well-typed queries
    rng = ctx.rng
    n_sch, per = ctx.budget(3, 40), ctx.budget(80, 250)
    recs = []
    for _ in range(n_sch):
        sch = M.gen_schema(rng, ntypes=rng.choice([1, 2, 2]), nptrs=rng.randint(3, 6))
        sdl = L2.sdl_of(sch)
        rs = schema(sdl)
        db = None
        while db is None:
            db = M.gen_db(rng, sch)
        toy = M.Toy(sch, db)
        n = 0
        while n < per:
            g = L2.TypedGen(rng, sch)
            t, text = g.gen(rng.randint(1, 4), [], g.rand_type())
            if not g.linear():
                out['nonlinear_rejected'] += 1
                continue
            n += 1
            q = 'select ' + text
            real = compile_(rs, q)
            out['queries'] += 1
            if real == 'reject':
                out['rejected_by_compiler'] += 1
            vals = toy_text(toy, q) if ' ' in real else None
            if vals is None and ' ' in real:
                out['toy_skipped'] += 1
            sl, tl = M.schema_line(sch), M.term_line(t)
            li = len(lines)
            lines.append(f'infer {sl}|{tl}')
            expect.append(('infer2', real, (q, sch, db, t)))
            lines.append(f'eval {sl}|{M.db_line(db)}|{tl}')
            expect.append(('eval2', None if vals is None else (' '.join(vals) or '-'), (q, sch, db, t)))
            if len(out['samples']) < 3:
                out['samples'].append(f'{q} => {real}')
            if vals is not None:
                out['oracle_checks'] += 1
                for kind, what in oracle_term(real + ' 0', vals):
                    recs.append((q, sdl, sch, db, t, real, vals, kind, what, li))

    for (q, sdl, sch, db, t, real, vals, kind, what, li) in recs:
        out['oracle_failures'] += 1
        # attribute through the level-1 machinery (same term on hand-built IR), shrinking there
        def fails(case, kind=kind):
            try:
                r = M.RealIR(case[0]).infer(case[2])
                if ' ' not in r:
                    return False
                v = M.Toy(case[0], case[1]).run(case[2])
            except Exception:
                return False
            return any(k == kind for k, _ in oracle_term(r, v))
        cls = None
        try:
            if fails((sch, db, t)):
                small = shrink((sch, db, t), fails, budget=300)
                cls = classify(small[0], small[2], kind)
        except Exception:
            cls = None
        raw = f'oracle2:{kind}:{q}'
        defer(li, real, finding_key(kind, cls) if cls else raw, raw,
              what + ' (real compiler on EdgeQL text; reference: toy_eval_model)',
              {'edgeql': q, 'sdl': sdl, 'compiler': real, 'result': vals, 'case': case_json(sch, db, t),
               'rule_class': cls, 'level': 2})
    out['wall_s'] = round(time.time() - t0, 1)
    return out


# ----------------------------------------------------------------------------- run
def run(ctx: core.Ctx):
    import shim  # noqa: F401
    from gen import card as gen_card
    from edb.edgeql.compiler.inference import cardinality as C, multiplicity as Mu, context as IC
    from edb.edgeql import qltypes as Q

    # ---- T1: regenerate the Lean definitions from the current tree
    gen_ok = True
    try:
        info = gen_card.write(core.REPO, core.LEAN_DIR)
        ctx.log(f"Gen/Card.lean regenerated from {core.REPO} ({'changed' if info['changed'] else 'unchanged'}); "
                f"{len(info['functions'])} functions")
    except gen_card.Untranslatable as e:
        gen_ok = False
        info = {'functions': {}}
        ctx.fail('gen:untranslatable', 'the cardinality algebra left the translatable subset '
                 '(Gen/Card.lean is stale; theorems no longer speak about the current code)',
                 {'error': str(e), 'stream': 'harness/gen/card.py'}, no_input=True)
        ctx.log('translator aborted:', e)

    proved = ctx.proof_stage(PROPS, ['EdbVerif.Props.C06', 'Driver.C06'], required=REQUIRED,
                             gen_obligations=len(info['functions']))
    ctx.log('proof stage:', 'ok' if proved else ctx.proof['broken'][:5])

    lines: list[str] = []
    expect: list[tuple] = []          # (stream, real output, payload)

    # ---- T2
    n_comb = 0
    for f, args, arg in comb_cases():
        real = comb_real(f, arg, C, Mu, Q, IC)
        for b in comb_oracle(f, arg, real):
            ctx.fail(f'oracle:comb:{f}:{",".join(map(str, arg)) if isinstance(arg, list) else arg}', b,
                     {'function': f, 'input': arg, 'real': real})
        lines.append('comb ' + f + ' ' + ' '.join(args))
        expect.append(('comb', real, (f, arg)))
        n_comb += 1
    # the sentinel is outside the translated domain: the real tables reject it
    for fn, nm in ((C._card_to_bounds, '_card_to_bounds'), (lambda c: C.cartesian_cardinality([c]), 'cartesian')):
        try:
            fn(Q.Cardinality.UNKNOWN)
            ctx.fail(f'assumption:unknown:{nm}', 'Cardinality.UNKNOWN is accepted by the real function although '
                     'the translation excludes it', {'function': nm}, no_input=True)
        except KeyError:
            pass

    # ---- cases for T3 / S
    cases = []          # (stream, schema, db|None, term)
    wpath = os.path.join(core.VERIF, 'corpus', 'C06', 'witnesses.json')
    witnesses = json.load(open(wpath)) if os.path.exists(wpath) else []

    def untuple(x):
        return tuple(untuple(y) for y in x) if isinstance(x, list) else x

    def load_case(c):
        sch = c['schema']
        sch = {'ntypes': sch['ntypes'], 'ptrs': sch['ptrs'], 'fns': [dict(f) for f in M.STD_FNS],
               'children': {int(k): v for k, v in sch.get('children', {}).items()},
               'descs': {int(k): v for k, v in sch.get('descs', {}).items()},
               'params': sch.get('params', [])}
        db = None
        if c.get('db') is not None:
            db = {'objs': [tuple(o) for o in c['db']['objs']], 'params': c['db'].get('params', []),
                  'ptrs': {tuple(map(int, k.split(':'))): [untuple(v) for v in vs]
                           for k, vs in c['db']['ptrs'].items()}}
        return sch, db, untuple(c['term'])

    replay_fn = []
    if ctx.replay:
        rp = json.load(open(ctx.replay))
        for f in rp['failures']:
            d = f.get('detail')
            if isinstance(d, dict) and d.get('case'):
                cases.append(('replay',) + load_case(d['case']))
            if isinstance(d, dict) and d.get('func_call_query'):
                replay_fn.append(d['func_call_query'])
        if replay_fn:
            from bridge import env as _env
            _env.setup()
            from edb import errors as _errors
            from lib import c06_funcs as FN
            ctx.log('replay func calls:', FN.run(ctx, _env, _errors, gamma, has_dups, only_queries=replay_fn))
    else:
        for w in witnesses:
            if w.get('term') is not None:
                cases.append(('witness:' + w['name'],) + load_case(w))
        # every FILTER x OFFSET x LIMIT combination in one SELECT, over sources of each cardinality
        from lib import c06_level2 as L2
        combo_sch = dict(L2.COMBO_SCHEMA, fns=[dict(f) for f in M.STD_FNS])
        # nested FOR over a duplicate inner iterator with a body rooted in the outer variable (fixed, first)
        for c in L2.nested_for_shapes():
            cases.append(('shape:' + c['name'], combo_sch, L2.COMBO_DB, c['term']))
        for c in L2.stmt_combos():
            if c['pos'] != 'shape':
                cases.append(('combo:' + c['name'], combo_sch, L2.COMBO_DB, c['term']))
        # UNION of object types under inheritance (chain of depth 3, diamond, unrelated)
        hier_sch = dict(L2.HIER_SCHEMA, fns=[dict(f) for f in M.STD_FNS])
        for c in L2.union_pairs():
            cases.append((('pair3:' if c['nested'] else 'pair:') + c['name'], hier_sch, L2.HIER_DB, c['term']))
        n_fixed = len(cases)
        rng = ctx.rng
        n_terms = ctx.budget(1500, 40000)
        while len(cases) < n_terms + n_fixed:
            sch = M.gen_schema(rng, ntypes=rng.choice([1, 2, 2, 3]), nptrs=rng.randint(3, 7))
            for _ in range(4):
                toy_safe = rng.random() < 0.7
                g = M.TermGen(rng, sch, with_paths=rng.random() < 0.8, toy_safe=toy_safe)
                t, _ty = g.gen(rng.randint(1, 4), [])
                db = None
                if toy_safe:
                    for _try in range(5):
                        db = M.gen_db(rng, sch)
                        if db is not None:
                            break
                cases.append(('rand', sch, db, t))

    def case_json(sch, db, t):
        return {'schema': {'ntypes': sch['ntypes'], 'ptrs': sch['ptrs'],
                           'children': {str(k): v for k, v in sch.get('children', {}).items()},
                           'descs': {str(k): v for k, v in sch.get('descs', {}).items()},
                           'params': sch.get('params', [])},
                'db': None if db is None else {'objs': db['objs'], 'params': db.get('params', []),
                                               'ptrs': {f'{p}:{i}': v for (p, i), v in db['ptrs'].items()}},
                'term': t}

    def real_infer(sch, t, merge=True):
        try:
            return M.RealIR(sch, merge=merge).infer(t)
        except Exception as e:         # an unexpected exception of the real code is a result, not infra
            return f'EXC:{type(e).__name__}'

    def toy_eval(sch, db, t, merge=True):
        try:
            return M.Toy(sch, db, merge=merge).run(t), None
        except AssertionError:
            return None, 'toy-assert'          # LIMIT / OFFSET {} is outside the toy model
        except Exception as e:
            return None, f'toy-{type(e).__name__}'

    hist_card, hist_mult, heads = {}, {}, {}
    toy_skips = {}
    n_infer = n_eval = 0
    recs = []
    for (stream, sch, db, t) in cases:
        # a chain limit(offset(filter(a))) is ONE SelectStmt (always for the fixed streams, for half of the
        # random terms) or nested SelectStmts; the model must agree with both
        merge = stream != 'rand' or len(M.term_line(t)) % 2 == 0
        real = real_infer(sch, t, merge)
        sl = M.schema_line(sch)
        tl = M.term_line(t)
        lines.append(f'infer {sl}|{tl}')
        expect.append(('infer', real, (stream, sch, db, t)))
        n_infer += 1
        M.term_heads(t, heads)
        if ' ' in real:
            c, m, _ = real.split(' ')
            hist_card[c] = hist_card.get(c, 0) + 1
            hist_mult[m] = hist_mult.get(m, 0) + 1
        else:
            hist_card[real] = hist_card.get(real, 0) + 1
        vals = None
        if db is not None and ' ' in real:
            vals, why = toy_eval(sch, db, t, merge)
            if why:
                toy_skips[why] = toy_skips.get(why, 0) + 1
            lines.append(f'eval {sl}|{M.db_line(db)}|{tl}')
            expect.append(('eval', None if vals is None else (' '.join(vals) or '-'), (stream, sch, db, t)))
            n_eval += 1
        recs.append((stream, sch, db, t, real, vals))

    ctx.log(f'{n_comb} combinator inputs, {n_infer} terms through the real inference, {n_eval} evaluations; '
            f'cards {hist_card}')

    # ---- level 2: EdgeQL text through the real front-end (harness/bridge), when it is available
    l2 = {'available': False}
    if not ctx.replay:
        try:
            l2 = level2(ctx, witnesses, load_case, case_json, lines, expect)
        except core.Infra:
            raise
        except ImportError as e:
            l2 = {'available': False, 'why': f'bridge not importable: {e}'}
        ctx.log('level 2:', {k: v for k, v in l2.items() if k not in ('samples', 'pending')})

    try:
        model = ctx.driver('C06', lines)
    except core.Infra:
        if proved:
            raise
        # the generated definitions no longer fit the model (the proof stage has recorded what broke):
        # no correspondence stream, but the property's oracles below still run on the real outputs
        model = None
        ctx.notes.append('driver does not build against the regenerated Gen/Card.lean: correspondence streams '
                         'skipped, oracles evaluated on the real outputs only')
    if model is not None and len(model) != len(lines):
        raise core.Infra(f'driver returned {len(model)} lines for {len(lines)}')

    # ---- compare
    dis = {'comb': 0, 'infer': 0, 'eval': 0, 'infer2': 0, 'eval2': 0, 'shape2': 0, 'winfer2': 0}
    n_eval_cmp = 0
    model_eval = {}
    model_infer = {}      # id(term) -> what the Lean model of the UNCHANGED rules infers for that very term
    for line, (stream, real, payload), mout in zip(lines, expect, model or []):
        if stream == 'infer':
            model_infer[id(payload[3])] = mout
        if stream == 'eval':
            model_eval[id(payload[3]), id(payload[2])] = mout
            if real is None:
                continue            # the toy model does not cover this term; the Lean value is used by the oracle
            n_eval_cmp += 1
        if stream in ('infer2', 'winfer2'):
            mout = ' '.join(mout.split(' ')[:2]) if ' ' in mout else mout
        if stream == 'shape2':
            mout = mout.split(' ')[0]
            if real is None:
                continue
        if stream == 'eval2' and real is None:
            continue
        if real != mout:
            dis[stream] = dis.get(stream, 0) + 1
            what = {'comb': 'generated Lean definition and real combinator disagree',
                    'infer': 'Lean inferCard/inferMult and the real inference disagree',
                    'eval': 'Lean eval and toy_eval_model disagree',
                    'infer2': 'Lean inferCard/inferMult and the real compiler (EdgeQL text) disagree',
                    'winfer2': 'Lean inferCard/inferMult and the real compiler (witness EdgeQL text) disagree',
                    'shape2': 'Lean inferCard and the cardinality the real compiler gives a computed shape element disagree',
                    'eval2': 'Lean eval and toy_eval_model (EdgeQL text) disagree'}[stream]
            detail = {'line': line, 'real': real, 'model': mout,
                      'stream': {'comb': 'cardinality.py combinators vs Gen/Card.lean',
                                 'infer': 'infer_cardinality/infer_multiplicity on hand-built IR vs Model/MiniQL.lean',
                                 'eval': 'toy_eval_model vs MiniQL.eval',
                                 'infer2': 'compile_ast_to_ir(text).cardinality/multiplicity vs Model/MiniQL.lean',
                                 'winfer2': 'compile_ast_to_ir(witness text) vs Model/MiniQL.lean',
                                 'shape2': 'shape element ptrref.out_cardinality vs Model/MiniQL.lean inferCard',
                                 'eval2': 'toy_eval_model(text) vs MiniQL.eval'}[stream]}
            if stream in ('infer2', 'eval2', 'shape2', 'winfer2'):
                detail['edgeql'] = payload[0]
                detail['case'] = case_json(*payload[1:])
            elif stream != 'comb':
                detail['case'] = case_json(*payload[1:])
            ctx.fail(f'corr:{stream}:{line}', what, detail, no_input=True)

    # ---- level-2 oracle failures: attribute to a known rule only when the model reproduces the divergence
    for pnd in l2.pop('pending', []):
        attributed = pnd['line'] is None
        mout = None
        if pnd['line'] is not None and model is not None:
            mout = model[pnd['line']]
            mout = ' '.join(mout.split(' ')[:2]) if ' ' in mout else mout
            attributed = mout == pnd['real']
        if attributed:
            ctx.fail(pnd['key_attr'], pnd['what'], pnd['detail'])
        else:
            ctx.fail(pnd['key_raw'], pnd['what'] + f"; the Lean model of the unchanged rules infers {mout!r} for "
                     f"this term, the real compiler {pnd['real']!r}", dict(pnd['detail'], model_inference=mout))

    # ---- S: the property's oracle on the real outputs
    def fails_kind(kind):
        def f(case):
            sch, db, t = case
            real = real_infer(sch, t)
            if ' ' not in real:
                return False
            vals, why = toy_eval(sch, db, t)
            if vals is None:
                return False
            return any(k == kind for k, _ in oracle_term(real, vals))
        return f

    n_oracle = n_oracle_lean = 0
    viol_classes = {}
    for (stream, sch, db, t, real, vals) in recs:
        if db is None or ' ' not in real:
            continue
        ref = 'toy_eval_model'
        if vals is None:
            mv = model_eval.get((id(t), id(db)))
            if mv is None or mv == 'bad-op':
                continue
            vals = [] if mv == '-' else mv.split(' ')
            ref = 'MiniQL.eval (toy model does not cover the term)'
            n_oracle_lean += 1
        n_oracle += 1
        for kind, what in oracle_term(real, vals):
            case = (sch, db, t)
            # A failure is attributed to a known rule class ONLY IF the Lean model of the unchanged rules
            # predicts the same (wrong) answer for this very term: then the divergence is the modelled, known
            # defect.  If the model disagrees with the real inference here, the real code does something the
            # transcribed rules do not: report it with the concrete input, never under a known key.
            reproduced = model_infer.get(id(t)) == real
            if not reproduced:
                key = f'oracle:{kind}:unmodelled:{M.term_line(t)}'
                viol_classes[key] = viol_classes.get(key, 0) + 1
                ctx.fail(key, what + f' (reference: {ref}); the Lean model of the unchanged rules infers '
                         f'{model_infer.get(id(t))!r} for this term, the real inference {real!r}',
                         {'case': case_json(*case), 'term_line': M.term_line(t), 'real_inference': real,
                          'model_inference': model_infer.get(id(t)), 'result': vals, 'stream': stream})
                continue
            if ref == 'toy_eval_model':
                case = shrink(case, fails_kind(kind), budget=ctx.budget(300, 600))
            cls = classify(case[0], case[2], kind)
            if stream.startswith('witness:'):
                w = next(x for x in witnesses if 'witness:' + x['name'] == stream)
                cls = w.get('class', cls)
            key = finding_key(kind, cls) if cls else f'oracle:{kind}:unclassified:{M.term_line(case[2])}'
            if not cls and stream.startswith('pair3:'):
                cls = 'union-with-union-type-operand-taken-as-disjoint'
                key = finding_key(kind, cls)
            if not cls and (stream.startswith('combo:') or stream.startswith('pair:') or stream.startswith('shape:')):
                key = f'oracle:{kind}:{stream}'
            viol_classes[key] = viol_classes.get(key, 0) + 1
            r2 = real_infer(case[0], case[2])
            v2, _ = toy_eval(*case)
            ctx.fail(key, what + f' (reference: {ref})',
                     {'case': case_json(*case), 'term_line': M.term_line(case[2]), 'real_inference': r2,
                      'result': v2 if v2 is not None else vals, 'rule_class': cls,
                      'note': 'IR built by hand for the term (no EdgeQL front-end in this sandbox); the inference '
                              'functions and the evaluator are the real ones'})

    if not proved:
        ctx.proof_broken_verdict()

    distinct = set()
    nontrivial = 0
    for (stream, real, payload), line in zip(expect, lines):
        if line in distinct:
            continue
        distinct.add(line)
        if stream == 'comb':
            f, arg = payload
            if isinstance(arg, (list, tuple)) and len(arg) >= 2:
                nontrivial += 1
        elif payload[3] is not None and M.term_size(payload[3]) >= 3:
            nontrivial += 1

    samples = [lines[i] + ' => ' + str(expect[i][1]) for i in
               sorted({0, n_comb // 2, n_comb + 1, n_comb + len(cases) // 2, len(lines) - 1} & set(range(len(lines))))]
    ctx.cov.update({
        'evaluations': len(lines),
        'distinct_nontrivial': nontrivial,
        'rule': 'T2: every combinator on every input of arity <= 4 (4^n cardinality lists, 3^n bound lists, '
                'multiplicity lists <= 3), non-trivial = at least two operands; T3/S: random MiniQL terms '
                '(type-directed, depth 1-4, random schemas of 1-3 types and 3-7 pointers) and random conforming '
                'databases of 0-6 objects, plus the witness corpus; level 2: well-typed MiniQL terms printed as '
                'EdgeQL text, compiled by the real compiler through the parser bridge and evaluated by the real toy '
                'model on the text; non-trivial = term of at least 3 nodes; distinct = distinct protocol line',
        'samples': samples,
        'exhaustive': False,
        'combinator_inputs_exhaustive_upto_arity_4': n_comb,
        'terms_through_real_inference': n_infer,
        'term_evaluations_toy_vs_lean': n_eval_cmp,
        'toy_model_skipped': toy_skips,
        'oracle_checks': n_oracle,
        'oracle_checks_with_lean_reference': n_oracle_lean,
        'real_cardinality_histogram': hist_card,
        'real_multiplicity_histogram': hist_mult,
        'term_constructor_histogram': heads,
        'witness_cases': len(witnesses),
        'level2': l2,
        'oracle_failure_classes': viol_classes,
        'disagreements_model_vs_impl': dis,
        'translator': {'ok': gen_ok, 'functions': info.get('functions', {})},
        'correspondence': 'real cardinality.py/multiplicity.py combinators vs generated Gen/Card.lean; real '
                          'infer_cardinality/infer_multiplicity on hand-built real IR vs MiniQL.inferCard/inferMult; '
                          'real toy_eval_model on hand-built qlast vs MiniQL.eval; level 2: '
                          'compile_ast_to_ir(EdgeQL text).cardinality/.multiplicity vs MiniQL.inferCard/inferMult and '
                          'toy_eval_model(EdgeQL text) vs MiniQL.eval',
    })
    ctx.assumptions += [
        'no EdgeQL front-end in this sandbox: IR trees and qlast trees for a MiniQL term are built by the harness '
        '(lib/c06_miniql.py); that both denote the same query, and that the IR has the shape the real compiler '
        'produces (view-wrapped FOR iterators, fenced clauses, result registered in the statement scope), is assumed',
        'schema objects consulted by the inference (is_exclusive, get_exclusive_constraints, set_types, getptr(id)) are '
        'stubs subclassing the real schema classes; object-level exclusive constraints, inheritance, computed '
        'pointers, shapes, GROUP, DML, volatility are outside the calculus',
        'Cardinality.UNKNOWN / SchemaCardinality.Unknown are outside the translated domain (checked: the real tables '
        'raise KeyError on them)',
        'reference semantics = edb/tools/toy_eval_model.py; where it does not cover a term (LIMIT/OFFSET {}) the '
        'Lean eval, which agrees with it on all compared cases, is the reference',
        "the toy model's `?=` is compared only on operands of at most one element, `AND`/`OR` only on 0/1 operands",
    ]
    ctx.trusted_base += [
        'harness/gen/card.py (Python-AST -> Lean translator for the whitelisted subset); tied additionally by the '
        'exhaustive differential T2',
        'hand-written model EdbVerif/Model/MiniQL.lean (eval, inferCard, inferMult, accepts); tied by T3 / S',
        'harness/lib/c06_miniql.py: term generator, IR builder, qlast builder, canonicalisers; '
        'harness/props/c06.py: oracle, shrinking, classification',
    ]
