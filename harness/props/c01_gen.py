"""C01 generators: random / systematic qlast trees for the expression + statement core and
template-driven texts for DDL / SDL / CONFIGURE / session commands.

Everything here only PRODUCES TEXTS (or trees that are turned into text by `safe_text`,
a printer that parenthesises every sub-expression so that the nesting of the generated tree
is what the real parser sees).  The oracle (c01_rt) then starts from the text.
"""
from __future__ import annotations

import itertools

_Q = {}


def _q():
    if not _Q:
        from edb.edgeql import ast as qlast, codegen as qlcodegen, qltypes
        from edb.schema import pointers as s_pointers
        _Q.update(qlast=qlast, cg=qlcodegen, qltypes=qltypes,
                  OUT=s_pointers.PointerDirection.Outbound, IN=s_pointers.PointerDirection.Inbound)
    return _Q


# --------------------------------------------------------------------------- safe printer
def _own_links(node, parent=None):
    """parent links computed HERE (single / list / tuple / dict valued fields alike), so that the decision to
    parenthesise does not depend on the printer's own `_fix_parent_links`"""
    from edb.common.ast import base as astbase
    qlast = _q()['qlast']
    try:
        object.__setattr__(node, '_c01parent', parent)
    except Exception:
        return
    for name, val in astbase.iter_fields(node, include_meta=True):
        if name in ('span', 'system_comment'):
            continue
        vals = [val] if isinstance(val, qlast.Base) else \
            list(val.values()) if isinstance(val, dict) else list(val) if isinstance(val, (list, tuple)) else []
        for v in vals:
            if isinstance(v, qlast.Base):
                _own_links(v, node)
            elif isinstance(v, (list, tuple)):
                for w in v:
                    if isinstance(w, qlast.Base):
                        _own_links(w, node)


def safe_text(tree, wrap_ddl=False, **opts) -> str:
    """print with the real printer, but wrap every sub-expression in parentheses.
    wrap_ddl: also wrap expressions that are direct children of DDL nodes (constraint arguments, index kwargs …)."""
    q = _q()
    qlast, cg = q['qlast'], q['cg']
    WRAP = (qlast.BinOp, qlast.UnaryOp, qlast.IsOp, qlast.IfElse, qlast.TypeCast, qlast.DetachedExpr,
            qlast.GlobalExpr, qlast.Indirection, qlast.FunctionCall, qlast.BaseConstant, qlast.Parameter,
            qlast.Set, qlast.Array, qlast.Tuple, qlast.NamedTuple, qlast.Introspect, qlast.Shape,
            qlast.Path, qlast.Query, qlast.StrInterp)
    PARENTS = (qlast.BinOp, qlast.UnaryOp, qlast.IsOp, qlast.IfElse, qlast.TypeCast, qlast.DetachedExpr,
               qlast.Indirection, qlast.Index, qlast.Slice, qlast.FunctionCall, qlast.Tuple, qlast.Array,
               qlast.Set, qlast.TupleElement, qlast.SortExpr, qlast.AliasedExpr, qlast.SelectQuery,
               qlast.Shape, qlast.Path, qlast.ShapeElement, qlast.ForQuery, qlast.UpdateQuery,
               qlast.DeleteQuery, qlast.GroupQuery, qlast.TypeOf, qlast.StrInterpFragment)

    class SafeGen(cg.EdgeQLSourceGenerator):
        def visit(self, node, **kw):
            wrap = False
            if isinstance(node, WRAP):
                p = getattr(node, '_c01parent', None)
                if isinstance(p, PARENTS) or (wrap_ddl and isinstance(p, qlast.DDL) and not isinstance(node, qlast.ShapeElement)):
                    wrap = True
                    if isinstance(p, qlast.ShapeElement) and p.expr is node:
                        wrap = False
                    if isinstance(p, qlast.Path) and (not p.steps or p.steps[0] is not node):
                        wrap = False
                    if isinstance(p, qlast.ForQuery) and not p.has_union and p.result is node:
                        wrap = False
                    if isinstance(node, qlast.SelectQuery) and node.implicit:
                        wrap = False
                    if isinstance(node, qlast.Shape) and node.expr is None and isinstance(p, qlast.ShapeElement):
                        wrap = False
            if wrap:
                self.write('(')
            super().visit(node, **kw)
            if wrap:
                self.write(')')

    for t in (tree if isinstance(tree, (list, tuple)) else [tree]):
        _own_links(t)
    return SafeGen.to_source(tree, **opts)


# --------------------------------------------------------------------------- vocabulary
BINOPS = ['+', '++', '-', '*', '/', '//', '%', '^', '??', '=', '!=', '?=', '?!=', '>=', '<=', '<', '>',
          'AND', 'OR', 'LIKE', 'NOT LIKE', 'ILIKE', 'NOT ILIKE', 'IN', 'NOT IN', 'UNION', 'EXCEPT',
          'INTERSECT']
UNOPS = ['-', '+', 'NOT', 'EXISTS', 'DISTINCT']

PLAIN_IDENTS = ['x', 'Foo', 'b_1', 'É', 'User']
# identifiers that need (or might need) quoting -- per keyword class + lexical oddities
def odd_idents():
    from edb.edgeql.parser.grammar import keywords as kw
    unres = sorted(kw.by_type[kw.UNRESERVED_KEYWORD])
    res = sorted(kw.by_type[kw.RESERVED_KEYWORD])
    part = sorted(kw.by_type[kw.PARTIAL_RESERVED_KEYWORD])
    lex = ['1a', '0', '42', '007', 'a b', 'a`b', 'a-b', 'a.b', 'a@b', '$x', 'a$', 'ünï', '💯', 'A B C',
           'Select', 'SELECT', 'TRUE', 'Union', 'a\'b', 'a"b', 'a\\b', 'a#b', ' lead', 'trail ', '\t',
           'a\nb', 'if', '_', '__x', 'x__', '__x__', 'a:b', 'a::b', '@a', '``', 'é́']
    return {'unreserved': unres, 'reserved': res, 'partial': part, 'lexical': lex}


def bq(name: str) -> str:
    """source-level back-quoted identifier"""
    return '`' + name.replace('`', '``') + '`'


class Gen:
    def __init__(self, rng):
        self.rng = rng
        self.q = _q()
        self.qlast = self.q['qlast']
        self.idents = odd_idents()
        self.all_odd = [i for v in self.idents.values() for i in v]

    # ---------------------------------------------------------------- atoms
    def name(self, odd=0.0):
        r = self.rng
        if r.random() < odd:
            return r.choice(self.all_odd)
        return r.choice(PLAIN_IDENTS)

    def objref(self, odd=0.0, module=None):
        r = self.rng
        if module is None and r.random() < 0.25:
            module = r.choice(['std', 'default', 'std::cal', 'my mod', 'a::b c', '__std__'])\
                if r.random() < max(odd, 0.3) else r.choice(['std', 'default'])
        return self.qlast.ObjectRef(name=self.name(odd), module=module)

    def typename(self, depth=1, odd=0.0):
        r = self.rng
        ql = self.qlast
        k = r.random()
        if depth > 0 and k < 0.2:
            return ql.TypeName(maintype=ql.ObjectRef(name='array'), subtypes=[self.typename(depth - 1, odd)])
        if depth > 0 and k < 0.3:
            named = r.random() < 0.5
            subs = [self.typename(depth - 1, odd) for _ in range(r.randint(1, 3))]
            if named:
                for i, s in enumerate(subs):
                    s.name = f'n{i}' if r.random() > odd else self.name(1.0)
            return ql.TypeName(maintype=ql.ObjectRef(name='tuple'), subtypes=subs)
        if k < 0.36:
            return ql.TypeName(maintype=ql.PseudoObjectRef(name=r.choice(['anytype', 'anytuple', 'anyobject'])))
        return ql.TypeName(maintype=self.objref(odd))

    def typeexpr(self, depth=1, odd=0.0):
        r = self.rng
        ql = self.qlast
        if depth > 0 and r.random() < 0.3:
            return ql.TypeOp(left=self.typeexpr(depth - 1, odd), op=r.choice(['|', '&']),
                             right=self.typeexpr(depth - 1, odd))
        if depth > 0 and r.random() < 0.1:
            return ql.TypeOf(expr=self.atom())
        return self.typename(depth, odd)

    NUMS = [('INTEGER', '0'), ('INTEGER', '1'), ('INTEGER', '42'), ('INTEGER', '9223372036854775807'),
            ('INTEGER', '1_000'), ('INTEGER', '00'), ('INTEGER', '-1'), ('INTEGER', '-9223372036854775808'),
            ('INTEGER', '--1'),
            ('FLOAT', '1.5'), ('FLOAT', '1e10'), ('FLOAT', '1.0e-3'), ('FLOAT', '0.0'), ('FLOAT', '1e+5'),
            ('FLOAT', '-1.5'), ('FLOAT', '1_0.0_1e1_0'), ('FLOAT', '1E5'), ('FLOAT', '1e308'),
            ('BIGINT', '1n'), ('BIGINT', '0n'), ('BIGINT', '1e400n'), ('BIGINT', '123456789012345678901234567890n'),
            ('BIGINT', '-5n'), ('BIGINT', '1_0n'),
            ('DECIMAL', '1.5n'), ('DECIMAL', '1.0e-400n'), ('DECIMAL', '-0.0n'), ('DECIMAL', '1e-5n'),
            ('BOOLEAN', 'true'), ('BOOLEAN', 'false')]

    STR_PIECES = ['a', ' ', 'Z9', "'", '"', '$', '$$', '\\', '\n', '\t', '\r', '\b', '\f', '\x00', '\x01',
                  '\x1f', '\x7f', '\x80', '\x85', '\x9f', '\xa0', 'é', '​', '‪', '‮',
                  '⁦', '⁩', ' ', '﻿', '💯', '\\n', '\\(', '(', ')', '`', '#', ';',
                  '$a$', '$0$', '$1a$', '$f$', '$_$', 'r', 'b', '\\x41', '\\u00e9', '{', '}', '%', '\\\n  ']

    def strval(self, maxlen=5, hostile=0.5):
        r = self.rng
        n = r.randint(0, maxlen)
        if r.random() > hostile:
            return ''.join(r.choice(['a', 'b', ' ', 'Z', '9', '_', '-', '.', ':']) for _ in range(n))
        return ''.join(r.choice(self.STR_PIECES) for _ in range(n))

    def const(self, hostile=0.3):
        r = self.rng
        ql = self.qlast
        k = r.random()
        if k < 0.45:
            kind, val = r.choice(self.NUMS)
            return ql.Constant(kind=getattr(ql.ConstantKind, kind), value=val)
        if k < 0.85:
            return ql.Constant.string(self.strval(hostile=hostile))
        n = r.randint(0, 5)
        return ql.BytesConstant(value=bytes(r.choice([0, 9, 10, 13, 39, 34, 92, 65, 0x7e, 0x7f, 0x80, 0xff, 36, 32])
                                             for _ in range(n)))

    def path(self, odd=0.0, depth=1):
        r = self.rng
        ql, OUT, IN = self.qlast, self.q['OUT'], self.q['IN']
        k = r.random()
        partial = False
        if k < 0.55:
            steps = [self.objref(odd)]
        elif k < 0.7:
            steps = [ql.SpecialAnchor(name=r.choice(['__source__', '__subject__', '__new__', '__old__',
                                                      '__specified__', '__default__']))]
        elif k < 0.85:
            partial = True
            steps = [self._step(odd, first_partial=True)]
        else:
            steps = [ql.Parameter(name=r.choice(['p', '0', 'my p']) if r.random() < odd else 'p')]
        for _ in range(r.choice([0, 0, 1, 1, 2, 3])):
            steps.append(self._step(odd))
        return ql.Path(steps=steps, partial=partial)

    def _step(self, odd=0.0, first_partial=False):
        r = self.rng
        ql, OUT, IN = self.qlast, self.q['OUT'], self.q['IN']
        k = r.random()
        nm = self.name(odd)
        if r.random() < 0.08:
            nm = r.choice(['__type__', '0', '1', '12', 'id', 'union', 'except', 'intersect'])
        if k < 0.55:
            return ql.Ptr(name=nm, direction=OUT)
        if k < 0.7:
            return ql.Ptr(name=nm, direction=IN)
        if k < 0.85:
            return ql.Ptr(name=nm, direction=OUT, type='property')
        return ql.TypeIntersection(type=self.typeexpr(1, odd))

    def atom(self, odd=0.0, hostile=0.3):
        r = self.rng
        ql = self.qlast
        k = r.random()
        if k < 0.35:
            return self.const(hostile)
        if k < 0.7:
            return self.path(odd)
        if k < 0.8:
            return ql.Parameter(name=r.choice(['p', '0', '1', 'my param', 'select', 'a`b']) if r.random() < max(odd, 0.2) else 'p')
        if k < 0.85:
            return ql.Set(elements=[])
        if k < 0.9:
            return ql.Tuple(elements=[])
        if k < 0.95:
            return ql.GlobalExpr(name=self.objref(odd))
        return ql.Path(steps=[self.objref(odd)])

    # ------------------------------------------------------------ one-hole contexts
    def contexts(self):
        """name -> function(hole_expr) -> Expr.  The 'operator pair' population is
        contexts x contexts (x contexts)."""
        ql, OUT, IN = self.qlast, self.q['OUT'], self.q['IN']
        x = lambda: ql.Path(steps=[ql.ObjectRef(name='x')])
        y = lambda: ql.Path(steps=[ql.ObjectRef(name='y')])
        T = lambda: ql.TypeName(maintype=ql.ObjectRef(name='T'))
        C = {}
        for op in BINOPS:
            C[f'L:{op}'] = (lambda h, op=op: ql.BinOp(left=h, op=op, right=y()))
            C[f'R:{op}'] = (lambda h, op=op: ql.BinOp(left=x(), op=op, right=h))
        for op in UNOPS:
            C[f'U:{op}'] = (lambda h, op=op: ql.UnaryOp(op=op, operand=h))
        C['cast'] = lambda h: ql.TypeCast(type=T(), expr=h)
        C['cast-arr'] = lambda h: ql.TypeCast(type=ql.TypeName(maintype=ql.ObjectRef(name='array'),
                                                                  subtypes=[T()]), expr=h)
        C['cast-opt'] = lambda h: ql.TypeCast(type=T(), expr=h, cardinality_mod=ql.CardinalityModifier.Optional)
        C['cast-req'] = lambda h: ql.TypeCast(type=T(), expr=h, cardinality_mod=ql.CardinalityModifier.Required)
        C['detached'] = lambda h: ql.DetachedExpr(expr=h)
        C['is'] = lambda h: ql.IsOp(left=h, op='IS', right=T())
        C['isnot'] = lambda h: ql.IsOp(left=h, op='IS NOT', right=T())
        C['is-or'] = lambda h: ql.IsOp(left=h, op='IS', right=ql.TypeOp(left=T(), op='|', right=T()))
        C['typeof'] = lambda h: ql.IsOp(left=x(), op='IS', right=ql.TypeOf(expr=h))
        C['py-then'] = lambda h: ql.IfElse(if_expr=h, condition=x(), else_expr=y(), python_style=True)
        C['py-cond'] = lambda h: ql.IfElse(if_expr=x(), condition=h, else_expr=y(), python_style=True)
        C['py-else'] = lambda h: ql.IfElse(if_expr=x(), condition=y(), else_expr=h, python_style=True)
        C['if-cond'] = lambda h: ql.IfElse(if_expr=x(), condition=h, else_expr=y())
        C['if-then'] = lambda h: ql.IfElse(if_expr=h, condition=x(), else_expr=y())
        C['if-else'] = lambda h: ql.IfElse(if_expr=x(), condition=y(), else_expr=h)
        C['index-arg'] = lambda h: ql.Indirection(arg=h, indirection=[ql.Index(index=y())])
        C['slice-arg'] = lambda h: ql.Indirection(arg=h, indirection=[ql.Slice(start=y(), stop=None)])
        C['index-in'] = lambda h: ql.Indirection(arg=x(), indirection=[ql.Index(index=h)])
        C['slice-lo'] = lambda h: ql.Indirection(arg=x(), indirection=[ql.Slice(start=h, stop=y())])
        C['slice-hi'] = lambda h: ql.Indirection(arg=x(), indirection=[ql.Slice(start=None, stop=h)])
        C['dot'] = lambda h: ql.Path(steps=[h, ql.Ptr(name='p', direction=OUT)])
        C['dotbw'] = lambda h: ql.Path(steps=[h, ql.Ptr(name='p', direction=IN)])
        C['at'] = lambda h: ql.Path(steps=[h, ql.Ptr(name='p', direction=OUT, type='property')])
        C['tyint'] = lambda h: ql.Path(steps=[h, ql.TypeIntersection(type=T())])
        C['dotnum'] = lambda h: ql.Path(steps=[h, ql.Ptr(name='0', direction=OUT)])
        C['shape'] = lambda h: ql.Shape(expr=h, elements=[ql.ShapeElement(
            expr=ql.Path(steps=[ql.Ptr(name='a', direction=OUT)]))])
        C['shape-comp'] = lambda h: ql.Shape(expr=x(), elements=[ql.ShapeElement(
            expr=ql.Path(steps=[ql.Ptr(name='a', direction=OUT)]), compexpr=h)])
        C['shape-filter'] = lambda h: ql.Shape(expr=x(), elements=[ql.ShapeElement(
            expr=ql.Path(steps=[ql.Ptr(name='a', direction=OUT)]), where=h, elements=[])])
        C['free-shape'] = lambda h: ql.Shape(expr=None, elements=[ql.ShapeElement(
            expr=ql.Path(steps=[ql.Ptr(name='a', direction=OUT)]), compexpr=h)])
        C['call'] = lambda h: ql.FunctionCall(func='f', args=[h])
        C['call2'] = lambda h: ql.FunctionCall(func=('m', 'f'), args=[x(), h])
        C['kwarg'] = lambda h: ql.FunctionCall(func='f', args=[], kwargs={'k': h})
        C['tuple1'] = lambda h: ql.Tuple(elements=[h])
        C['tuple2'] = lambda h: ql.Tuple(elements=[h, y()])
        C['array'] = lambda h: ql.Array(elements=[h])
        C['set1'] = lambda h: ql.Set(elements=[h])
        C['set2'] = lambda h: ql.Set(elements=[x(), h])
        C['ntuple'] = lambda h: ql.NamedTuple(elements=[ql.TupleElement(name=ql.Ptr(name='a'), val=h)])
        C['sel'] = lambda h: ql.SelectQuery(result=h)
        C['sel-filter'] = lambda h: ql.SelectQuery(result=x(), where=h)
        C['sel-order'] = lambda h: ql.SelectQuery(result=x(), orderby=[ql.SortExpr(path=h, direction=ql.SortAsc)])
        C['sel-order2'] = lambda h: ql.SelectQuery(result=x(), orderby=[ql.SortExpr(path=h), ql.SortExpr(path=y())])
        C['sel-limit'] = lambda h: ql.SelectQuery(result=ql.SelectQuery(result=x(), implicit=True), limit=h)
        C['sel-offset'] = lambda h: ql.SelectQuery(result=ql.SelectQuery(result=x(), implicit=True), offset=h)
        C['sel-alias'] = lambda h: ql.SelectQuery(result=h, result_alias='r')
        C['with'] = lambda h: ql.SelectQuery(result=x(), aliases=[ql.AliasedExpr(alias='w', expr=h)])
        C['for-iter'] = lambda h: ql.ForQuery(iterator_alias='i', iterator=h, result=x())
        C['for-body'] = lambda h: ql.ForQuery(iterator_alias='i', iterator=x(), result=h)
        C['for-opt'] = lambda h: ql.ForQuery(iterator_alias='i', iterator=h, result=x(), optional=True)
        C['update-subj'] = lambda h: ql.UpdateQuery(subject=h, shape=[ql.ShapeElement(
            expr=ql.Path(steps=[ql.Ptr(name='a', direction=OUT)]), compexpr=y())])
        C['update-filter'] = lambda h: ql.UpdateQuery(subject=x(), where=h, shape=[ql.ShapeElement(
            expr=ql.Path(steps=[ql.Ptr(name='a', direction=OUT)]), compexpr=y())])
        C['delete-subj'] = lambda h: ql.DeleteQuery(subject=h)
        C['insert-comp'] = lambda h: ql.InsertQuery(subject=ql.ObjectRef(name='Foo'), shape=[ql.ShapeElement(
            expr=ql.Path(steps=[ql.Ptr(name='a', direction=OUT)]), compexpr=h)])
        C['insert-on'] = lambda h: ql.InsertQuery(subject=ql.ObjectRef(name='Foo'), shape=[],
                                                  unless_conflict=(h, None))
        C['insert-else'] = lambda h: ql.InsertQuery(subject=ql.ObjectRef(name='Foo'), shape=[],
                                                    unless_conflict=(x(), h))
        C['group-subj'] = lambda h: ql.GroupQuery(subject=h, using=None, by=[ql.GroupingSimple(
            element=ql.Path(steps=[ql.Ptr(name='a', direction=OUT)], partial=True))])
        C['group-using'] = lambda h: ql.GroupQuery(subject=x(), using=[ql.AliasedExpr(alias='u', expr=h)],
                                                   by=[ql.GroupingSimple(element=ql.ObjectRef(name='u'))])
        C['interp'] = lambda h: ql.StrInterp(prefix='a', interpolations=[ql.StrInterpFragment(expr=h, suffix='b')])
        return C

    def fillers(self):
        """closed expression forms used as the innermost operand"""
        ql = self.qlast
        F = {
            'name': lambda: ql.Path(steps=[ql.ObjectRef(name='z')]),
            'int': lambda: ql.Constant(kind=ql.ConstantKind.INTEGER, value='1'),
            'negint': lambda: ql.Constant(kind=ql.ConstantKind.INTEGER, value='-1'),
            'negfloat': lambda: ql.Constant(kind=ql.ConstantKind.FLOAT, value='-1.5'),
            'negbig': lambda: ql.Constant(kind=ql.ConstantKind.BIGINT, value='-1n'),
            'str': lambda: ql.Constant.string('s'),
            'param': lambda: ql.Parameter(name='p'),
            'partial': lambda: ql.Path(steps=[ql.Ptr(name='q', direction=self.q['OUT'])], partial=True),
            'emptyset': lambda: ql.Set(elements=[]),
            'global': lambda: ql.GlobalExpr(name=ql.ObjectRef(name='g')),
            'introspect': lambda: ql.Introspect(type=ql.TypeName(maintype=ql.ObjectRef(name='T'))),
            'insert': lambda: ql.InsertQuery(subject=ql.ObjectRef(name='Foo'), shape=[]),
            'bytes': lambda: ql.BytesConstant(value=b'a'),
            'bool': lambda: ql.Constant.boolean(True),
        }
        return F

    # ------------------------------------------------------------ random expressions
    def expr(self, depth, odd=0.0, hostile=0.3):
        r = self.rng
        if depth <= 0 or r.random() < 0.15:
            return self.atom(odd, hostile)
        C = self._ctxs
        name = r.choice(self._ctx_names)
        e = C[name](self.expr(depth - 1, odd, hostile))
        # randomise the fixed operands of the context a little
        return self._mutate(e, depth - 1, odd, hostile)

    def _mutate(self, e, depth, odd, hostile):
        """replace the x / y / T placeholders of a context by random material"""
        r = self.rng
        ql = self.qlast
        if isinstance(e, ql.BinOp):
            if r.random() < 0.5:
                if _is_xy(e.left, ql):
                    e.left = self.expr(depth - 1, odd, hostile)
                if _is_xy(e.right, ql):
                    e.right = self.expr(depth - 1, odd, hostile)
        elif isinstance(e, ql.IfElse):
            for f in ('if_expr', 'condition', 'else_expr'):
                if _is_xy(getattr(e, f), ql) and r.random() < 0.4:
                    setattr(e, f, self.expr(depth - 1, odd, hostile))
        elif isinstance(e, (ql.IsOp,)) and r.random() < 0.5:
            if not isinstance(e.right, ql.TypeOf):
                e.right = self.typeexpr(1, odd)
        elif isinstance(e, ql.TypeCast) and r.random() < 0.5:
            e.type = self.typename(1, odd)
        elif isinstance(e, ql.FunctionCall):
            if r.random() < 0.5:
                e.func = self.name(odd) if r.random() < 0.6 else (r.choice(['std', 'my mod', 'a::b']), self.name(odd))
            if r.random() < 0.3:
                e.kwargs = dict(e.kwargs)
                e.kwargs[self.name(max(odd, 0.3))] = self.atom(odd, hostile)
        elif isinstance(e, ql.NamedTuple) and r.random() < 0.5:
            e.elements[0].name = ql.Ptr(name=self.name(max(odd, 0.3)))
        elif isinstance(e, (ql.Tuple, ql.Array, ql.Set)) and r.random() < 0.4:
            e.elements.append(self.expr(depth - 1, odd, hostile))
        elif isinstance(e, ql.Path) and r.random() < 0.5:
            for _ in range(r.randint(0, 2)):
                e.steps.append(self._step(odd))
        elif isinstance(e, ql.Indirection) and r.random() < 0.4:
            e.indirection.append(r.choice([ql.Index(index=self.atom(odd, hostile)),
                                           ql.Slice(start=self.atom(odd, hostile), stop=None),
                                           ql.Slice(start=None, stop=self.atom(odd, hostile))]))
        return e

    def prepare(self):
        self._ctxs = self.contexts()
        self._ctx_names = sorted(self._ctxs)
        self._fillers = self.fillers()
        return self


def slot_fillers(ql, OUT):
    """every statement kind and every prefix / open form, to be placed directly in each Expr-capable field"""
    z = lambda: ql.Path(steps=[ql.ObjectRef(name='z')])
    se = lambda: ql.ShapeElement(expr=ql.Path(steps=[ql.Ptr(name='a', direction=OUT)]), compexpr=z())
    T = lambda: ql.TypeName(maintype=ql.ObjectRef(name='T'))
    return {
        'select': lambda: ql.SelectQuery(result=z()),
        'select-filter': lambda: ql.SelectQuery(result=z(), where=ql.BinOp(left=z(), op='=', right=ql.Constant.integer(1))),
        'with-select': lambda: ql.SelectQuery(result=z(), aliases=[ql.AliasedExpr(alias='w', expr=ql.Constant.integer(1))]),
        'insert': lambda: ql.InsertQuery(subject=ql.ObjectRef(name='Foo'), shape=[se()]),
        'update': lambda: ql.UpdateQuery(subject=z(), shape=[se()]),
        'delete': lambda: ql.DeleteQuery(subject=z()),
        'for': lambda: ql.ForQuery(iterator_alias='i', iterator=z(), result=z()),
        'group': lambda: ql.GroupQuery(subject=z(), using=None, by=[ql.GroupingSimple(
            element=ql.Path(steps=[ql.Ptr(name='a', direction=OUT)], partial=True))]),
        'neg': lambda: ql.UnaryOp(op='-', operand=z()),
        'plus': lambda: ql.UnaryOp(op='+', operand=z()),
        'not': lambda: ql.UnaryOp(op='NOT', operand=z()),
        'exists': lambda: ql.UnaryOp(op='EXISTS', operand=z()),
        'distinct': lambda: ql.UnaryOp(op='DISTINCT', operand=z()),
        'negconst': lambda: ql.Constant(kind=ql.ConstantKind.INTEGER, value='-1'),
        'cast': lambda: ql.TypeCast(type=T(), expr=z()),
        'cast-opt': lambda: ql.TypeCast(type=T(), expr=z(), cardinality_mod=ql.CardinalityModifier.Optional),
        'detached': lambda: ql.DetachedExpr(expr=z()),
        'global': lambda: ql.GlobalExpr(name=ql.ObjectRef(name='g')),
        'ifelse-py': lambda: ql.IfElse(if_expr=z(), condition=z(), else_expr=z(), python_style=True),
        'ifelse': lambda: ql.IfElse(if_expr=z(), condition=z(), else_expr=z()),
        'binop': lambda: ql.BinOp(left=z(), op='+', right=z()),
        'union': lambda: ql.BinOp(left=z(), op='UNION', right=z()),
        'isop': lambda: ql.IsOp(left=z(), op='IS', right=T()),
        'shape': lambda: ql.Shape(expr=z(), elements=[se()]),
        'free-shape': lambda: ql.Shape(expr=None, elements=[se()]),
        'index': lambda: ql.Indirection(arg=z(), indirection=[ql.Index(index=ql.Constant.integer(0))]),
        'path': lambda: ql.Path(steps=[ql.ObjectRef(name='z'), ql.Ptr(name='p', direction=OUT)]),
        'partial': lambda: ql.Path(steps=[ql.Ptr(name='p', direction=OUT)], partial=True),
        'set': lambda: ql.Set(elements=[z(), z()]),
        'tuple': lambda: ql.Tuple(elements=[z(), z()]),
        'ntuple': lambda: ql.NamedTuple(elements=[ql.TupleElement(name=ql.Ptr(name='a'), val=z())]),
        'call-kw': lambda: ql.FunctionCall(func='f', args=[z()], kwargs={'k': ql.SelectQuery(result=z())}),
        'introspect': lambda: ql.Introspect(type=T()),
        'interp': lambda: ql.StrInterp(prefix='a', interpolations=[ql.StrInterpFragment(expr=z(), suffix='b')]),
        'param': lambda: ql.Parameter(name='p'),
        'str': lambda: ql.Constant.string('s'),
    }


def _is_xy(e, ql):
    return (isinstance(e, ql.Path) and len(e.steps) == 1 and isinstance(e.steps[0], ql.ObjectRef)
            and e.steps[0].name in ('x', 'y') and e.steps[0].module is None)


def wrap_stmt(e, ql):
    """an expression as a statement tree for the block entry point"""
    if isinstance(e, ql.Query):
        return e
    return ql.SelectQuery(result=e)
