"""C20 — dependency ordering (edb/common/topological.py).

Proof: lean/EdbVerif/Props/C20.lean over Model/Topo.lean.
Tie: the real ``sort_ex`` and the model's ``sortEx`` are run on the same graphs
(exhaustive small scope + random), outputs compared; independently the
property's own conclusions are evaluated on the real output (oracle).
"""
from __future__ import annotations

import itertools

from lib import core

PROPS = 'EdbVerif/Props/C20.lean'
REQUIRED = [
    'EdbVerif.C20.topo_perm', 'EdbVerif.C20.topo_hard', 'EdbVerif.C20.topo_cycle',
    'EdbVerif.C20.topo_soft', 'EdbVerif.C20.topo_unres',
]


# ---------------------------------------------------------------- graph cases
# A case: (allow_unresolved, [(key, weak, merge|None, deps, ctrl)], use_sets)
# edge collections are lists in the iteration order the real code will see.

def to_line(case) -> str:
    allow, ents = case[0], case[1]
    def nl(l):
        return ','.join(map(str, l)) if l else '-'
    return ('1' if allow else '0') + ''.join(
        f';{k} {nl(w)} {nl(m or [])} {nl(d)} {nl(c)}' for (k, w, m, d, c) in ents)


def build_real(case, topological, OrderedSet, mode):
    """mode 0: OrderedSet (keeps order + dedups), 1: list (keeps dups; the
    real loop's own OrderedSet dedups), 2: real `set` (iteration order read
    back and handed to the model)."""
    ents = case[1]
    g = {}
    seen_order = []
    for (k, w, m, d, c) in ents:
        def mk(l):
            if l is None:
                return None
            if mode == 0:
                return OrderedSet(l)
            if mode == 1:
                return list(l)
            return set(l)
        e = topological.DepGraphEntry(item=('item', k), deps=mk(d), merge=mk(m),
                                      loop_control=mk(c), weak_deps=mk(w))
        g[k] = e
        seen_order.append((k, list(e.weak_deps), None if e.merge is None else list(e.merge),
                           list(e.deps), list(e.loop_control)))
    return g, (case[0], seen_order)


def run_real(g, allow, topological):
    try:
        res = list(topological.sort_ex(g, allow_unresolved=allow))
        return 'ok ' + (','.join(str(k) for k, _ in res) or '-'), [k for k, _ in res]
    except topological.CycleError as e:
        p = ','.join(map(str, e.path)) or '-'
        return f'cycle {e.item} {p}', None
    except topological.UnresolvedReferenceError as e:
        # message: 'reference to an undefined item {} in {}'
        import re
        m = re.match(r'reference to an undefined item (\S+) in (\S+)', str(e))
        return f'unres {m.group(1)} {m.group(2)}', None


# ------------------------------------------------------------------- oracle
def has_cycle(nodes, edges):
    """independent cycle test (Kahn) on edge list [(a,b)] over nodes."""
    succ = {n: set() for n in nodes}
    indeg = {n: 0 for n in nodes}
    for a, b in set(edges):
        if a == b:
            return True
        if b not in succ[a]:
            succ[a].add(b)
            indeg[b] += 1
    q = [n for n in nodes if indeg[n] == 0]
    seen = 0
    while q:
        n = q.pop()
        seen += 1
        for m in succ[n]:
            indeg[m] -= 1
            if indeg[m] == 0:
                q.append(m)
    return seen != len(nodes)


def oracle(seen_case, out: str, order):
    """The property's conclusions, evaluated on the real output.
    Returns a list of (what) strings; empty = holds."""
    allow, ents = seen_case
    keys = [e[0] for e in ents]
    ks = set(keys)
    hard, ctrl, weak, missing = [], [], [], False
    for (k, w, m, d, c) in ents:
        for x in (m or []) + d:
            (hard.append((k, x)) if x in ks else None)
            missing |= x not in ks
        for x in c:
            (ctrl.append((k, x)) if x in ks else None)
            missing |= x not in ks
        for x in w:
            (weak.append((k, x)) if x in ks else None)
            missing |= x not in ks
    bad = []
    kind = out.split(' ')[0]
    if missing and not allow:
        if kind != 'unres':
            bad.append('missing reference not reported')
        return bad
    if kind == 'unres':
        bad.append('unresolved reported although every reference resolves / allowed')
        return bad
    cyc = has_cycle(keys, hard + ctrl)
    if cyc and kind != 'cycle':
        bad.append('hard dependencies are cyclic but no cycle was reported')
    if not cyc and kind == 'cycle':
        bad.append('cycle reported but hard dependencies are acyclic (soft edge caused a failure)')
    if kind == 'ok':
        if sorted(order) != sorted(keys) or len(set(order)) != len(order):
            bad.append('result is not a permutation of the items')
        else:
            pos = {k: i for i, k in enumerate(order)}
            for a, b in hard:
                if not pos[b] < pos[a]:
                    bad.append(f'hard dependency {a}->{b} violated')
                    break
            if not has_cycle(keys, hard + ctrl + weak):
                for a, b in weak:
                    if not pos[b] < pos[a]:
                        bad.append(f'soft dependency {a}->{b} not honoured although hard+soft is acyclic')
                        break
    return bad


# --------------------------------------------------------------- generators
def gen_exhaustive2():
    """all graphs over keys {0,1}, every subset of {0,1} for each of the four
    edge kinds of each node, both key orders: 2 * 2^16 cases."""
    subsets = [[], [0], [1], [0, 1]]
    per_node = list(itertools.product(subsets, repeat=4))
    for order in ((0, 1), (1, 0)):
        for a in per_node:
            for b in per_node:
                es = {0: a, 1: b}
                yield (True, [(k, es[k][0], es[k][1], es[k][2], es[k][3]) for k in order])


def gen_small(rng, n_cases, nmax=4):
    for _ in range(n_cases):
        n = rng.randint(1, nmax)
        keys = rng.sample(range(0, 7), n)
        pool = keys + ([rng.choice([7, 8])] if rng.random() < 0.15 else [])
        ents = []
        for k in keys:
            def es(p):
                return [x for x in pool if rng.random() < p] if rng.random() < 0.8 else \
                    [rng.choice(pool) for _ in range(rng.randint(0, 3))]
            dens = rng.choice([0.1, 0.25, 0.5])
            m = es(dens) if rng.random() < 0.5 else None
            ents.append((k, es(dens), m, es(dens), es(dens / 2)))
        yield (rng.random() < 0.7, ents)


def gen_large(rng, n_cases):
    for _ in range(n_cases):
        n = rng.randint(5, 40)
        keys = rng.sample(range(0, 200), n)
        rank = {k: i for i, k in enumerate(rng.sample(keys, n))}
        ents = []
        back = rng.choice([0.0, 0.0, 0.02, 0.1])       # planted hard back edges
        wback = rng.choice([0.0, 0.05, 0.3])           # weak back edges
        for k in keys:
            w, m, d, c = [], [], [], []
            for _ in range(rng.randint(0, 4)):
                t = rng.choice(keys)
                kind = rng.random()
                fwd = rank[t] < rank[k]
                if kind < 0.3:
                    if fwd or rng.random() < wback:
                        w.append(t)
                elif kind < 0.75:
                    if fwd or rng.random() < back:
                        (d if rng.random() < 0.7 else m).append(t)
                else:
                    if fwd or rng.random() < back:
                        c.append(t)
            if rng.random() < 0.03:
                d.append(999)
            rng.shuffle(w)
            ents.append((k, w, m if (m or rng.random() < 0.5) else None, d, c))
        yield (rng.random() < 0.8, ents)


# ---------------------------------------------------------------------- run
def run(ctx: core.Ctx):
    from edb.common import topological
    from edb.common.ordered import OrderedSet

    proved = ctx.proof_stage(PROPS, ['EdbVerif.Props.C20', 'Driver.C20'], required=REQUIRED)
    ctx.log('proof stage:', 'ok' if proved else ctx.proof['broken'])

    cases = []
    if ctx.replay:
        import json
        rp = json.load(open(ctx.replay))
        for f in rp['failures']:
            if isinstance(f.get('detail'), dict) and 'case' in f['detail']:
                c = f['detail']['case']
                cases.append(((c[0], [tuple(e) for e in c[1]]), 1, 'replay'))
    else:
        rng = ctx.rng
        n_ex = 0
        for i, c in enumerate(gen_exhaustive2()):
            if ctx.quick() and i % 4 != ctx.seed % 4:
                continue     # quick: a quarter of the exhaustive space (rotates with the seed)
            cases.append((c, 0, 'exh2'))
            n_ex += 1
        for c in gen_small(rng, ctx.budget(20000, 400000)):
            cases.append((c, rng.choice([0, 1, 2]), 'small'))
        for c in gen_large(rng, ctx.budget(2000, 40000)):
            cases.append((c, rng.choice([0, 1, 2]), 'large'))

    lines, reals, seen_cases = [], [], []
    hist = {'ok': 0, 'cycle': 0, 'unres': 0}
    streams = {}
    distinct = set()
    for case, mode, stream in cases:
        g, seen = build_real(case, topological, OrderedSet, mode)
        out, order = run_real(g, case[0], topological)
        out2, _ = run_real(g, case[0], topological)
        lines.append(to_line(seen))
        reals.append((out, order, out2))
        seen_cases.append(seen)
        hist[out.split(' ')[0]] += 1
        streams[stream] = streams.get(stream, 0) + 1
    ctx.log(f'{len(cases)} cases through real sort_ex; outcomes {hist}')

    model = ctx.driver('C20', lines) if proved or True else []
    if len(model) != len(lines):
        raise core.Infra(f'driver returned {len(model)} lines for {len(lines)}')

    n_dis = 0
    nontrivial = 0
    for line, (out, order, out2), seen, mout in zip(lines, reals, seen_cases, model):
        n_edges = sum(len(e[1]) + len(e[2] or []) + len(e[3]) + len(e[4]) for e in seen[1])
        if n_edges >= 1 and line not in distinct:
            distinct.add(line)
            nontrivial += 1
        bad = oracle(seen, out, order)
        if out != out2:
            bad.append('two runs on the same input differ')
        for b in bad:
            ctx.fail(f'oracle:{line}', b, {'case': seen, 'real': out})
        if out != mout:
            n_dis += 1
            if not bad:
                # correspondence broken, property still holds on this input
                ctx.fail(f'corr:{line}', 'model and implementation disagree (property holds on this input)',
                         {'case': seen, 'real': out, 'model': mout,
                          'stream': 'sort_ex vs EdbVerif.Topo.sortEx'}, no_input=True)
    if not proved:
        ctx.proof_broken_verdict()

    ctx.cov.update({
        'evaluations': len(cases),
        'distinct_nontrivial': nontrivial,
        'rule': 'graphs over 4 edge kinds: exhaustive 2-node graphs (all 2^16 edge sets x 2 key orders; '
                'quick tier takes the quarter selected by seed), random 1-4 node graphs with dangling refs, '
                'random 5-40 node graphs with planted hard/weak back edges; containers are OrderedSet/list/set. '
                'non-trivial = at least one edge; distinct = distinct protocol line',
        'samples': [lines[i] + ' => ' + reals[i][0] for i in
                    sorted(set([0, len(lines) // 3, len(lines) // 2, len(lines) - 1]))],
        'outcome_histogram': hist, 'streams': streams,
        'disagreements_model_vs_impl': n_dis,
        'exhaustive': False,
        'correspondence': 'real edb.common.topological.sort_ex vs Lean EdbVerif.Topo.sortEx, output compared '
                          'exactly (order / CycleError.item+path / unresolved dep+item)',
    })
    ctx.assumptions += [
        'graph iteration order (dict order, set iteration order) is part of the input: determinism is '
        'relative to it',
        'the property\'s "hard dependencies" are read as deps ∪ merge, and cycles are taken over '
        'deps ∪ merge ∪ loop_control restricted to present keys',
    ]
    ctx.trusted_base += [
        'hand-written model EdbVerif/Model/Topo.lean of sort_ex; tied by the differential run above',
        'harness/props/c20.py generators, oracle and canonicalisation',
    ]
