"""C20 — dependency ordering (edb/common/topological.py).

Proof: lean/EdbVerif/Props/C20.lean over Model/Topo.lean.
Tie: the real ``sort_ex`` and the model's ``sortEx`` are run on the same graphs
(exhaustive small scope + random), outputs compared; independently the
property's own conclusions are evaluated on the real output (oracle).

Determinism ("the result is a function of the input, the input including the
caller's iteration order"): besides the in-process runs, a batch of graphs is
built the way the real callers build them (OrderedSets through the
``DepGraphEntry`` constructor, filled-in-afterwards OrderedSets, attribute
assignment, lists; str / tuple-of-str keys) in >= 3 CHILD INTERPRETERS that
differ only in PYTHONHASHSEED (props/c20_child.py).  Their outcomes must be
byte-identical to each other and to the Lean model run on the edges in the
GIVEN order – the model is what pins the expected order.
"""
from __future__ import annotations

import hashlib
import itertools
import json
import os
import subprocess
import sys
import tempfile

from lib import core

PROPS = 'EdbVerif/Props/C20.lean'
REQUIRED = [
    'EdbVerif.C20.topo_perm', 'EdbVerif.C20.topo_hard', 'EdbVerif.C20.topo_cycle',
    'EdbVerif.C20.topo_soft', 'EdbVerif.C20.topo_unres',
    'EdbVerif.C20.topo_cycle_item',
    'EdbVerif.C20.oset_nodup', 'EdbVerif.C20.oset_refines', 'EdbVerif.C20.oset_mem', 'EdbVerif.C20.oset_order', 'EdbVerif.C20.oset_ofList',
]


# ---------------------------------------------------------------- graph cases
# A case: (allow_unresolved, [(key, weak, merge|None, deps, ctrl)], use_sets)
# edge collections are lists in the iteration order the real code will see.

def to_line(case) -> str:
    allow, ents = case[0], case[1]
    def nl(l):
        return ','.join(map(str, l)) if l else '-'
    return ('1' if allow else '0') + ''.join(
        f';{k} {nl(w)} {nl(m or [])} {nl(d)} {nl(c)}' for (k, w, m, d, c) in ents)


def build_real(case, topological, OrderedSet, mode):
    """mode 0: OrderedSet (keeps order + dedups), 1: list (keeps dups; the
    real loop's own OrderedSet dedups): ORDERED inputs – the model is handed the
    order the caller GAVE to the constructor, never what the entry stores.
    2: real `set`: the caller never had an order; the iteration order is read
    back from the entry and handed to the model."""
    ents = case[1]
    g = {}
    seen_order = []
    for (k, w, m, d, c) in ents:
        def mk(l):
            if l is None:
                return None
            if mode == 0:
                return OrderedSet(l)
            if mode == 1:
                return list(l)
            return set(l)
        e = topological.DepGraphEntry(item=('item', k), deps=mk(d), merge=mk(m),
                                      loop_control=mk(c), weak_deps=mk(w))
        g[k] = e
        if mode == 2:
            seen_order.append((k, list(e.weak_deps), None if e.merge is None else list(e.merge),
                               list(e.deps), list(e.loop_control)))
        else:
            seen_order.append((k, list(w), None if m is None else list(m), list(d), list(c)))
    return g, (case[0], seen_order)


def run_real(g, allow, topological):
    try:
        res = list(topological.sort_ex(g, allow_unresolved=allow))
        return 'ok ' + (','.join(str(k) for k, _ in res) or '-'), [k for k, _ in res]
    except topological.CycleError as e:
        p = ','.join(map(str, e.path)) or '-'
        return f'cycle {e.item} {p}', None
    except topological.UnresolvedReferenceError as e:
        # message: 'reference to an undefined item {} in {}'
        import re
        m = re.match(r'reference to an undefined item (\S+) in (\S+)', str(e))
        return f'unres {m.group(1)} {m.group(2)}', None


# ------------------------------------------------------------------- oracle
def has_cycle(nodes, edges):
    """independent cycle test (Kahn) on edge list [(a,b)] over nodes."""
    succ = {n: set() for n in nodes}
    indeg = {n: 0 for n in nodes}
    for a, b in set(edges):
        if a == b:
            return True
        if b not in succ[a]:
            succ[a].add(b)
            indeg[b] += 1
    q = [n for n in nodes if indeg[n] == 0]
    seen = 0
    while q:
        n = q.pop()
        seen += 1
        for m in succ[n]:
            indeg[m] -= 1
            if indeg[m] == 0:
                q.append(m)
    return seen != len(nodes)


def oracle(seen_case, out: str, order):
    """The property's conclusions, evaluated on the real output.
    Returns a list of (what) strings; empty = holds."""
    allow, ents = seen_case
    keys = [e[0] for e in ents]
    ks = set(keys)
    hard, ctrl, weak, missing = [], [], [], False
    for (k, w, m, d, c) in ents:
        for x in (m or []) + d:
            (hard.append((k, x)) if x in ks else None)
            missing |= x not in ks
        for x in c:
            (ctrl.append((k, x)) if x in ks else None)
            missing |= x not in ks
        for x in w:
            (weak.append((k, x)) if x in ks else None)
            missing |= x not in ks
    bad = []
    kind = out.split(' ')[0]
    if kind == 'exc':
        return ['sort_ex raised an unexpected exception: ' + out[4:]]
    if missing and not allow:
        if kind != 'unres':
            bad.append('missing reference not reported')
        return bad
    if kind == 'unres':
        bad.append('unresolved reported although every reference resolves / allowed')
        return bad
    cyc = has_cycle(keys, hard + ctrl)
    if cyc and kind != 'cycle':
        bad.append('hard dependencies are cyclic but no cycle was reported')
    if not cyc and kind == 'cycle':
        bad.append('cycle reported but hard dependencies are acyclic (soft edge caused a failure)')
    if cyc and kind == 'cycle':
        # topo_cycle_item: the item named by the CycleError lies on a hard ∪ control cycle
        try:
            it = int(out.split(' ')[1])
        except (IndexError, ValueError):
            it = None
        if it is not None:
            succ = {}
            for a, b in hard + ctrl:
                succ.setdefault(a, []).append(b)
            seen_n, todo = set(), list(succ.get(it, []))
            while todo:
                n = todo.pop()
                if n not in seen_n:
                    seen_n.add(n)
                    todo.extend(succ.get(n, []))
            if it not in seen_n:
                bad.append(f'the reported CycleError names item {it}, which is not on any hard/control cycle')
    if kind == 'ok':
        if sorted(order) != sorted(keys) or len(set(order)) != len(order):
            bad.append('result is not a permutation of the items')
        else:
            pos = {k: i for i, k in enumerate(order)}
            for a, b in hard:
                if not pos[b] < pos[a]:
                    bad.append(f'hard dependency {a}->{b} violated')
                    break
            if not has_cycle(keys, hard + ctrl + weak):
                for a, b in weak:
                    if not pos[b] < pos[a]:
                        bad.append(f'soft dependency {a}->{b} not honoured although hard+soft is acyclic')
                        break
    return bad


# --------------------------------------------------------------- generators
def gen_exhaustive2():
    """all graphs over keys {0,1}, every subset of {0,1} for each of the four
    edge kinds of each node, both key orders: 2 * 2^16 cases."""
    subsets = [[], [0], [1], [0, 1]]
    per_node = list(itertools.product(subsets, repeat=4))
    for order in ((0, 1), (1, 0)):
        for a in per_node:
            for b in per_node:
                es = {0: a, 1: b}
                yield (True, [(k, es[k][0], es[k][1], es[k][2], es[k][3]) for k in order])


def gen_small(rng, n_cases, nmax=4):
    for _ in range(n_cases):
        n = rng.randint(1, nmax)
        keys = rng.sample(range(0, 7), n)
        pool = keys + ([rng.choice([7, 8])] if rng.random() < 0.15 else [])
        ents = []
        for k in keys:
            def es(p):
                return [x for x in pool if rng.random() < p] if rng.random() < 0.8 else \
                    [rng.choice(pool) for _ in range(rng.randint(0, 3))]
            dens = rng.choice([0.1, 0.25, 0.5])
            m = es(dens) if rng.random() < 0.5 else None
            ents.append((k, es(dens), m, es(dens), es(dens / 2)))
        yield (rng.random() < 0.7, ents)


def gen_large(rng, n_cases):
    for _ in range(n_cases):
        n = rng.randint(5, 40)
        keys = rng.sample(range(0, 200), n)
        rank = {k: i for i, k in enumerate(rng.sample(keys, n))}
        ents = []
        back = rng.choice([0.0, 0.0, 0.02, 0.1])       # planted hard back edges
        wback = rng.choice([0.0, 0.05, 0.3])           # weak back edges
        for k in keys:
            w, m, d, c = [], [], [], []
            for _ in range(rng.randint(0, 4)):
                t = rng.choice(keys)
                kind = rng.random()
                fwd = rank[t] < rank[k]
                if kind < 0.3:
                    if fwd or rng.random() < wback:
                        w.append(t)
                elif kind < 0.75:
                    if fwd or rng.random() < back:
                        (d if rng.random() < 0.7 else m).append(t)
                else:
                    if fwd or rng.random() < back:
                        c.append(t)
            if rng.random() < 0.03:
                d.append(999)
            rng.shuffle(w)
            ents.append((k, w, m if (m or rng.random() < 0.5) else None, d, c))
        yield (rng.random() < 0.8, ents)


def gen_callers(rng, n_cases):
    """Graphs shaped like the ones the real callers build, each with at least
    two dependencies of one item whose relative order no other edge forces –
    the place where a container's iteration order decides the answer."""
    for _ in range(n_cases):
        kind = rng.choice(['fan', 'inherit', 'cycles', 'softconf', 'delta'])
        n = rng.randint(3, 9)
        keys = rng.sample(range(0, 200), n + 1)
        root, rest = keys[0], keys[1:]
        ents = {k: [k, [], None, [], []] for k in keys}       # k, w, m, d, c
        allow = True
        if kind == 'fan':
            # one item over several mutually unconstrained deps (hard / merge / soft mix)
            for t in rest:
                r = rng.random()
                if r < 0.6:
                    ents[root][3].append(t)
                elif r < 0.8:
                    ents[root][2] = (ents[root][2] or []) + [t]
                else:
                    ents[root][1].append(t)
            if rng.random() < 0.4:
                base = rest[-1]
                for t in rest[:-1]:
                    if rng.random() < 0.5:
                        ents[t][3].append(base)
        elif kind == 'inherit':
            # sort_by_inheritance / ordered_descendants: bases of each item, one base outside the graph
            for i, k in enumerate(keys):
                later = keys[i + 1:]
                if later:
                    ents[k][3] = rng.sample(later, min(len(later), rng.randint(1, 3)))
                if rng.random() < 0.3:
                    ents[k][3].insert(rng.randint(0, len(ents[k][3])), 999)
            allow = True
        elif kind == 'cycles':
            # independent hard 2-cycles below one root: which one is reported?
            pairs = [(rest[i], rest[i + 1]) for i in range(0, len(rest) - 1, 2)]
            for a, b in pairs:
                ents[root][3].append(a)
                (ents[a][3] if rng.random() < 0.7 else ents[a][4]).append(b)
                ents[b][3].append(a)
        elif kind == 'softconf':
            # conflicting preferences: which soft edge loses?
            for t in rest:
                ents[root][1].append(t)
                if rng.random() < 0.6:
                    ents[t][1].append(root)
                if rng.random() < 0.4:
                    ents[t][1].append(rng.choice(rest))
            if rng.random() < 0.5:
                ents[rest[0]][3].append(rest[-1])
        else:
            # schema/ordering.py: an ALTER depending on many CREATEs, a few preferences between them
            for t in rest:
                ents[root][3].append(t)
            for _ in range(rng.randint(1, 3)):
                a, b = rng.sample(rest, 2)
                ents[a][1].append(b)
        order = list(keys)
        rng.shuffle(order)
        case = (allow, [tuple(ents[k]) for k in order])
        yield case, kind
        # the same logical graph, every collection given in another insertion order:
        # the answer has to FOLLOW the given order exactly as the model says
        def sh(l):
            if l is None:
                return None
            l = list(l)
            rng.shuffle(l)
            return l
        yield (allow, [(k, sh(w), sh(m), sh(d), sh(c)) for (k, w, m, d, c) in case[1]]), kind + '/perm'


# --------------------------------------------- cross-process determinism oracle
CHILD = os.path.join(os.path.dirname(os.path.abspath(__file__)), 'c20_child.py')
MAX_CORR = 40        # disagreements are all counted; this many are written to the replay file
STYLES = ['ctor'] * 8 + ['fill'] * 5 + ['attr'] * 4 + ['list'] * 3
KEYSTYLES = ['str'] * 9 + ['tuple'] * 9 + ['int'] * 2


def xproc_run(xcases, seeds):
    """Run the batch through the real sort_ex in one fresh interpreter per
    PYTHONHASHSEED (all started together).  -> {seed: [outcome, ...]}"""
    payload = json.dumps({'cases': [
        {'allow': c[0], 'ents': [list(e) for e in c[1]], 'style': st, 'keys': ks}
        for (c, st, ks, _stream) in xcases]})
    with tempfile.NamedTemporaryFile('w', suffix='.json', prefix='c20-batch-') as fin:
        fin.write(payload)
        fin.flush()
        procs = []
        for sd in seeds:
            f = open(fin.name, 'r')          # own file description per child (own offset)
            env = dict(os.environ, PYTHONHASHSEED=str(sd))
            procs.append((sd, f, subprocess.Popen(
                [sys.executable, CHILD], stdin=f, stdout=subprocess.PIPE,
                stderr=subprocess.PIPE, text=True, env=env)))
        res = {}
        for sd, f, pr in procs:
            try:
                out, err = pr.communicate(timeout=1800)
            except subprocess.TimeoutExpired as e:
                pr.kill()
                raise core.Infra(f'C20 child interpreter (PYTHONHASHSEED={sd}) timed out') from e
            finally:
                f.close()
            if pr.returncode != 0:
                raise core.Infra(f'C20 child interpreter (PYTHONHASHSEED={sd}) failed: {err[-1500:]}')
            try:
                r = json.loads(out)
            except ValueError as e:
                raise core.Infra(f'C20 child interpreter (PYTHONHASHSEED={sd}): bad output {out[:300]!r}') from e
            if len(r) != len(xcases):
                raise core.Infra(f'C20 child returned {len(r)} outcomes for {len(xcases)} cases')
            res[str(sd)] = r
    return res


def case_size(c):
    return (sum(len(e[1]) + len(e[2] or []) + len(e[3]) + len(e[4]) for e in c[1]), len(c[1]))


def xproc_shrink(xcase, seeds, rounds=12):
    """Greedy shrinking of a hash-seed dependent case: each round tries all
    single deletions (one entry / one edge) in ONE batch of child interpreters."""
    (case, st, ks, stream) = xcase
    for _ in range(rounds):
        allow, ents = case
        cands = []
        for i in range(len(ents)):
            if len(ents) > 1:
                gone = ents[i][0]
                rest = [(k, [x for x in w if x != gone], None if m is None else [x for x in m if x != gone],
                         [x for x in d if x != gone], [x for x in c if x != gone])
                        for j, (k, w, m, d, c) in enumerate(ents) if j != i]
                cands.append((allow, rest))
            k, w, m, d, c = ents[i]
            for fld, l in ((1, w), (2, m or []), (3, d), (4, c)):
                for j in range(len(l)):
                    e = [k, list(w), None if m is None else list(m), list(d), list(c)]
                    e[fld] = l[:j] + l[j + 1:]
                    cands.append((allow, ents[:i] + [tuple(e)] + ents[i + 1:]))
        if not cands:
            break
        res = xproc_run([(c, st, ks, stream) for c in cands], seeds)
        pick = None
        for j, c in enumerate(cands):
            if len({res[str(sd)][j] for sd in seeds}) > 1:
                if pick is None or case_size(c) < case_size(cands[pick]):
                    pick = j
        if pick is None:
            break
        case = cands[pick]
    return (case, st, ks, stream)


def parse_order(out):
    if not out.startswith('ok '):
        return None
    body = out[3:]
    return [] if body == '-' else [int(x) for x in body.split(',')]


# ------------------------------------------------------- OrderedSet histories
# real edb.common.ordered.OrderedSet vs EdbVerif.OrdSet (Model/OrdSet.lean), driver C20os
OS_OPS = 'aaaddduumixc'


def gen_oset_history(rng, nkeys, nops):
    ops = []
    for _ in range(nops):
        k = rng.choice(OS_OPS)
        if k in 'ad':
            ops.append((k, [rng.randrange(nkeys)]))
        elif k == 'c':
            ops.append((k, []))
        else:
            ops.append((k, [rng.randrange(nkeys + 1) for _ in range(rng.randrange(0, 5))]))
    return ops


def oset_line(ops):
    return ';'.join(f"{k} {','.join(map(str, a)) if a else '-'}" for k, a in ops)


def run_real_oset(ops, OrderedSet, wrap):
    """returns (outputs after each op, oracle complaints)"""
    s = OrderedSet()
    outs, bad = [], []
    for k, a in ops:
        before = list(s)
        arg = OrderedSet(a) if wrap else list(a)
        try:
            if k == 'a':
                s.add(a[0])
            elif k == 'd':
                s.discard(a[0])
            elif k == 'u':
                s.update(arg)
            elif k == 'm':
                s.difference_update(arg)
            elif k == 'i':
                s.intersection_update(arg)
            elif k == 'x':
                s.symmetric_difference_update(arg)
            elif k == 'c':
                s.clear()
        except Exception as e:      # noqa: the real container must not raise on these
            outs.append('exc:' + type(e).__name__)
            bad.append(f'{k} {a} raised {type(e).__name__}: {e}')
            break
        after = list(s)
        outs.append(','.join(map(str, after)) if after else '-')
        # the property's own reading for the container: each key once, survivors keep their order,
        # newcomers come after every survivor, a second iteration gives the same order
        if len(after) != len(set(after)):
            bad.append(f'{k} {a}: iteration yields a key twice: {after}')
        surv = [y for y in after if y in before]
        if surv != [y for y in before if y in after]:
            bad.append(f'{k} {a}: surviving keys changed their relative order: {before} -> {after}')
        if surv != after[:len(surv)]:
            bad.append(f'{k} {a}: a new key precedes an old one: {before} -> {after}')
        if list(s) != after or list(reversed(s)) != after[::-1] or len(s) != len(after) \
                or list(s.copy()) != after or any((y in s) != (y in after) for y in range(8)):
            bad.append(f'{k} {a}: iteration / reversed / len / copy / contains disagree on {after}')
    return outs, bad


def ordset_stage(ctx, OrderedSet):
    rng = ctx.rng
    hs = []
    if ctx.replay:
        rp = json.load(open(ctx.replay))
        for f in rp['failures']:
            d = f.get('detail')
            if isinstance(d, dict) and 'oset_ops' in d:
                hs.append(([(k, list(a)) for k, a in d['oset_ops']], bool(d.get('wrap'))))
        if not hs:
            return {}
    else:
        # exhaustive: every history of <= 3 single-key ops / 2-element bulk ops over 2 keys
        small = [('a', [0]), ('a', [1]), ('d', [0]), ('d', [1]), ('u', [1, 0]), ('m', [0]), ('i', [1]),
                 ('x', [0, 1]), ('x', [1, 1]), ('c', [])]
        import itertools
        for n in (1, 2, 3):
            for h in itertools.product(small, repeat=n):
                hs.append(([(k, list(a)) for k, a in h], False))
        for _ in range(ctx.budget(4000, 80000)):
            hs.append((gen_oset_history(rng, rng.choice([2, 3, 5, 8]), rng.randrange(1, 14)),
                       rng.random() < 0.3))
    lines, reals = [], []
    for ops, wrap in hs:
        outs, bad = run_real_oset(ops, OrderedSet, wrap)
        lines.append(oset_line(ops))
        reals.append(('|'.join(outs), bad))
    model = ctx.driver('C20os', lines)
    if len(model) != len(lines):
        raise core.Infra(f'driver C20os returned {len(model)} lines for {len(lines)}')
    n_dis = n_bad = 0
    ophist = {}
    for (ops, wrap), line, (real, bad), m in zip(hs, lines, reals, model):
        for k, _ in ops:
            ophist[k] = ophist.get(k, 0) + 1
        for b in bad[:1]:
            n_bad += 1
            if n_bad <= MAX_CORR:
                ctx.fail(f'oracle:oset:{line}', 'OrderedSet breaks the insertion-order law the ordering relies on: '
                         + b, {'oset_ops': ops, 'wrap': wrap, 'real': real, 'model': m})
        if real != m:
            n_dis += 1
            if not bad and n_dis <= MAX_CORR:
                ctx.fail(f'corr:oset:{line}', 'model and implementation disagree (property holds on this input)',
                         {'oset_ops': ops, 'wrap': wrap, 'real': real, 'model': m,
                          'stream': 'edb.common.ordered.OrderedSet vs EdbVerif.OrdSet.step'}, no_input=True)
    ctx.log(f'{len(hs)} OrderedSet histories: {n_dis} disagreements, {n_bad} oracle failures')
    return {'histories': len(hs), 'distinct': len(set(lines)), 'op_histogram': ophist,
            'disagreements_model_vs_impl': n_dis, 'oracle_failures': n_bad,
            'exhaustive_small_scope': 'all histories of <= 3 ops from a 10-op alphabet over 2 keys',
            'sample': lines[len(lines) // 2] + ' => ' + reals[len(lines) // 2][0] if lines else None}


# ---------------------------------------------------------------------- run
def run(ctx: core.Ctx):
    from edb.common import topological
    from edb.common.ordered import OrderedSet

    proved = ctx.proof_stage(PROPS, ['EdbVerif.Props.C20', 'Driver.C20', 'Driver.C20os'], required=REQUIRED)
    ctx.log('proof stage:', 'ok' if proved else ctx.proof['broken'])

    cases = []          # in-process:    (case, mode, stream)
    xcases = []         # cross-process: (case, style, keystyle, stream)
    rng = ctx.rng
    seeds = ['0', '1', str(rng.randrange(2, 2 ** 32))]
    if ctx.replay:
        rp = json.load(open(ctx.replay))
        for f in rp['failures']:
            d = f.get('detail')
            if not (isinstance(d, dict) and 'case' in d):
                continue
            c = (d['case'][0], [tuple(e) for e in d['case'][1]])
            if d.get('xproc'):
                xcases.append((c, d['style'], d['keys'], 'replay'))
                seeds = [str(x) for x in d['seeds']]
            else:
                cases.append((c, 1, 'replay'))
    else:
        n_ex = 0
        for i, c in enumerate(gen_exhaustive2()):
            if ctx.quick() and i % 4 != ctx.seed % 4:
                continue     # quick: a quarter of the exhaustive space (rotates with the seed)
            cases.append((c, 0, 'exh2'))
            n_ex += 1
        for c in gen_small(rng, ctx.budget(20000, 400000)):
            cases.append((c, rng.choice([0, 1, 2]), 'small'))
        for c in gen_large(rng, ctx.budget(2000, 40000)):
            cases.append((c, rng.choice([0, 1, 2]), 'large'))
        # cross-process batch: ordered inputs only, built the way the real callers do
        for c, kind in gen_callers(rng, ctx.budget(400, 6000)):
            xcases.append((c, rng.choice(STYLES), rng.choice(KEYSTYLES), 'callers:' + kind))
        for c in gen_small(rng, ctx.budget(2000, 40000)):
            xcases.append((c, rng.choice(STYLES), rng.choice(KEYSTYLES), 'small'))
        for c in gen_large(rng, ctx.budget(200, 5000)):
            xcases.append((c, rng.choice(STYLES), rng.choice(KEYSTYLES), 'large'))

    lines, reals, seen_cases = [], [], []
    hist = {'ok': 0, 'cycle': 0, 'unres': 0}
    streams = {}
    distinct = set()
    for case, mode, stream in cases:
        g, seen = build_real(case, topological, OrderedSet, mode)
        out, order = run_real(g, case[0], topological)
        out2, _ = run_real(g, case[0], topological)
        lines.append(to_line(seen))
        reals.append((out, order, out2))
        seen_cases.append(seen)
        hist[out.split(' ')[0]] += 1
        streams[stream] = streams.get(stream, 0) + 1
    ctx.log(f'{len(cases)} cases through real sort_ex; outcomes {hist}')

    # the same batch in >= 3 fresh interpreters differing only in PYTHONHASHSEED
    xres = xproc_run(xcases, seeds) if xcases else {}
    if xcases and not ctx.replay:
        # a hash-seed dependent case?  shrink the smallest one right away so that the
        # shrunk graph goes through the one model run below like every other case
        nd = [i for i in range(len(xcases)) if len({xres[sd][i] for sd in seeds}) > 1]
        if nd:
            i0 = min(nd, key=lambda i: (case_size(xcases[i][0]), i))
            try:
                small = xproc_shrink(xcases[i0], seeds)
                if small[0] != xcases[i0][0]:
                    r1 = xproc_run([small], seeds)
                    xcases.append((small[0], small[1], small[2], 'shrunk'))
                    for sd in seeds:
                        xres[sd].append(r1[sd][0])
            except core.Infra:
                pass
    xlines = [to_line(c) for (c, _st, _ks, _s) in xcases]     # edges in the GIVEN order
    ctx.log(f'{len(xcases)} cases through real sort_ex in {len(seeds)} child interpreters '
            f'(PYTHONHASHSEED {",".join(seeds)})')

    model = ctx.driver('C20', lines + xlines)
    if len(model) != len(lines) + len(xlines):
        raise core.Infra(f'driver returned {len(model)} lines for {len(lines) + len(xlines)}')
    xmodel = model[len(lines):]
    model = model[:len(lines)]

    n_dis = 0
    nontrivial = 0
    for line, (out, order, out2), seen, mout in zip(lines, reals, seen_cases, model):
        n_edges = sum(len(e[1]) + len(e[2] or []) + len(e[3]) + len(e[4]) for e in seen[1])
        if n_edges >= 1 and line not in distinct:
            distinct.add(line)
            nontrivial += 1
        bad = oracle(seen, out, order)
        if out != out2:
            bad.append('two runs on the same input differ')
        for b in bad:
            ctx.fail(f'oracle:{line}', b, {'case': seen, 'real': out})
        if out != mout:
            n_dis += 1
            if not bad and n_dis <= MAX_CORR:
                # correspondence broken, property still holds on this input
                ctx.fail(f'corr:{line}', 'model and implementation disagree (property holds on this input)',
                         {'case': seen, 'real': out, 'model': mout,
                          'stream': 'sort_ex vs EdbVerif.Topo.sortEx'}, no_input=True)

    # ---- cross-process verdicts
    x_hist = {'ok': 0, 'cycle': 0, 'unres': 0, 'exc': 0}
    x_streams, x_styles, x_keys = {}, {}, {}
    x_nondet, x_dis, x_nontrivial = [], 0, 0
    x_distinct = set()
    for i, ((case, st, ks, stream), line, mout) in enumerate(zip(xcases, xlines, xmodel)):
        outs = {sd: xres[sd][i] for sd in seeds}
        vals = sorted(set(outs.values()))
        x_hist[vals[0].split(' ')[0]] = x_hist.get(vals[0].split(' ')[0], 0) + 1
        x_streams[stream] = x_streams.get(stream, 0) + 1
        x_styles[st] = x_styles.get(st, 0) + 1
        x_keys[ks] = x_keys.get(ks, 0) + 1
        if case_size(case)[0] >= 2 and (line, st, ks) not in x_distinct:
            x_distinct.add((line, st, ks))
            x_nontrivial += 1
        bad = []
        for v in vals:
            for b in oracle(case, v, parse_order(v)):
                if b not in bad:
                    bad.append(b)
        tag = f'{line}|{st}|{ks}'
        for b in bad:
            ctx.fail(f'oracle:{tag}', b, {'xproc': True, 'case': case, 'style': st, 'keys': ks,
                                          'seeds': seeds, 'outcomes': outs, 'model': mout})
        if len(vals) > 1:
            x_nondet.append(i)
        elif vals[0] != mout:
            x_dis += 1
            if not bad and x_dis <= MAX_CORR:
                ctx.fail(f'corr:xproc:{tag}',
                         'every process agrees but the result does not follow the caller\'s given edge order '
                         'as the model says (property holds on this input)',
                         {'xproc': True, 'case': case, 'style': st, 'keys': ks, 'seeds': seeds,
                          'real': vals[0], 'model': mout,
                          'stream': 'sort_ex (child interpreters) vs EdbVerif.Topo.sortEx'}, no_input=True)
    if x_nondet:
        # smallest graphs first
        x_nondet.sort(key=lambda i: (case_size(xcases[i][0]), i))
        for i in x_nondet[:8]:
            (case, st, ks, stream) = xcases[i]
            outs = {sd: xres[sd][i] for sd in seeds}
            line = xlines[i]
            h = hashlib.sha1(f'{line}|{st}|{ks}'.encode()).hexdigest()[:12]
            by_out = {}
            for sd in seeds:
                by_out.setdefault(outs[sd], []).append(sd)
            ctx.fail(f'nondet:order:{h}',
                     'the result depends on the process: the same graph with the same given edge order gives '
                     + '; '.join(f'[{o}] under PYTHONHASHSEED {",".join(v)}' for o, v in by_out.items())
                     + f' (model, edges consumed in the given order: [{xmodel[i]}])',
                     {'xproc': True, 'case': case, 'style': st, 'keys': ks, 'seeds': seeds,
                      'outcomes': outs, 'model': xmodel[i], 'line': line, 'stream': stream,
                      'how': 'props/c20_child.py builds the graph (style/keys as recorded) and runs the real '
                             'sort_ex once per PYTHONHASHSEED in a fresh interpreter'})
    if xcases:
        ctx.log(f'cross-process: {len(x_nondet)} hash-seed dependent, {x_dis} deviating from the given order')
    oset_cov = ordset_stage(ctx, OrderedSet)
    if not proved:
        ctx.proof_broken_verdict()

    ctx.cov.update({
        'ordered_set': oset_cov,
        'evaluations': len(cases) + len(xcases) * len(seeds),
        'distinct_nontrivial': nontrivial + x_nontrivial,
        'rule': 'graphs over 4 edge kinds: exhaustive 2-node graphs (all 2^16 edge sets x 2 key orders; '
                'quick tier takes the quarter selected by seed), random 1-4 node graphs with dangling refs, '
                'random 5-40 node graphs with planted hard/weak back edges; containers are OrderedSet/list/set. '
                'non-trivial = at least one edge; distinct = distinct protocol line. '
                'cross-process batch: caller-shaped graphs (fan-out, inheritance, independent cycles, soft '
                'conflicts, delta-like; each also with every collection re-ordered), small and large random '
                'graphs; non-trivial = at least two edges; distinct = distinct (line, build style, key style)',
        'samples': ([lines[i] + ' => ' + reals[i][0] for i in
                     sorted(set([0, len(lines) // 3, len(lines) // 2, len(lines) - 1]))] if lines else []) +
                   ([f'{xlines[i]} [{xcases[i][1]}/{xcases[i][2]} keys, PYTHONHASHSEED {"/".join(seeds)}] => '
                     f'{xres[seeds[0]][i]}'
                     for i in sorted(set([0, len(xlines) // 2, len(xlines) - 1]))] if xlines else []),
        'outcome_histogram': hist, 'streams': streams,
        'disagreements_model_vs_impl': n_dis + x_dis,
        'cross_process': {
            'hash_seeds': seeds, 'cases': len(xcases), 'distinct_nontrivial': x_nontrivial,
            'streams': x_streams, 'build_styles': x_styles, 'key_styles': x_keys,
            'outcome_histogram': x_hist, 'hash_seed_dependent': len(x_nondet),
            'deviating_from_given_order': x_dis,
            'compared': 'outcome of every child interpreter against every other AND against the Lean model '
                        'run on the edges in the order the caller gave them',
        },
        'exhaustive': False,
        'correspondence': 'real edb.common.topological.sort_ex vs Lean EdbVerif.Topo.sortEx, output compared '
                          'exactly (order / CycleError.item+path / unresolved dep+item)',
    })
    ctx.assumptions += [
        'graph iteration order (dict order, iteration order of the dependency collections the caller hands '
        'over) is part of the input: determinism is relative to it.  For ORDERED collections (OrderedSet, '
        'list) that order is what the caller wrote, and the check requires the result to follow it in every '
        'process; for plain `set` inputs (edgeql/compiler/viewgen.py, the pre-normalisation entries of '
        'edgeql/declarative.py) the caller never had an order, so those are only checked in-process against '
        'the iteration order read back from the entry and are excluded from the cross-process oracle',
        'the property\'s "hard dependencies" are read as deps ∪ merge, and cycles are taken over '
        'deps ∪ merge ∪ loop_control restricted to present keys',
    ]
    ctx.trusted_base += [
        'hand-written model EdbVerif/Model/Topo.lean of sort_ex; tied by the differential run above',
        'hand-written model EdbVerif/Model/OrdSet.lean of edb/common/ordered.py::OrderedSet (add, discard, update, '
        'clear and the MutableSet in-place operators with a list / OrderedSet argument; `replace`, `__eq__`, '
        '`x op= x` with the set itself and arguments that are plain sets are not modelled); tied by the '
        'history differential (driver C20os)',
        'harness/props/c20.py generators, oracle and canonicalisation; harness/props/c20_child.py '
        '(graph construction in the styles of the real callers, key renaming nat <-> str / tuple of str)',
        'PYTHONHASHSEED 0 / 1 / one drawn from VERIF_SEED stand for "different compiler worker processes"',
    ]
