"""C08 — declared capabilities cover what a statement does.

Proof: lean/EdbVerif/Props/C08.lean over Model/Caps.lean + the dispatch table
regenerated on every run from `_compile_dispatch_ql` (harness/gen/caps.py ->
lean/EdbVerif/Gen/Caps.lean).

Tie (all through the REAL code):
 level 1  `QueryUnitGroup.append` and `Capability.make_error` / the `& ~allowed`
          test vs the model (exhaustive on named flags + random 64-bit sets);
 level 2  the real server compiler (`compiler.compile` with a CompileContext)
          on (a) statements generated from MiniQL terms - a DML leaf planted in
          every nesting context, composed to depth 2..3 - outcome
          (MODIFICATIONS / no flag / rejected-why) compared with the model's;
          (b) hand-written contexts outside MiniQL (free objects, GROUP, ??,
          tuples...) - oracle only; (c) one or more representative statements
          for every row of the generated table, capabilities compared with the
          row; (d) scripts, group capabilities compared with the model's.
Oracle (independent of model and compiler): walk the parsed qlast tree; if it
contains an Insert/Update/Delete node or a call of a function whose volatility
in the real schema is Modifying then an accepted statement must carry
MODIFICATIONS; a statement of kind k must carry expectedCap k.
"""
from __future__ import annotations

import dataclasses
import json
import time

from lib import core

PROPS = 'EdbVerif/Props/C08.lean'
REQUIRED = ['EdbVerif.C08.' + n for n in (
    'C08_kinds', 'C08_kinds_complete', 'C08_classes', 'C08_flags', 'C08_dml', 'C08_dml_recorded',
    'C08_sound', 'C08_precise', 'C08_declare', 'C08_chain', 'C08_group', 'C08_script', 'C08_make_error',
    'C08_history', 'C08_history_one_level_counterexample')]

SDL = '''
type User { required name: str; multi logs: Log; multi tags: int64; }
type Log { required msg: str { constraint exclusive }; n: int64; multi tags: int64; }
global g: int64;
function rd() -> int64 using (count(Log));
function mklog() -> Log { volatility := 'Modifying'; using (insert Log { msg := <str>random() }); }
function mkinf() -> Log using (insert Log { msg := <str>random() });
function noop(m: int64) -> int64 { volatility := 'Modifying'; using (m); }
function mk2() -> Log using (mklog());
function rd2() -> int64 using (rd());
'''
# function numbers of the model environment (Driver/C08.lean `theFe`)
FN = {'rd': 0, 'mklog': 1, 'mkinf': 2, 'noop': 3, 'mk2': 4, 'rd2': 5}
MOD = 1


# ===================================================================== terms
@dataclasses.dataclass(frozen=True)
class E:
    sort: str          # 'I' (set of int64) or 'O' (set of Log)
    toks: tuple        # MiniQL term, prefix tokens
    text: str          # EdgeQL text (parenthesised where needed)
    top: str = ''      # statement text when the term is the whole statement ('' = `select text`)


class Fresh:
    def __init__(self):
        self.n = 0

    def var(self):
        self.n += 1
        return self.n


def T(*xs):
    out = []
    for x in xs:
        if isinstance(x, E):
            out.extend(x.toks)
        elif isinstance(x, (tuple, list)):
            out.extend(x)
        else:
            out.append(str(x))
    return tuple(out)


def lst(*es):
    return T(len(es), *es)


LIT1 = E('I', ('L', '1'), '1')
LOGS = E('O', ('O', '1'), '(select Log)')


def count(o):
    return E('I', T('P', 1, o), f'count({o.text})')


def leaf(kind: str) -> E:
    """DML leaves and pure controls"""
    if kind == 'insert':
        return E('O', T('INS', 1, lst(LIT1), 0, 0), '(insert Log { msg := "m", tags := 1 })',
                 'insert Log { msg := "m", tags := 1 }')
    if kind == 'update':
        return E('O', T('UPD', LOGS, 0, lst(LIT1)), '(update (select Log) set { tags := 1 })',
                 'update (select Log) set { tags := 1 }')
    if kind == 'delete':
        return E('O', T('DEL', LOGS, 0, 0, 0), '(delete (select Log))', 'delete (select Log)')
    if kind in ('mklog', 'mkinf', 'mk2'):
        return E('O', T('C', FN[kind], 0), f'{kind}()')
    if kind == 'noop':
        return E('I', T('C', FN['noop'], lst(LIT1)), 'noop(1)')
    if kind == 'rd':
        return E('I', T('C', FN['rd'], 0), 'rd()')
    if kind == 'rd2':
        return E('I', T('C', FN['rd2'], 0), 'rd2()')
    if kind == 'lit':
        return LIT1
    if kind == 'logs':
        return LOGS
    raise KeyError(kind)


DML_LEAVES = ['insert', 'update', 'delete', 'mklog', 'mkinf', 'mk2', 'noop']
PURE_LEAVES = ['rd', 'rd2', 'lit', 'logs']


def as_sort(e: E, sort: str, fr: Fresh) -> E:
    if e.sort == sort:
        return e
    if sort == 'I':
        return count(e)
    x = fr.var()
    return E('O', T('F', x, e, LOGS), f'(for x{x} in ({e.text}) union (select Log))')


# contexts: name -> (hole sort, result sort, builder(hole, fresh))
def _ctxs():
    C = {}

    def ctx(name, hs, rs):
        def deco(f):
            C[name] = (hs, rs, f)
            return f
        return deco

    ex = lambda h: E('I', T('P', 1, h), f'exists ({h.text})')        # noqa: E731
    two = E('I', T('P', 2, LIT1, ('L', '2')), '{1, 2}')

    @ctx('set_elem', 'I', 'I')
    def _(h, fr): return E('I', T('P', 2, LIT1, h), f'{{1, {h.text}}}')

    @ctx('cast', 'I', 'I')
    def _(h, fr): return E('I', T('P', 1, h), f'<int64><str>({h.text})')

    @ctx('coalesce_rhs', 'I', 'I')
    def _(h, fr): return E('I', T('P', 2, ('P', '0'), h), f'(<int64>{{}} ?? ({h.text}))')

    @ctx('modfn_arg', 'I', 'I')
    def _(h, fr): return E('I', T('C', FN['noop'], lst(E('I', T('P', 1, h), ''))), f'noop(count({h.text}))')

    @ctx('if_cond', 'I', 'I')
    def _(h, fr): return E('I', T('I', ex(h), LIT1, ('L', '2')), f'(1 if exists ({h.text}) else 2)')

    @ctx('if_then', 'I', 'I')
    def _(h, fr): return E('I', T('I', ex(LOGS), h, ('L', '2')), f'(({h.text}) if exists (select Log) else 2)')

    @ctx('if_else', 'I', 'I')
    def _(h, fr): return E('I', T('I', ex(LOGS), ('L', '2'), h), f'(2 if exists (select Log) else ({h.text}))')

    @ctx('sel_subj', 'I', 'I')
    def _(h, fr): return E('I', T('S', h, 0, lst(LIT1), 0, 0), f'(select ({h.text}) filter true)')

    @ctx('sel_filter', 'I', 'I')
    def _(h, fr): return E('I', T('S', two, 0, lst(ex(h)), 0, 0), f'(select {{1, 2}} filter exists ({h.text}))')

    @ctx('sel_order', 'I', 'I')
    def _(h, fr): return E('I', T('S', two, 0, 0, lst(E('I', T('P', 1, h), '')), 0),
                          f'(select {{1, 2}} order by count(({h.text})))')

    @ctx('sel_offset', 'I', 'I')
    def _(h, fr): return E('I', T('S', two, 0, 0, 0, lst(E('I', T('P', 1, h), ''))),
                          f'(select {{1, 2}} offset count(({h.text})))')

    @ctx('sel_limit', 'I', 'I')
    def _(h, fr): return E('I', T('S', two, 0, 0, 0, lst(E('I', T('P', 1, h), ''))),
                          f'(select {{1, 2}} limit count(({h.text})))')

    @ctx('with_bind', 'I', 'I')
    def _(h, fr):
        x = fr.var()
        return E('I', T('W', x, h, ('V', str(x))), f'(with x{x} := ({h.text}) select x{x})',
                 f'with x{x} := ({h.text}) select x{x}')

    @ctx('with_bind_unused', 'I', 'I')
    def _(h, fr):
        x = fr.var()
        return E('I', T('W', x, h, LIT1), f'(with x{x} := ({h.text}) select 1)',
                 f'with x{x} := ({h.text}) select 1')

    @ctx('with_body', 'I', 'I')
    def _(h, fr):
        x = fr.var()
        return E('I', T('W', x, LIT1, h), f'(with x{x} := 1 select ({h.text}))',
                 f'with x{x} := 1 select ({h.text})')

    @ctx('for_iter', 'I', 'I')
    def _(h, fr):
        x = fr.var()
        return E('I', T('F', x, h, ('V', str(x))), f'(for x{x} in ({h.text}) union x{x})',
                 f'for x{x} in ({h.text}) union x{x}')

    @ctx('for_body', 'I', 'I')
    def _(h, fr):
        x = fr.var()
        return E('I', T('F', x, two, h), f'(for x{x} in {{1, 2}} union ({h.text}))',
                 f'for x{x} in {{1, 2}} union ({h.text})')

    # ---- I -> O
    @ctx('ins_shape', 'I', 'O')
    def _(h, fr):
        t = f'insert Log {{ msg := "m", tags := ({h.text}) }}'
        return E('O', T('INS', 1, lst(h), 0, 0), f'({t})', t)

    @ctx('upd_shape', 'I', 'O')
    def _(h, fr):
        t = f'update (select Log) set {{ tags := ({h.text}) }}'
        return E('O', T('UPD', LOGS, 0, lst(h)), f'({t})', t)

    @ctx('upd_filter', 'I', 'O')
    def _(h, fr):
        t = f'update (select Log) filter exists ({h.text}) set {{ tags := 1 }}'
        return E('O', T('UPD', LOGS, lst(ex(h)), lst(LIT1)), f'({t})', t)

    @ctx('del_filter', 'I', 'O')
    def _(h, fr):
        t = f'delete (select Log) filter exists ({h.text})'
        return E('O', T('DEL', LOGS, lst(ex(h)), 0, 0), f'({t})', t)

    @ctx('del_order', 'I', 'O')
    def _(h, fr):
        t = f'delete (select Log) order by count(({h.text})) limit 1'
        return E('O', T('DEL', LOGS, 0, lst(E('I', T('P', 1, h), '')), lst(LIT1)), f'({t})', t)

    @ctx('del_limit', 'I', 'O')
    def _(h, fr):
        t = f'delete (select Log) limit count(({h.text}))'
        return E('O', T('DEL', LOGS, 0, 0, lst(E('I', T('P', 1, h), ''))), f'({t})', t)

    @ctx('selO_shape', 'I', 'O')
    def _(h, fr):
        x = fr.var()
        return E('O', T('S', LOGS, lst(h), 0, 0, 0), f'(select (select Log) {{ c{x} := ({h.text}) }})')

    @ctx('selO_filter', 'I', 'O')
    def _(h, fr): return E('O', T('S', LOGS, 0, lst(ex(h)), 0, 0), f'(select (select Log) filter exists ({h.text}))')

    @ctx('selO_order', 'I', 'O')
    def _(h, fr): return E('O', T('S', LOGS, 0, 0, lst(E('I', T('P', 1, h), '')), 0),
                          f'(select (select Log) order by count(({h.text})))')

    @ctx('forO_iter', 'I', 'O')
    def _(h, fr):
        x = fr.var()
        return E('O', T('F', x, h, LOGS), f'(for x{x} in ({h.text}) union (select Log))',
                 f'for x{x} in ({h.text}) union (select Log)')

    # ---- O -> I
    @ctx('agg_arg', 'O', 'I')
    def _(h, fr): return count(h)

    @ctx('path_src', 'O', 'I')
    def _(h, fr): return E('I', T('P', 1, h), f'({h.text}).n')

    @ctx('ins_link', 'O', 'I')
    def _(h, fr): return E('I', T('P', 1, ('INS', '0', *lst(h), '0', '0')),
                          f'count((insert User {{ name := "u", logs := ({h.text}) }}))')

    @ctx('upd_link', 'O', 'I')
    def _(h, fr): return E('I', T('P', 1, ('UPD', 'O', '0', '0', *lst(h))),
                          f'count((update (select User) set {{ logs := ({h.text}) }}))')

    @ctx('forI_iterO', 'O', 'I')
    def _(h, fr):
        x = fr.var()
        return E('I', T('F', x, h, ('P', '1', 'V', str(x))), f'(for x{x} in ({h.text}) union x{x}.n)',
                 f'for x{x} in ({h.text}) union x{x}.n')

    # ---- O -> O
    @ctx('union_elem', 'O', 'O')
    def _(h, fr): return E('O', T('P', 2, h, LOGS), f'{{({h.text}), (select Log)}}')

    @ctx('detached', 'O', 'O')
    def _(h, fr): return E('O', T('P', 1, h), f'(detached ({h.text}))')

    @ctx('type_intersection', 'O', 'O')
    def _(h, fr): return E('O', T('P', 1, h), f'({h.text})[is Log]')

    @ctx('stdfn_arg', 'O', 'O')
    def _(h, fr): return E('O', T('P', 1, h), f'assert_exists(({h.text}))')

    @ctx('upd_subj', 'O', 'O')
    def _(h, fr):
        t = f'update ({h.text}) set {{ tags := 1 }}'
        return E('O', T('UPD', h, 0, lst(LIT1)), f'({t})', t)

    @ctx('del_subj', 'O', 'O')
    def _(h, fr):
        t = f'delete ({h.text})'
        return E('O', T('DEL', h, 0, 0, 0), f'({t})', t)

    @ctx('selO_subj', 'O', 'O')
    def _(h, fr): return E('O', T('S', h, lst(('L', '0')), 0, 0, 0), f'(select ({h.text}) {{ msg }})')

    @ctx('selO_shapeO', 'O', 'O')
    def _(h, fr):
        x = fr.var()
        return E('O', T('S', LOGS, lst(h), 0, 0, 0), f'(select (select Log) {{ c{x} := ({h.text}) }})')

    @ctx('ins_else', 'O', 'O')
    def _(h, fr):
        t = f'insert Log {{ msg := "m" }} unless conflict on .msg else ({h.text})'
        return E('O', T('INS', 1, 0, lst(('L', '0')), lst(h)), f'({t})', t)

    @ctx('subquery', 'O', 'O')
    def _(h, fr): return E('O', T('S', h, 0, 0, 0, 0), f'(select ({h.text}))')

    @ctx('withO_bind', 'O', 'O')
    def _(h, fr):
        x = fr.var()
        return E('O', T('W', x, h, ('V', str(x))), f'(with x{x} := ({h.text}) select x{x})',
                 f'with x{x} := ({h.text}) select x{x}')

    @ctx('forO_body', 'O', 'O')
    def _(h, fr):
        x = fr.var()
        return E('O', T('F', x, ('P', '2', 'L', '1', 'L', '2'), h), f'(for x{x} in {{1, 2}} union ({h.text}))',
                 f'for x{x} in {{1, 2}} union ({h.text})')

    # ---- free-object shapes (the one SELECT shape that accepts DML, when written in an exposed position)
    @ctx('free_proj', 'O', 'O')
    def _(h, fr): return E('O', T('P', 1, ('FR', *lst(h))), f'(select {{ a := ({h.text}) }}).a')

    @ctx('free_bare', 'O', 'O')
    def _(h, fr): return E('O', T('P', 1, ('FR', *lst(h))), f'({{ a := ({h.text}) }}).a')

    @ctx('free_nested', 'O', 'O')
    def _(h, fr): return E('O', T('P', 1, ('FR', '1', 'FR', *lst(h))), f'(select {{ a := {{ b := ({h.text}) }} }}).a.b')

    @ctx('free_projI', 'I', 'I')
    def _(h, fr): return E('I', T('P', 1, ('FR', *lst(h, LIT1))), f'(select {{ a := ({h.text}), b := 1 }}).a')

    @ctx('free_sibling', 'I', 'I')
    def _(h, fr): return E('I', T('P', 1, ('FR', *lst(h, LIT1))), f'(select {{ a := ({h.text}), b := 1 }}).b')

    @ctx('free_count', 'O', 'I')
    def _(h, fr): return E('I', T('P', 1, ('FR', *lst(h))), f'count((select {{ a := ({h.text}) }}))')

    @ctx('ifO_then', 'O', 'O')
    def _(h, fr): return E('O', T('I', ex(LOGS), h, LOGS),
                          f'(({h.text}) if exists (select Log) else (select Log))')
    return C


CTX = _ctxs()


FREE_MODEL_LEAVES = {'insert', 'update', 'delete', 'logs', 'lit', 'rd', 'rd2'}


def modelled(chain, lk) -> bool:
    """is the accept/reject outcome of this term inside what the MiniQL model describes?  The real rule for
    DML in free-object shapes depends on `partial_path_prefix` / exposure bookkeeping that the model only
    follows for a free object applied directly to a DML-statement (or pure) leaf and not itself nested in
    another shape; everything else with a free object is judged by the oracle only."""
    fr = [i for i, c in enumerate(chain) if c.startswith('free')]
    if not fr:
        return True
    if fr != [0] or chain[0] == 'free_nested':
        return False
    if not isinstance(lk, str) or lk not in FREE_MODEL_LEAVES:
        return False
    return not any(c in ('selO_shape', 'selO_shapeO') for c in chain[1:])


def stmt_text(e: E, mode: str) -> str:
    s = e.top or f'select {e.text}'
    return ('analyze ' + s) if mode == 'analyze' else s


def build(chain: list[str], leafkind) -> E:
    """innermost context first; `leafkind` = name of a leaf or an E"""
    fr = Fresh()
    e = leafkind if isinstance(leafkind, E) else leaf(leafkind)
    for name in chain:
        hs, rs, f = CTX[name]
        e = f(as_sort(e, hs, fr), fr)
    return e


# ====================================================== generated functions
@dataclasses.dataclass
class FnSpec:
    name: str
    annot: str          # 'none' (volatility inferred) | 'mod' ('Modifying') | 'low' ('Volatile')
    body: E
    top: bool           # body is the statement form (`with x := … select x`) rather than `(…)`
    deps: tuple         # names of generated functions the body calls
    meta: dict
    modelled: bool = True

    @property
    def ddl(self) -> str:
        rt = 'set of int64' if self.body.sort == 'I' else 'set of Log'
        body = self.body.top if (self.top and self.body.top) else self.body.text
        vol = {'none': '', 'mod': "set volatility := 'Modifying'; ", 'low': "set volatility := 'Volatile'; "}
        return f'create function {self.name}() -> {rt} {{ {vol[self.annot]}using ({body}) }};'

    @property
    def decl(self) -> str:
        return f'decl {self.name} {self.annot} ' + ' '.join(self.body.toks)

    @property
    def call(self) -> E:
        return E(self.body.sort, ('C', '@' + self.name, '0'), f'{self.name}()')


FN_DML = ['insert', 'update', 'delete', 'mklog', 'mkinf', 'mk2']
FN_LEAVES = FN_DML + ['noop']      # noop(): declared Modifying, pure body - callers are NOT inferred Modifying


def gen_fn_specs(rng, quick: bool) -> list[FnSpec]:
    """function bodies with a DML leaf planted in every context of CTX (the body is the context
    itself: `with x := (insert …) select x`, `for x in (…) union …`, operands, shapes, clauses…),
    volatility omitted / declared, plus call chains f -> g -> … -> insert."""
    names = sorted(CTX)
    specs: list[FnSpec] = []

    def add(chain, lk, annot, deps=(), top=None):
        e = build(chain, lk)
        if top is None:
            top = bool(e.top) and rng.random() < 0.7
        sp = FnSpec(f'fg{len(specs)}', annot, e, top, tuple(deps),
                    {'chain': chain, 'leaf': lk if isinstance(lk, str) else lk.text, 'annot': annot})
        by = {x.name: x for x in specs}
        sp.modelled = (modelled(chain, lk) if isinstance(lk, str) else not any(c.startswith('free') for c in chain)) \
            and all(by[d].modelled for d in deps)
        specs.append(sp)
        return sp

    level1 = []
    for cn in names:
        if quick:
            lk = rng.choice(FN_DML)
            if cn.startswith('free'):
                # the only DML of the body inside a free-object shape computed; volatility inferred
                level1.append(add([cn], rng.choice(['insert', 'update', 'delete']), 'none'))
                level1.append(add([cn, rng.choice(names)], rng.choice(['insert', 'update', 'delete']), 'none'))
                if rng.random() < 0.5:
                    add([cn], rng.choice(['mklog', 'noop', 'logs']), 'none')
            elif build([cn], lk).top:
                # statement-form bodies (WITH / FOR / DML statements): always with the volatility inferred
                level1.append(add([cn], lk, 'none', top=True))
                if cn.startswith('with'):
                    level1.append(add([cn], rng.choice(FN_DML), rng.choice(['none', 'mod']), top=False))
            else:
                level1.append(add([cn], lk, 'none' if rng.random() < 0.75 else 'mod'))
        else:
            for lk in FN_DML:
                level1.append(add([cn], lk, 'none', top=True))
                add([cn], lk, rng.choice(['none', 'mod']), top=False)
    for _ in range(8 if quick else 400):
        chain = [rng.choice(names) for _ in range(rng.choice([2, 2, 3]))]
        level1.append(add(chain, rng.choice(FN_DML), rng.choice(['none', 'none', 'mod'])))
    for _ in range(3 if quick else 60):          # declared lower than inferred: must be rejected
        add([rng.choice(names)], rng.choice(FN_DML), 'low')
    for _ in range(4 if quick else 120):         # declared-Modifying callee with a pure body: caller not Modifying
        add([rng.choice(names)], 'noop', rng.choice(['none', 'none', 'low', 'mod']))
    for _ in range(4 if quick else 60):          # pure controls
        add([rng.choice(names)], rng.choice(['rd', 'logs', 'lit']), rng.choice(['none', 'low']))
    # call chains: g calls a generated f (whose DML sits in some context), h calls g
    level2 = []
    for _ in range(8 if quick else 200):
        f = rng.choice(level1)
        chain = [rng.choice(names) for _ in range(rng.choice([0, 1, 1]))]
        level2.append(add(chain, f.call, rng.choice(['none', 'none', 'mod']), deps=(f.name,)))
    for _ in range(3 if quick else 60):
        g = rng.choice(level2)
        chain = [rng.choice(names) for _ in range(rng.choice([0, 1]))]
        add(chain, g.call, 'none', deps=(g.name,))
    return specs


# function bodies outside the MiniQL grammar (oracle only); every body is int64-valued. {D} = leaf
FN_EXTRA_BODIES = [
    'select count((select {{ a := {D} }}).a)', 'select count(({{ a := {D} }}).a)',
    'select count((select {{ a := {{ b := {D} }} }}).a.b)', 'select (select {{ a := {D}, b := 1 }}).b',
    'select count(((select {{ a := {D} }}).a, 1).0)', 'select count(((select {{ a := {D} }}).a, random()).0)',
    'select array_unpack([(select {{ a := count({D}) }}).a])', 'select (x := (select {{ a := count({D}) }}).a).x',
    'for x in {{1, 2}} union count((select {{ a := {D} }}).a)',
    'for x in {{1, 2}} union (select {{ a := count({D}), b := x }}).b',
    'with z := 1 select count((select {{ a := {D} }}).a) + z',
    'select count((select {{ a := {D} }}).a) if true else 0',
    'select 0 if exists (select {{ a := {D} }}).a else 1',
    'select <int64>{{}} ?? count((select {{ a := {D} }}).a)',
    'select count({{ (select {{ a := {D} }}).a, (select Log) }})',
    'select count(assert_exists((select {{ a := {D} }}).a))', 'select count((select {{ a := (select {D}) }}).a)',
    'select count((select {{ a := (for z in {{1}} union {D}) }}).a)',
    'select count((select {{ a := (with q := {D} select q) }}).a)',
    'select count((select (select {{ a := {D} }})).a)', 'select count((select {{ a := {D} }} filter true).a)',
    'select count((select {{ a := {D} }} limit 1).a)', 'select count((select {{ multi a := {D} }}).a)',
    'select (select {{ a := count({D}) }}).a', 'select count((select {{ a := {D} }}).a.msg)',
    'select count(<json>(select {{ a := {D} }}))', 'select count((select {{ a := {D} }}))',
    'select count((insert User {{ name := "u", logs := (select {{ a := {D} }}).a }}))',
    'select count((update User set {{ logs := (select {{ a := {D} }}).a }}))',
    'select count((select {{ a := (select {{ b := {D} }}).b }}).a)',
    'select count((select {{ a := {D}, b := {D} }}).b)',
    # object-type shapes (DML there is rejected; listed so that a relaxation would be noticed)
    'select count((select Log {{ z := {D} }}))', 'select count((select User {{ logs: {{ z := {D} }} }}))',
    'select count((select {D} {{ z := {D} }}))',
]
FN_EXTRA_LEAVES = {
    'insert': '(insert Log { msg := "fx" })', 'update': '(update Log set { n := 2 })', 'delete': '(delete Log)',
    'mklog': 'mklog()', 'pure': '(select Log)',
}


# ======================================================= function histories
# a history = list of DDL statements over functions `<p>_<name>`; after EVERY step the oracle looks at
# every function of the history: "writes, transitively, per the CURRENT bodies" => stored volatility
# Modifying => `select fn()` (and script forms) carry MODIFICATIONS.
HW = ['select (insert Log {{ msg := "h", n := 1 }}).n', 'with x := (insert Log {{ msg := "h" }}) select x.n',
      'select count((delete Log))', 'for x in {{1}} union (update Log set {{ n := x }}).n',
      'select (select {{ a := (insert Log {{ msg := "h" }}) }}).a.n']
HP = ['select 1', 'select count(Log)', 'select <int64>{{}}']
HC1 = ['select {a}()', 'select {a}() ?? 0', 'with v := {a}() select v', 'select (select {a}())',
       'for z in {{1}} union {a}()', 'select {{ {a}(), 1 }}']
HC2 = ['select {{ {a}(), {b}() }}', 'select {a}() ?? {b}()', 'with u := {a}() select {b}()']


def _cf(n, body, vol=None):
    v = f"set volatility := '{vol}'; " if vol else ''
    return f'create function {n}() -> set of int64 {{ {v}using ({body}) }};'


def _au(n, body):
    return f'alter function {n}() using ({body});'


def _av(n, vol):
    return f"alter function {n}() set volatility := '{vol}';"


def _rv(n):
    return f'alter function {n}() reset volatility;'


def fixed_histories():
    H = []
    w, pu = HW[0].format(), HP[0].format()
    # 1. chain h -> f -> g, leaf starts writing, the top is then declared Volatile / reset
    H.append(('chain3-raise', ['g', 'f', 'h'], [
        _cf('P_g', pu), _cf('P_f', 'select P_g()'), _cf('P_h', 'select P_f()'),
        _au('P_g', w), _av('P_h', 'Volatile'), _rv('P_h'), _av('P_f', 'Volatile'), _av('P_h', 'Stable')]))
    # 3. diamond
    H.append(('diamond', ['l', 'm1', 'm2', 't'], [
        _cf('P_l', pu), _cf('P_m1', 'select P_l()'), _cf('P_m2', 'for z in {1} union P_l()'),
        _cf('P_t', 'select { P_m1(), P_m2() }'),
        _au('P_l', HW[3].format()), _av('P_t', 'Volatile'), _au('P_m1', pu), _av('P_t', 'Volatile'),
        _au('P_m2', pu), _av('P_t', 'Volatile'), _au('P_m2', 'select P_l()'), _rv('P_t')]))
    # 2. depth 4, leaf writes, top raised, leaf stops writing, resets
    H.append(('chain4', ['a', 'b', 'c', 'd'], [
        _cf('P_a', HP[1].format()), _cf('P_b', 'select P_a() ?? 0'), _cf('P_c', 'with v := P_b() select v'),
        _cf('P_d', 'select (select P_c())'),
        _au('P_a', HW[1].format()), _av('P_d', 'Volatile'), _av('P_c', 'Volatile'), _au('P_a', pu),
        _rv('P_d'), _au('P_a', HW[2].format()), _av('P_d', 'Volatile'), _av('P_d', 'Modifying'), _rv('P_d')]))
    # 4. the middle starts / stops writing
    H.append(('middle', ['x', 'y', 'z', 'zz'], [
        _cf('P_x', pu), _cf('P_y', 'select P_x()'), _cf('P_z', 'select P_y()'), _cf('P_zz', 'select P_z() ?? 1'),
        _au('P_y', HW[4].format()), _av('P_zz', 'Volatile'), _av('P_z', 'Volatile'),
        _au('P_y', 'select P_x()'), _av('P_zz', 'Volatile'), _au('P_x', w), _av('P_zz', 'Stable')]))
    # 5. rename, then the renamed leaf writes
    H.append(('rename', ['p', 'p2', 'q', 'r'], [
        _cf('P_p', pu), _cf('P_q', 'select P_p()'), _cf('P_r', 'select P_q()'),
        'alter function P_p() rename to P_p2;', _au('P_p2', w), _av('P_r', 'Volatile'),
        'alter function P_q() rename to P_p;', _av('P_r', 'Volatile'), _rv('P_r')]))
    # 6. drop + recreate
    H.append(('drop-recreate', ['q', 'r', 's', 't'], [
        _cf('P_q', pu), _cf('P_r', 'select P_q()'), _cf('P_s', 'select P_r()'), 'drop function P_s();',
        _au('P_q', w), _cf('P_s', 'select P_r()'), _cf('P_t', 'select P_s()', 'Volatile'),
        _cf('P_t', 'select P_s()'), _av('P_t', 'Stable'), 'drop function P_q();', 'drop function P_t();',
        _au('P_q', pu), _cf('P_t', 'select P_s()', 'Volatile'), _au('P_q', w)]))
    # 7. declared Modifying first (pure body), later really writing, declaration reset
    H.append(('declared-first', ['k', 'm', 'n'], [
        _cf('P_k', pu, 'Modifying'), _cf('P_m', 'select P_k()'), _cf('P_n', 'select P_m()'),
        _rv('P_k'), _au('P_k', w), _rv('P_k'), _av('P_n', 'Volatile'), _av('P_k', 'Volatile'),
        _au('P_k', pu), _av('P_n', 'Volatile'), _au('P_k', w)]))
    # 8. the top is declared Volatile while everything is pure, then the leaf starts writing
    H.append(('declared-top', ['u', 'v', 'w'], [
        _cf('P_u', pu), _cf('P_v', 'select P_u()'), _cf('P_w', 'select P_v()'),
        _av('P_w', 'Volatile'), _au('P_u', w), _rv('P_w'), _au('P_u', w), _av('P_w', 'Volatile'),
        _au('P_v', 'select P_u() ?? P_u()'), _av('P_w', 'Volatile')]))
    return H


def random_history(rng, k):
    names = [f'n{i}' for i in range(rng.randrange(3, 6))]
    steps = []
    exist = []
    for i, n in enumerate(names):
        if i == 0:
            body = rng.choice(HP).format()
        elif i >= 2 and rng.random() < 0.3:
            a, b = rng.sample(exist, 2)
            body = rng.choice(HC2).format(a='P_' + a, b='P_' + b)
        else:
            body = rng.choice(HC1).format(a='P_' + rng.choice(exist[-2:]))
        steps.append(_cf('P_' + n, body))
        exist.append(n)
    for _ in range(rng.randrange(4, 10)):
        r = rng.random()
        n = rng.choice(exist)
        i = names.index(n)
        if r < 0.35:
            if i == 0 or rng.random() < 0.4:
                body = rng.choice(HW + HP).format()
            else:
                body = rng.choice(HC1).format(a='P_' + rng.choice(names[:i]))
            steps.append(_au('P_' + n, body))
        elif r < 0.7:
            steps.append(_av('P_' + n, rng.choice(['Volatile', 'Volatile', 'Stable', 'Immutable', 'Modifying'])))
        elif r < 0.85:
            steps.append(_rv('P_' + n))
        elif r < 0.93:
            steps.append(f'drop function P_{n}();')
        else:
            body = rng.choice(HC1).format(a='P_' + rng.choice(names[:i])) if i else rng.choice(HP).format()
            steps.append(_cf('P_' + n, body, rng.choice([None, 'Volatile'])))
    return (f'random{k}', names, steps)


# ================================================================ real side
class Real:
    def __init__(self, ctx):
        from bridge import env
        t0 = time.time()
        env.setup()
        self.env = env
        self.schema = env.load_schema(SDL)
        self.sctx = env.server_context(self.schema)
        from edb.server.compiler import enums, dbstate, compiler as c
        from edb import errors, edgeql
        from edb.edgeql import ast as qlast, parser as qlparser, qltypes
        from edb.schema import functions as s_func
        self.enums, self.dbstate, self.c, self.errors, self.edgeql = enums, dbstate, c, errors, edgeql
        self.qlast, self.qlparser = qlast, qlparser
        self.Cap = enums.Capability
        self.Modifying = qltypes.Volatility.Modifying
        self._memo = {}
        self._schemas = []      # keep schemas alive (memo is keyed by id)
        # names of Modifying functions, read from the real schema objects
        self.modifying = set()
        std = env.std_schema()
        for sch in (self.schema,):
            for fn in sch.get_objects(type=s_func.Function):
                if fn.get_volatility(sch) == qltypes.Volatility.Modifying:
                    self.modifying.add(str(fn.get_shortname(sch)))
        for fn in std.get_objects(type=s_func.Function):
            if fn.get_volatility(std) == qltypes.Volatility.Modifying:
                self.modifying.add(str(fn.get_shortname(std)))
        ctx.log(f'level-2 environment ready in {time.time() - t0:.1f}s; modifying functions: '
                f'{sorted(self.modifying)}')

    def fresh(self, **kw):
        s = self.env.server_context(self.schema)
        return dataclasses.replace(s, **kw) if kw else s

    def context_flags(self):
        """every boolean field of the real `CompileContext` dataclass with its default (enumerated from
        the source, so a new flag is picked up), and which of them the server compiler reads"""
        import ast as pyast
        import os
        CC = self.c.CompileContext
        flags = {f.name: f.default for f in dataclasses.fields(CC) if f.type in ('bool', bool)}
        read = set()
        d = os.path.join(core.REPO, 'edb', 'server', 'compiler')
        for fn in ('compiler.py', 'ddl.py'):
            for n in pyast.walk(pyast.parse(open(os.path.join(d, fn)).read())):
                if (isinstance(n, pyast.Attribute) and isinstance(n.value, pyast.Name)
                        and n.value.id.endswith('ctx') and n.attr in flags):
                    read.add(n.attr)
        return flags, read

    def compile_notebook(self, queries):
        """the real `Compiler.compile_notebook` entry (the only producer of notebook contexts)
        -> list of ('ok', caps) | ('rej', class, message), one per query until the first error"""
        import immutables
        from edb.schema import schema as s_schema
        from edb.server import defines
        comp = self.env.new_compiler()
        E0 = immutables.Map()
        try:
            res = comp.compile_notebook(self.schema, s_schema.EMPTY_SCHEMA, E0, E0, E0, list(queries),
                                        defines.CURRENT_PROTOCOL)
        except Exception as e:
            return [('rej', 'internal', f'{type(e).__name__}: {e}'[:200])]
        out = []
        for is_err, r in res:
            if is_err:
                out.append(('rej', 'other', f'{r[0]}: {r[1]}'[:200]))
            else:
                out.append(('ok', int(r.capabilities)))
        return out

    def body_volatility(self, schema, body_stmt):
        """compile a function body (as a statement) with the real compiler and run the real
        `inference.infer_volatility` twice on the finished IR: as stored by the compiler (inference cache
        filled incrementally during compilation) and from scratch (empty cache) -> (warm, cold) | None"""
        from edb.edgeql.compiler import inference

        class Env:
            pass
        try:
            ir = self.env.compile_to_ir(schema, body_stmt)
        except Exception:
            return None
        env = Env()
        env.inferred_volatility = {}
        env.singletons = set(ir.singletons or ())
        env.schema = ir.schema
        try:
            cold = inference.infer_volatility(ir.expr, env)
        except Exception as e:
            return (str(ir.volatility), f'error {type(e).__name__}: {e}'[:120])
        return (str(ir.volatility), str(cold))

    def classify(self, e):
        m = str(e)
        if 'cannot be used in a FILTER clause' in m or 'cannot be used in an ORDER BY clause' in m:
            return ('rej', 'clause', m)
        if "mutations are invalid in a shape's computed expression" in m:
            return ('rej', 'shape', m)
        if 'volatility mismatch in function declared as' in m:
            return ('rej', 'volatility', m)
        return ('rej', 'other', f'{type(e).__name__}: {m}'[:200])

    def create_fn(self, schema, ddl, name):
        """`create function` through the real DDL path -> ('ok', schema', stored volatility is Modifying,
        body-can-write witness) | ('rej', class, message)"""
        try:
            sch2 = self.env.run_ddl(schema, ddl)
        except self.errors.EdgeDBError as e:
            return self.classify(e)
        except Exception as e:
            return ('rej', 'internal', f'{type(e).__name__}: {e}'[:200])
        self._schemas.append(sch2)
        fn = sch2.get_functions('default::' + name)[0]
        memo = self._memo.setdefault(id(sch2), {})
        return ('ok', sch2, fn.get_volatility(sch2) == self.Modifying, self.fn_can_write(sch2, fn, memo),
                str(fn.get_volatility(sch2)))

    def compile(self, text, sctx=None):
        """-> ('ok', caps:int, [unit caps]) | ('rej', class, message)"""
        try:
            grp = self.env.server_compile(sctx or self.sctx, text)
            return ('ok', int(grp.capabilities), [int(u.capabilities) for u in grp])
        except self.errors.EdgeDBError as e:
            return self.classify(e)
        except Exception as e:  # internal error of the compiler: not a verdict on C08
            return ('rej', 'internal', f'{type(e).__name__}: {e}'[:200])

    # -------- oracle S: independent walk over the real parsed trees.  "Can this statement write?" is
    # decided from syntax only: an Insert/Update/Delete node in the statement, or a call of a function
    # whose stored BODY (parsed from the schema's nativecode), transitively, contains such a node.
    # The volatility stored in the schema is NOT consulted for that verdict.
    def _walk(self, tree, schema, found, declared, memo):
        qlast = self.qlast

        def walk(n):
            if isinstance(n, (qlast.InsertQuery, qlast.UpdateQuery, qlast.DeleteQuery)):
                found.append(type(n).__name__)
            if isinstance(n, qlast.FunctionCall):
                f = n.func
                nm = f if isinstance(f, str) else '::'.join(f)
                try:
                    fns = schema.get_functions(nm, default=(), module_aliases={None: 'default'})
                except Exception:
                    fns = ()
                for fn in fns:
                    w = self.fn_can_write(schema, fn, memo)
                    if w:
                        found.append(f'call {nm} -> {w[0]}')
                        break
                for fn in fns:
                    if fn.get_volatility(schema) == self.Modifying:
                        declared.append(nm)     # only used to compare with the model's containsDML
                        break
            if isinstance(n, qlast.Base):
                for name in type(n)._fields:
                    if name in ('span', 'system_comment'):
                        continue
                    walk(getattr(n, name, None))
            elif isinstance(n, (list, tuple, set, frozenset)):
                for x in n:
                    walk(x)
            elif isinstance(n, dict):
                for x in n.values():
                    walk(x)
        walk(tree)

    def fn_can_write(self, schema, fn, memo):
        """[] / [witness]: does the stored body of `fn` contain DML (through nested calls)?"""
        key = fn.id
        if key in memo:
            return memo[key]
        memo[key] = []          # recursion guard (EdgeQL functions cannot be recursive)
        code = fn.get_nativecode(schema)
        if code is None or fn.get_language(schema) != self.qlast.Language.EdgeQL:
            return memo[key]
        found: list[str] = []
        self._walk(code.parse(), schema, found, [], memo)
        memo[key] = found[:1]
        return memo[key]

    def contains_dml(self, text, schema=None):
        """-> (can_write, witnesses, model_contains): model_contains additionally counts calls of
        functions whose stored volatility is Modifying (what the MiniQL `containsDML` means)."""
        schema = schema or self.schema
        memo = self._memo.setdefault(id(schema), {})
        found: list[str] = []
        declared: list[str] = []
        self._walk(self.qlparser.parse_block(text), schema, found, declared, memo)
        return bool(found), found, bool(found) or bool(declared)


# hand-written contexts outside the MiniQL grammar (oracle only). {D} = DML leaf text
EXTRA_CONTEXTS = [
    'select {{ a := {D} }}', 'select {{ a := {{ b := {D} }} }}', 'select ({{ a := {D} }}).a',
    'select (select {{ a := {D} }})', 'with f := {{ a := {D} }} select f',
    'select User {{ a := {D} }}', 'select User {{ a := (select {D}) }}', 'select User {{ logs: {{ a := {D} }} }}',
    'select User {{ multi a := {D} }}', 'select {D} {{ k := {D} }}',
    'select (1, {D})', 'select [count({D})]', 'select ({D},).0', 'select (a := {D}).a', 'select ({D}, {D}).0',
    'select {D}.n + 1', 'select <str>{D}.n ++ "a"', 'select {D} = {D}', 'select {D} is Log', 'select {D} in Log',
    'select (select Log limit 1) ?? {D}', 'select <json>{D}', 'select exists {D}', 'select distinct {D}',
    'select {D} if true else {D}', 'select {D} if exists (select Log) else <Log>{{}}',
    'group {D} by .msg', 'group Log using z := count({D}) by z', 'select (group {D} by .msg)',
    'select array_agg({D})', 'select enumerate({D})', 'select array_unpack([1, 2]) + count({D})',
    'select User filter exists {D}', 'select User order by count({D})', 'select User offset count({D})',
    'select User {{ name }} filter .name = "a" and exists (for x in {{1}} union {D})',
    'insert User {{ name := "x", logs := {D} }}', 'update User set {{ logs := {D} }}',
    'update User set {{ logs += {D} }}', 'update User filter exists {D} set {{ tags := 1 }}',
    'delete User filter exists {D}', 'update {D} set {{ n := 3 }}', 'delete {D}',
    'insert Log {{ msg := "b" }} unless conflict on .msg else {D}',
    'insert Log {{ msg := "b" }} unless conflict on .msg else (select {D})',
    'insert User {{ name := "x", logs := (insert Log {{ msg := "y", n := count({D}) }}) }}',
    'with x := (select {D}), y := x select y', 'select (with a := 1 select (with b := {D} select b))',
    'for x in {{1, 2}} union (for y in {{3, 4}} union {D})', 'select count((for x in {{1}} union {D}))',
    'with x := {D} select {{ a := x }}', 'with x := {D} update User set {{ logs := x }}',
    'select {D} filter true', 'select {D} order by .msg', 'select {D} limit 1',
    'select assert_single({D})', 'select to_json("1") ?? <json>{D}',
    'with module default select {D}', 'select default::noop(count({D}))',
    'select global g ?? count({D})', 'select count({D}) + <int64>$0',
]
EXTRA_LEAVES = {
    'insert': '(insert Log {msg := "a", n := 1})', 'update': '(update Log set {n := 2})',
    'delete': '(delete Log)', 'mklog': 'mklog()', 'mkinf': 'mkinf()', 'mk2': 'mk2()',
    'noopwrap': '(for z in noop(1) union (select Log))',
    'pure': '(select Log)', 'purefn': '(select Log filter .n = rd())',
}
EXTRA_DML = ['insert', 'update', 'delete', 'mklog', 'mkinf', 'mk2', 'noopwrap']


# ============================================================ statement kinds
# (row class, conds) -> scenarios: list of (prefix statements run first on a fresh ctx, ctx kwargs, statement)
MIG = 'start migration to { module default { type A; } }'
S = 'slow'      # > ~3 s through the server compiler (backend SQL for object types / migrations): thorough tier only
KIND_SCENARIOS = [
    # MigrationCommand
    (('MigrationCommand', ('result=MigrationControlQuery', 'txAction=1')), [
        ([], {}, MIG),
        ([MIG, 'populate migration'], {}, 'commit migration', S),
        ([MIG], {}, 'abort migration'),
        ([], {}, 'start migration rewrite'),
        (['start migration rewrite'], {}, 'abort migration rewrite'),
    ]),
    (('MigrationCommand', ('result=MigrationControlQuery', 'txAction=0')), [
        (['start transaction'], {}, MIG),
        ([MIG], {}, 'populate migration'),
        ([MIG], {}, 'alter current migration reject proposed'),
        (['start transaction', MIG], {}, 'abort migration'),
        (['start transaction', MIG, 'populate migration'], {}, 'commit migration', S),
    ]),
    (('MigrationCommand', ('result=DDLQuery',)), [
        ([], {}, 'create migration { create type default::A; }', S),
        ([], {}, 'reset schema to initial'),
    ]),
    (('MigrationCommand', ('result=Other',)), [
        ([MIG], {}, 'describe current migration'),
        ([MIG], {}, 'describe current migration as json'),
    ]),
    (('DDLCommand', ()), [
        ([], {}, 'create type T1 { create property a: str }', S),
        ([], {}, 'alter type User create property z: str', S),
        ([], {}, 'drop type User', S),
        ([], {}, 'create function f9() -> int64 using (1)'),
        ([], {}, 'create alias A1 := (select Log)', S),
        ([], {}, 'create scalar type S1 extending int64', S),
        ([], {}, 'create global g2: str'),
        ([], {}, 'drop global g'),
        ([], {}, 'create module m1'),
        ([], {}, 'create abstract annotation ann1'),
        ([], {}, 'alter type Log create index on (.n)', S),
        ([], {}, 'create abstract constraint c1 { using (__subject__ > 0) }', S),
        ([], {}, 'alter type Log create access policy p1 allow all using (true)', S),
        ([], {}, 'alter type Log create trigger t1 after insert for each do (insert User { name := "t" })', S),
        ([], {}, 'drop function rd2()'),
        ([], {}, "alter function rd() set volatility := 'Volatile'"),
        ([], {}, 'alter type User { alter property name { set readonly := true } }'),
        ([], {}, 'create future simple_scoping'),
        ([], {}, 'create extension pgcrypto', S),
        ([], {}, 'create database db1'),
        ([], {}, 'create empty branch b1'),
        ([], {}, 'alter type Log alter property n set required using (0)', S),
        ([], {}, 'create abstract link l1', S),
    ]),
    (('Transaction', ()), [
        ([], {}, 'start transaction'),
        ([], {}, 'start transaction isolation serializable, read only, deferrable'),
        (['start transaction'], {}, 'commit'),
        (['start transaction'], {}, 'rollback'),
        (['start transaction'], {}, 'declare savepoint s1'),
        (['start transaction', 'declare savepoint s1'], {}, 'release savepoint s1'),
        (['start transaction', 'declare savepoint s1'], {}, 'rollback to savepoint s1'),
    ]),
    (('SessionCommand_tuple', ()), [
        ([], {}, 'set module default'),
        ([], {}, 'set alias foo as module std'),
        (['set alias foo as module std'], {}, 'reset alias foo'),
        ([], {}, 'reset module'),
        ([], {}, 'reset alias *'),
    ]),
    (('ConfigOp', ('scope=SESSION',)), [
        ([], {}, "configure session set query_execution_timeout := <duration>'10s'"),
        ([], {}, 'configure session reset query_execution_timeout'),
        ([], {}, 'configure session set apply_access_policies := false'),
    ]),
    (('ConfigOp', ('scope=GLOBAL', 'notebook=1')), [
        ([], {'notebook': True}, 'set global g := 1'),
        ([], {'notebook': True}, 'reset global g'),
    ]),
    (('ConfigOp', ('scope=GLOBAL', 'notebook=0')), [
        ([], {}, 'set global g := 1'),
        ([], {}, 'reset global g'),
        ([], {}, 'set global default::g := <int64>count(Log)'),
    ]),
    (('ConfigOp', ('scope=INSTANCE',)), [
        ([], {}, "configure instance set session_idle_timeout := <duration>'10s'"),
        ([], {}, 'configure instance reset session_idle_timeout'),
        ([], {}, "configure instance insert cfg::Auth { priority := 7, method := (insert cfg::Trust) }"),
        ([], {}, 'configure instance reset cfg::Auth filter .priority = 7'),
    ]),
    (('ConfigOp', ('scope=DATABASE',)), [
        ([], {}, "configure current database set query_execution_timeout := <duration>'10s'"),
        ([], {}, 'configure current branch reset query_execution_timeout'),
    ]),
    (('ExplainStmt', ('hasDml=1',)), [
        ([], {}, 'analyze insert Log { msg := "a" }'),
        ([], {}, 'analyze select (with x := (delete Log) select count(x))'),
        ([], {}, 'analyze (execute := false) select mklog()'),
    ]),
    (('ExplainStmt', ('hasDml=0',)), [
        ([], {}, 'analyze select Log'),
        ([], {}, 'analyze (execute := false, buffers := true) select rd()'),
    ]),
    (('AdministerStmt', ()), [
        ([], {}, 'administer vacuum()'),
        ([], {}, 'administer statistics_update()'),
        ([], {}, 'administer schema_repair()', S),
        ([], {}, 'administer reindex(Log)'),
        ([], {}, 'administer vacuum(Log, full := true)'),
    ]),
    (('QueryOrCommand', ('hasDml=1',)), [
        ([], {}, 'insert Log { msg := "a" }'),
        ([], {}, 'update Log set { n := 1 }'),
        ([], {}, 'delete Log'),
        ([], {}, 'select mkinf()'),
        ([], {}, 'for x in {1, 2} union (insert Log { msg := <str>x })'),
        ([], {}, 'with x := (insert Log { msg := "a" }) select x.msg'),
        ([], {}, 'group (delete Log) by .msg'),
    ]),
    (('QueryOrCommand', ('hasDml=0',)), [
        ([], {}, 'select 1'),
        ([], {}, 'select Log { msg, n }'),
        ([], {}, 'for x in {1, 2} union x + rd()'),
        ([], {}, 'group Log by .msg'),
        ([], {}, 'describe schema as sdl'),
        ([], {}, 'describe type Log'),
        ([], {}, 'describe object Log as text'),
    ]),
]
QUICK_DDL_SAMPLE = 2


def row_line(cmd, key):
    return ' '.join([cmd, key[0], *key[1]])


# ======================================================================= run
def run(ctx: core.Ctx):
    # ---------------- generated table
    from gen import caps as gencaps
    gen_info = None
    try:
        gen_info = gencaps.write()
        ctx.log(f"Gen/Caps.lean regenerated ({'changed' if gen_info['changed'] else 'unchanged'}): "
                f"{len(gen_info['rows'])} rows, {len(gen_info['classes'])} statement classes")
    except gencaps.ShapeError as e:
        ctx.fail('gen:shape', 'the dispatch chain / Capability enum no longer has the form the translator '
                 'understands; the generated table (and every theorem over it) does not describe this source',
                 {'error': str(e)}, no_input=True)
        ctx.log('GENERATOR SHAPE ERROR:', e)

    n_gen = (len(gen_info['rows']) + len(gen_info['classes'])) if gen_info else 0
    proved = ctx.proof_stage(PROPS, ['EdbVerif.Props.C08', 'Driver.C08'], required=REQUIRED,
                             gen_obligations=n_gen)
    ctx.log('proof stage:', 'ok' if proved else ctx.proof['broken'])

    R = Real(ctx)
    Cap = R.Cap
    rng = ctx.rng
    lines: list[str] = []         # driver input
    after: list = []              # callbacks (model_output) per line

    def ask(line, cb):
        lines.append(line)
        after.append(cb)

    stats = {'l1_group': 0, 'l1_mkerr': 0, 'terms': 0, 'extra': 0, 'kinds': 0, 'scripts': 0,
             'fn_created': 0, 'fn_callers': 0, 'kinds_flagged': 0, 'oracle_only_terms': 0}
    outcome_hist: dict[str, int] = {}
    ctx_hist: dict[str, int] = {}
    leaf_hist: dict[str, int] = {}
    unmodelled: dict[str, int] = {}
    unmodelled_samples: list = []
    internal: list = []
    samples: list[str] = []
    distinct = set()
    n_dis = [0]
    precision = {'no_dml_cases': 0, 'no_dml_flagged': 0}

    replay = None
    if ctx.replay:
        replay = json.load(open(ctx.replay))['failures']

    # ============================================================ level 1
    def l1_group(cs):
        g = R.dbstate.QueryUnitGroup()
        for c in cs:
            g.append(R.dbstate.QueryUnit(sql=b'', status=b'', capabilities=Cap(c)))
        real = int(g.capabilities)
        exp = 0
        for c in cs:
            exp |= c
        key = 'grp ' + (','.join(map(str, cs)) or '-')
        if real != exp:
            ctx.fail('oracle:' + key, 'group capabilities are not the OR of the unit capabilities',
                     {'l1': 'group', 'caps': cs, 'real': real})
        stats['l1_group'] += 1

        def cb(m):
            if m != str(real):
                n_dis[0] += 1
                ctx.fail('corr:' + key, 'QueryUnitGroup.append and the model disagree',
                         {'l1': 'group', 'caps': cs, 'real': real, 'model': m}, no_input=(real == exp))
        ask(key, cb)

    NAMED = 31

    def l1_mkerr(s, a):
        exceeds = bool(Cap(s) & ~Cap(a))
        try:
            msg = Cap(s).make_error(Cap(a), lambda m: m, 'R')
            title = msg[len('cannot execute '):-len(': R')]
        except AssertionError:
            title = '-'
        key = f'mkerr {s} {a}'
        real = f'{1 if exceeds else 0} {title}'
        # oracle: subset test is what it says; message names a used, disallowed flag
        if exceeds != ((s & ~a) != 0):
            ctx.fail('oracle:' + key, '`caps & ~allowed` is not the subset test', {'l1': 'mkerr', 's': s, 'a': a})
        if title != '-':
            flag = [m for m in Cap if R.enums.CAPABILITY_TITLES[m] == title]
            if not flag or not (int(flag[0]) & s) or (int(flag[0]) & a):
                ctx.fail('oracle:' + key, 'make_error names a flag that is not (used and disallowed)',
                         {'l1': 'mkerr', 's': s, 'a': a, 'title': title})
        if exceeds and (s & ~NAMED) == 0 and title == '-':
            ctx.fail('oracle:' + key, 'make_error finds nothing to report although a named flag is disallowed',
                     {'l1': 'mkerr', 's': s, 'a': a})
        stats['l1_mkerr'] += 1

        def cb(m):
            if m != real:
                n_dis[0] += 1
                ctx.fail('corr:' + key, 'Capability.make_error / & ~allowed and the model disagree',
                         {'l1': 'mkerr', 's': s, 'a': a, 'real': real, 'model': m}, no_input=True)
        ask(key, cb)

    def rand_caps():
        r = rng.random()
        if r < 0.6:
            return rng.randrange(32)
        if r < 0.8:
            return rng.randrange(32) | (1 << rng.randrange(5, 64))
        return rng.getrandbits(64)

    # ============================================================ level 2 (a)
    def check_term(e: E, mode: str, meta, sctx=None, schema=None, fn_detail=None, model=True):
        """`sctx`/`schema`: compile against a schema extended with generated functions;
        `fn_detail`: what a replay needs to rebuild that schema and the model environment"""
        text = stmt_text(e, mode)
        real = R.compile(text, sctx)
        has, found, has_model = R.contains_dml(text, schema)
        line = f'q {mode} ' + ' '.join(e.toks)
        stats['fn_callers' if fn_detail is not None else 'terms'] += 1
        key = f'{mode}:{text}'
        if fn_detail is not None:
            key = f'fn:{fn_detail["callee"]}:' + key
        fnd = {'fn': fn_detail} if fn_detail is not None else {}
        oc = real[0] if real[0] == 'ok' else f'rej:{real[1]}'
        if real[0] == 'ok':
            oc = 'ok:MOD' if real[1] & MOD else 'ok:none'
        outcome_hist[oc] = outcome_hist.get(oc, 0) + 1
        if has and text not in distinct:
            distinct.add(text)
        failed = False
        if real[0] == 'ok':
            if has and not (real[1] & MOD):
                failed = True
                ctx.fail('oracle:' + key, 'executing the statement can write (DML node in the statement or, '
                         'transitively, in the stored body of a called function) but the compiler did not attach '
                         'MODIFICATIONS',
                         {'text': text, 'mode': mode, 'toks': list(e.toks), 'dml_nodes': found,
                          'capabilities': real[1], 'meta': meta} | fnd)
            if real[1] & ~MOD:
                failed = True
                ctx.fail('oracle:' + key, 'a query statement carries a capability other than MODIFICATIONS',
                         {'text': text, 'mode': mode, 'toks': list(e.toks), 'capabilities': real[1]} | fnd)
            if not has_model:
                precision['no_dml_cases'] += 1
                if real[1] & MOD:
                    precision['no_dml_flagged'] += 1
        elif real[1] == 'internal':
            internal.append({'text': text, 'error': real[2]})
        elif real[1] == 'other':
            k = real[2].split(':')[0] + ':' + real[2].split(':', 1)[1][:50]
            unmodelled[k] = unmodelled.get(k, 0) + 1
            if len(unmodelled_samples) < 12:
                unmodelled_samples.append({'text': text, 'error': real[2]})
        if len(samples) < 6 and has and rng.random() < 0.02:
            samples.append(f'{text} => {oc}')

        def cb(m):
            parts = m.split(' ')
            if real[0] == 'rej' and real[1] in ('other', 'internal'):
                return        # rejected for a reason outside the model (typing, cardinality...)
            if real[0] == 'ok':
                rs = f'ok {real[1]}'
                ms = ' '.join(parts[:2])
                # model's own containsDML must agree with the independent walk of the real tree
                extra = (parts[0] == 'ok' and parts[2] != ('1' if has_model else '0'))
            else:
                rs = f'rej {real[1]}'
                ms = m
                extra = False
            if rs != ms or extra:
                n_dis[0] += 1
                if not failed:
                    ctx.fail('corr:' + key, 'server compiler and MiniQL model disagree on the outcome',
                             {'text': text, 'mode': mode, 'toks': list(e.toks), 'real': rs,
                              'real_detail': real[2] if real[0] == 'rej' else real[1], 'model': m,
                              'oracle_can_write': has, 'oracle_model_contains': has_model, 'meta': meta} | fnd,
                             no_input=True)
        if model:
            ask(line, cb)
        else:
            stats['oracle_only_terms'] += 1

    # ============================================================ level 2 (b)
    def check_extra(tmpl, lk, mode='query'):
        text = tmpl.format(D=EXTRA_LEAVES[lk])
        if mode == 'analyze':
            text = 'analyze ' + text
        real = R.compile(text)
        try:
            has, found, has_model = R.contains_dml(text)
        except Exception as e:
            raise core.Infra(f'cannot parse hand-written context {text!r}: {e}')
        stats['extra'] += 1
        oc = ('ok:MOD' if real[1] & MOD else 'ok:none') if real[0] == 'ok' else f'rej:{real[1]}'
        outcome_hist['x:' + oc] = outcome_hist.get('x:' + oc, 0) + 1
        key = f'{mode}:{text}'
        if real[0] == 'ok':
            if has:
                distinct.add(text)
            if has and not (real[1] & MOD):
                ctx.fail('oracle:' + key, 'statement contains DML but the compiler did not attach MODIFICATIONS',
                         {'text': text, 'mode': mode, 'dml_nodes': found, 'capabilities': real[1]})
            if not has_model:
                precision['no_dml_cases'] += 1
                if real[1] & MOD:
                    precision['no_dml_flagged'] += 1
        elif real[1] == 'internal':
            internal.append({'text': text, 'error': real[2]})
        return real

    # ============================================================ level 2 (c)
    kinds_seen: dict[str, dict] = {}

    flag_hist: dict[str, dict] = {}

    def effective_key(key, kw, in_tx=False):
        """row of the table the statement takes in a context with flags `kw`: only the GLOBAL-scope
        ConfigOp rows look at a context flag (`ctx.notebook`); inside an explicit transaction (the
        notebook entry point opens one) migration commands do not open/close the transaction"""
        if key[0] == 'ConfigOp' and 'scope=GLOBAL' in key[1]:
            return ('ConfigOp', ('scope=GLOBAL', f'notebook={1 if kw.get("notebook") else 0}'))
        if in_tx and key == ('MigrationCommand', ('result=MigrationControlQuery', 'txAction=1')):
            return ('MigrationCommand', ('result=MigrationControlQuery', 'txAction=0'))
        return key

    def check_kind(key, pre, kw, stmt, stream='default'):
        """stream: 'default' | 'flag:<name>' (dataclasses.replace(ctx, flag=…)) | 'notebook-api'
        (the real Compiler.compile_notebook).  The expectation is the property's: the capability of
        the statement's kind, whatever the context flags (SET GLOBAL under notebook = the documented
        exception, follows the row)."""
        key = effective_key(key, kw, in_tx=(stream == 'notebook-api'))
        if stream == 'notebook-api':
            res = R.compile_notebook(pre + [stmt])
            if len(res) != len(pre) + 1:
                real = ('rej', 'other', 'prefix rejected: ' + str(res[-1][2:]))
                if res and res[-1][1] == 'internal':
                    real = res[-1]
            else:
                real = res[-1] if res[-1][0] == 'rej' else ('ok', res[-1][1], [res[-1][1]])
        else:
            sctx = R.fresh(**kw)
            for p in pre:
                r = R.compile(p, sctx)
                if r[0] != 'ok':
                    if stream == 'default':
                        ctx.log(f'kind scenario prefix failed: {p!r}: {r}')
                    return None
            real = R.compile(stmt, sctx)
        stats['kinds' if stream == 'default' else 'kinds_flagged'] += 1
        k = row_line('', key).strip()
        if stream == 'default':
            d = kinds_seen.setdefault(k, {'ok': 0, 'rejected': [], 'caps': set()})
        else:
            fh = flag_hist.setdefault(stream, {'accepted': 0, 'rejected': 0, 'internal': 0})
            fh['accepted' if real[0] == 'ok' else ('internal' if real[1] == 'internal' else 'rejected')] += 1
            d = {'ok': 0, 'rejected': [], 'caps': set()}
        if real[0] != 'ok':
            d['rejected'].append(f'{stmt}: {real[2][:100]}')
            return real
        d['ok'] += 1
        d['caps'].add(real[1])
        tag = '' if stream == 'default' else f'[{stream} {json.dumps(kw, sort_keys=True)}]'
        fkey = f'kind{tag}:{k}:{"; ".join(pre + [stmt])}'
        detail = {'kind_row': k, 'prefix': pre, 'ctx': kw, 'stmt': stmt, 'real': real[1], 'stream': stream}

        def cb_row(m):
            if m != str(real[1]):
                n_dis[0] += 1
                ctx.fail('corr:' + fkey, 'capabilities of the compiled statement differ from the row of the '
                         'generated dispatch table the harness expects it to take',
                         detail | {'table': m}, no_input=True)

        def cb_kind(m):
            p = m.split(' ')
            if len(p) != 2:
                ctx.fail('corr:' + fkey, 'no Kind for this row', detail | {'model': m}, no_input=True)
                return
            exp = int(p[1])
            if exp & ~real[1]:
                ctx.fail('oracle:' + fkey, 'statement lacks the capability its kind must carry'
                         + ('' if stream == 'default' else f' when compiled on a context with {kw} ({stream})'),
                         detail | {'expected': exp})
        ask(row_line('row', key), cb_row)
        ask(row_line('kind', key), cb_kind)
        return real

    def kinds_under_flags():
        """the kind table again on contexts with each boolean CompileContext flag flipped
        (flags enumerated from the source) and through the real compile_notebook entry"""
        flags, read = R.context_flags()
        ctx.cov['context_flags'] = {'all': {k: bool(v) for k, v in flags.items()}, 'read_by_server_compiler': sorted(read)}
        MS_CLASSES = {'Transaction', 'SessionCommand_tuple', 'ConfigOp', 'AdministerStmt'}
        others = sorted(f for f in flags if f != 'notebook')
        rot = others[ctx.seed % len(others)] if others else None     # quick: one flag (rotating with the seed) also gets the query / migration kinds
        for key, scen in KIND_SCENARIOS:
            for x in scen:
                slow = len(x) > 3
                if slow and ctx.quick():
                    continue
                pre, kw, stmt = list(x[0]), dict(x[1]), x[2]
                ddl = key[0] == 'DDLCommand'
                # the real notebook entry point
                if not kw and not (ctx.quick() and (ddl or stmt.startswith(('analyze', 'describe')) or 'cfg::Auth' in stmt)):
                    check_kind(key, pre, {'notebook': True}, stmt, 'notebook-api')
                for fl, default in sorted(flags.items()):
                    if fl in kw:
                        continue
                    if ctx.quick():
                        if ddl or stmt.startswith(('analyze', 'describe')) or 'cfg::Auth' in stmt:
                            continue
                        if fl != 'notebook' and not (
                                key[0] in ('ConfigOp', 'SessionCommand_tuple')
                                or (key[0] in MS_CLASSES and x is scen[0])
                                or (fl == rot and not pre)):
                            continue
                    elif fl != 'notebook' and ddl and slow:
                        continue
                    check_kind(key, pre, kw | {fl: not default}, stmt, f'flag:{fl}')

    # ============================================================ level 2 (d)
    def check_script(parts):
        """parts: list of (text, driver stmt tokens)"""
        text = '; '.join(p[0] for p in parts)
        real = R.compile(text, R.fresh())
        stats['scripts'] += 1
        key = 'script:' + text
        has_any = False
        for p in parts:
            has_any |= R.contains_dml(p[0])[0]
        if real[0] == 'ok':
            orr = 0
            for u in real[2]:
                orr |= u
            if orr != real[1] or len(real[2]) != len(parts):
                ctx.fail('oracle:' + key, 'group capabilities are not the OR of the unit capabilities',
                         {'script': text, 'group': real[1], 'units': real[2]})
            if has_any and not (real[1] & MOD):
                ctx.fail('oracle:' + key, 'script contains DML but lacks MODIFICATIONS',
                         {'script': text, 'group': real[1], 'units': real[2]})
        elif real[1] == 'internal':
            internal.append({'text': text, 'error': real[2]})

        def cb(m):
            if real[0] == 'rej' and real[1] in ('other', 'internal'):
                return
            rs = (f'ok {real[1]} ' + ','.join(map(str, real[2]))) if real[0] == 'ok' else f'rej {real[1]}'
            if rs != m:
                n_dis[0] += 1
                ctx.fail('corr:' + key, 'script: server compiler and model disagree',
                         {'script': text, 'parts': [list(p[1]) for p in parts], 'real': rs, 'model': m},
                         no_input=True)
        ask('script ' + ' ; '.join(' '.join(p[1]) for p in parts), cb)

    # ============================================================ level 2 (e): generated functions
    fn_hist = {'created': 0, 'created_modifying': 0, 'created_body_can_write': 0, 'rej:clause': 0,
               'rej:shape': 0, 'rej:volatility': 0, 'rej:other': 0, 'rej:internal': 0}
    fn_annot_hist: dict[str, int] = {}

    def closure(sp, by_name):
        out = []
        for d in sp.deps:
            if d in by_name:
                for x in closure(by_name[d], by_name) + [by_name[d]]:
                    if x not in out:
                        out.append(x)
        return out

    def create_functions(specs, base_schema, judge=True):
        """create the functions one by one (real DDL path) on top of `base_schema`; -> (schema, accepted)"""
        sch = base_schema
        by_name = {sp.name: sp for sp in specs}
        accepted = []
        for sp in specs:
            ddl = sp.ddl
            real = R.create_fn(sch, ddl, sp.name)
            stats['fn_created'] += 1
            fn_annot_hist[sp.annot] = fn_annot_hist.get(sp.annot, 0) + 1
            chain = closure(sp, by_name) + [sp]
            detail = {'fndef': {'name': sp.name, 'ddls': [x.ddl for x in chain], 'decls': [x.decl for x in chain]},
                      'meta': sp.meta}
            key = 'fndef:' + ' '.join(x.ddl for x in chain)
            if real[0] == 'ok':
                sch = real[1]
                accepted.append(sp)
                fn_hist['created'] += 1
                fn_hist['created_modifying'] += bool(real[2])
                fn_hist['created_body_can_write'] += bool(real[3])
                if judge and real[3] and not real[2]:
                    ctx.fail('oracle:' + key, 'the body of the function contains DML (' + real[3][0] + ') but the '
                             'function is stored with volatility ' + real[4] + ': calls of it are not recorded as DML',
                             detail | {'stored_volatility': real[4]})
                rs = f'ok {1 if real[2] else 0}'
            else:
                fn_hist['rej:' + real[1]] += 1
                if real[1] == 'internal':
                    internal.append({'text': ddl, 'error': real[2]})
                rs = f'rej {real[1]}'

            def cb(m, rs=rs, real=real, key=key, detail=detail):
                if real[0] == 'rej' and real[1] in ('other', 'internal'):
                    return
                ms = ' '.join(m.split(' ')[:2]) if m.startswith('ok') else m
                if ms != rs:
                    n_dis[0] += 1
                    ctx.fail('corr:' + key, 'create function: schema engine and model disagree on acceptance / '
                             'on whether the function is Modifying',
                             detail | {'real': rs, 'real_detail': real[2] if real[0] == 'rej' else real[4], 'model': m},
                             no_input=True)
            if sp.modelled:
                ask(sp.decl, cb if judge else (lambda m: None))
        return sch, accepted, by_name

    def check_fn_callers(accepted, by_name, sch, n_ctx):
        sctx2 = R.env.server_context(sch)
        names = sorted(CTX)
        for sp in accepted:
            chain_specs = closure(sp, by_name) + [sp]
            fd = {'callee': sp.name, 'ddls': [x.ddl for x in chain_specs], 'decls': [x.decl for x in chain_specs]}
            chains = [[]] + [[rng.choice(names) for _ in range(rng.choice([1, 1, 2]))]
                             for _ in range(n_ctx if n_ctx >= 1 else int(rng.random() < 0.3))]
            for ch in chains:
                mode = 'analyze' if rng.random() < 0.1 else 'query'
                check_term(build(ch, sp.call), mode, {'chain': ch, 'callee': sp.meta}, sctx2, sch, fd,
                           model=sp.modelled and not any(c.startswith('free') for c in ch))

    def check_plain(text, sctx, schema, fn_detail):
        """oracle only: a statement over a schema with hand-written functions"""
        real = R.compile(text, sctx)
        has, found, _hm = R.contains_dml(text, schema)
        stats['fn_callers'] += 1
        oc = ('ok:MOD' if real[1] & MOD else 'ok:none') if real[0] == 'ok' else f'rej:{real[1]}'
        outcome_hist['fx:' + oc] = outcome_hist.get('fx:' + oc, 0) + 1
        if real[0] == 'ok' and has:
            distinct.add(text + ' / ' + fn_detail['ddls'][-1])
            if not (real[1] & MOD):
                ctx.fail(f'oracle:fn:{fn_detail["callee"]}:query:{text} / ' + ' '.join(fn_detail['ddls']),
                         'executing the statement can write (DML, transitively, in the stored body of a called '
                         'function) but the compiler did not attach MODIFICATIONS',
                         {'text': text, 'mode': 'query', 'dml_nodes': found, 'capabilities': real[1],
                          'fn': fn_detail})
        elif real[0] == 'rej' and real[1] == 'internal':
            internal.append({'text': text, 'error': real[2]})

    hist_stats = {'histories': 0, 'steps': 0, 'steps_accepted': 0, 'fn_states': 0, 'writing_fn_states': 0,
                  'caller_compiles': 0, 'stale_nonwriting_modifying': 0}

    def run_history(tag, names, steps, prefix, upto=None, only=None):
        """apply the DDL steps one by one through the real DDL path; after every step judge every
        function of the history against the CURRENT definitions"""
        hist_stats['histories'] += 1
        sch = R.schema
        steps = [st.replace('P_', prefix + '_') for st in steps]
        fnames = [prefix + '_' + n for n in names]
        last = {}
        for i, st in enumerate(steps if upto is None else steps[:upto + 1]):
            hist_stats['steps'] += 1
            try:
                sch2 = R.env.run_ddl(sch, st)
                accepted = True
            except R.errors.EdgeDBError:
                sch2, accepted = sch, False
            except Exception as e:
                internal.append({'text': '; '.join(steps[:i + 1]), 'error': f'{type(e).__name__}: {e}'[:200]})
                sch2, accepted = sch, False
            if not accepted:
                continue
            hist_stats['steps_accepted'] += 1
            sch = sch2
            R._schemas.append(sch)
            memo = R._memo.setdefault(id(sch), {})
            final = (i == len(steps) - 1)
            sctx = None
            for fn_name in fnames:
                fns = sch.get_functions('default::' + fn_name, default=())
                if not fns:
                    last.pop(fn_name, None)
                    continue
                fn = fns[0]
                w = R.fn_can_write(sch, fn, memo)
                vol = str(fn.get_volatility(sch))
                hist_stats['fn_states'] += 1
                hist_stats['writing_fn_states'] += bool(w)
                if not w and vol == 'Modifying':
                    hist_stats['stale_nonwriting_modifying'] += 1
                detail = {'history': {'tag': tag, 'names': names, 'steps': [x.replace(prefix + '_', 'P_') for x in steps],
                                      'prefix': prefix, 'upto': i}, 'fn': fn_name, 'stored_volatility': vol,
                          'writes_via': w[:1]}
                hkey = f'hist:{tag}:{" ".join(steps[:i + 1])} :: {fn_name}'
                if w and vol != 'Modifying':
                    ctx.fail('oracle:' + hkey, f'after this DDL history {fn_name}() writes (per the current bodies: '
                             f'{w[0]}) but is stored with volatility {vol}', detail)
                state = (bool(w), vol)
                if last.get(fn_name) == state and not final:
                    continue
                last[fn_name] = state
                if only is not None and fn_name != only:
                    continue
                # quick tier: statements only for the top of the call graph (and for any function caught
                # with a wrong stored volatility); thorough: every function whose state changed
                present = [n for n in fnames if sch.get_functions('default::' + n, default=())]
                if ctx.quick() and replay is None and fn_name != present[-1] and not (w and vol != 'Modifying'):
                    continue
                if sctx is None:
                    sctx = R.env.server_context(sch)
                texts = [f'select {fn_name}()']
                if final or (w and not ctx.quick()) or (w and vol != 'Modifying'):
                    texts.append(rng.choice([f'select 1; select {fn_name}()', f'with x := {fn_name}() select x',
                                             f'analyze select {fn_name}()', f'select count({fn_name}())']))
                for t in texts:
                    real = R.compile(t, sctx)
                    hist_stats['caller_compiles'] += 1
                    if real[0] == 'ok':
                        if w:
                            distinct.add(hkey + t)
                        if w and not (real[1] & MOD):
                            ctx.fail('oracle:' + hkey + ' :: ' + t, f'after this DDL history `{t}` executes '
                                     f'{fn_name}() which writes ({w[0]}) but the statement carries no MODIFICATIONS '
                                     f'(stored volatility of {fn_name}: {vol})', detail | {'text': t, 'capabilities': real[1]})
                        if not w:
                            precision['no_dml_cases'] += 1
                            precision['no_dml_flagged'] += bool(real[1] & MOD)
                    elif real[1] == 'internal':
                        internal.append({'text': t, 'error': real[2]})

    def group_binding_probe():
        """KNOWN CANDIDATE in the unmodified code: `__infer_group_stmt` ignores the WITH bindings of a GROUP
        statement, so a function whose only DML is `with x := (insert …) group …` is stored Stable/Volatile.
        Fixed names and texts => stable keys `oracle:group-bindings:*`."""
        probes = [
            ('gw1', 'select count((with x := (insert Log { msg := "gw" }) group User by .name))'),
            ('gw2', 'select count((with x := (insert Log { msg := "gw" }) group User using r := random() by r))'),
            ('gw3', 'select count((with x := (delete Log) group User by .name))'),
            ('gw4', 'select count((with x := (update Log set { n := 1 }), y := 1 group User by .name))'),
            ('gw5', 'select gw1()'),                                   # chain
            ('gw6', 'with x := (insert Log { msg := "gw" }) select count((group User by .name))'),   # control
        ]
        sch = R.schema
        made = []
        for name, body in probes:
            ddl = f'create function {name}() -> set of int64 using ({body});'
            real = R.create_fn(sch, ddl, name)
            stats['fn_created'] += 1
            if real[0] != 'ok':
                continue
            sch = real[1]
            made.append((name, ddl, real))
            if real[3] and not real[2]:
                ctx.fail(f'oracle:group-bindings:def:{name}', f'`{ddl}`: the body contains DML ({real[3][0]}) but the '
                         f'function is stored with volatility {real[4]}', {'group_probe': True, 'ddl': ddl,
                                                                           'stored_volatility': real[4]})
        sctx2 = R.env.server_context(sch)
        for name, ddl, real in made:
            for t in (f'select {name}()', f'select 1; select {name}()'):
                r = R.compile(t, sctx2)
                stats['fn_callers'] += 1
                w = R.contains_dml(t, sch)
                if r[0] == 'ok' and w[0] and not (r[1] & MOD):
                    ctx.fail(f'oracle:group-bindings:call:{name}:{t}', f'`{t}` executes {name}() whose body writes '
                             f'({w[1][0]}) but carries capabilities {r[1]} (no MODIFICATIONS); {ddl}',
                             {'group_probe': True, 'ddl': ddl, 'text': t, 'capabilities': r[1]})

    def extra_function_bodies():
        """function bodies outside MiniQL (free-object shapes inside tuples, arrays, ??, IF, FOR, nested
        free objects...), volatility NOT declared, created through the real DDL path; oracle only"""
        sch = R.schema
        made = []
        n = 0
        tmpls = list(FN_EXTRA_BODIES)
        if ctx.quick():      # the core free-object positions always, a rotating sample of the rest
            tmpls = tmpls[:8] + rng.sample(tmpls[8:], 5)
        for tmpl in tmpls:
            lks = list(FN_EXTRA_LEAVES)
            if ctx.quick():
                lks = [rng.choice(['insert', 'update', 'delete'])] + ([rng.choice(['mklog', 'pure'])]
                                                                         if rng.random() < 0.2 else [])
            for lk in lks:
                name = f'fx{n}'
                n += 1
                body = tmpl.format(D=FN_EXTRA_LEAVES[lk])
                ddl = f'create function {name}() -> set of int64 using ({body});'
                real = R.create_fn(sch, ddl, name)
                stats['fn_created'] += 1
                fn_annot_hist['extra:none'] = fn_annot_hist.get('extra:none', 0) + 1
                if real[0] != 'ok':
                    fn_hist['rej:' + real[1]] += 1
                    if real[1] == 'internal':
                        internal.append({'text': ddl, 'error': real[2]})
                    continue
                sch = real[1]
                fn_hist['created'] += 1
                fn_hist['created_modifying'] += bool(real[2])
                fn_hist['created_body_can_write'] += bool(real[3])
                ddls = [ddl]
                if real[3] and not real[2]:
                    ctx.fail('oracle:fndef:' + ddl, 'the body of the function contains DML (' + real[3][0] + ') but '
                             'the function is stored with volatility ' + real[4] + ': calls of it are not recorded '
                             'as DML', {'fndef': {'name': name, 'ddls': ddls, 'decls': [f'decl {name} none L 0']},
                                        'stored_volatility': real[4]})
                made.append((name, ddls))
                check_body_inference(body, R.schema, [], name)
                if rng.random() < (0.25 if ctx.quick() else 1.0):     # chain g -> f
                    g = f'gx{n}'
                    gddl = f'create function {g}() -> set of int64 using ({rng.choice(["select ", "select 1 + ", ""])}{name}());'
                    r2 = R.create_fn(sch, gddl, g)
                    stats['fn_created'] += 1
                    if r2[0] == 'ok':
                        sch = r2[1]
                        fn_hist['created'] += 1
                        fn_hist['created_modifying'] += bool(r2[2])
                        fn_hist['created_body_can_write'] += bool(r2[3])
                        if r2[3] and not r2[2]:
                            ctx.fail('oracle:fndef:' + ddl + ' ' + gddl, 'the body of the function calls a function '
                                     'whose body contains DML (' + r2[3][0] + ') but the function is stored with '
                                     'volatility ' + r2[4],
                                     {'fndef': {'name': g, 'ddls': [ddl, gddl],
                                                'decls': [f'decl {name} none L 0', f'decl {g} none L 0']},
                                      'stored_volatility': r2[4]})
                        made.append((g, [ddl, gddl]))
                    else:
                        fn_hist['rej:' + r2[1]] += 1
        sctx2 = R.env.server_context(sch)
        for name, ddls in made:
            fd = {'callee': name, 'ddls': ddls,
                  'decls': [f'decl {d.split(" ")[2].split("(")[0]} none L 0' for d in ddls]}
            texts = [f'select {name}()']
            if not ctx.quick() or rng.random() < 0.15:
                texts.append(rng.choice([f'with x := {name}() select x', f'for x in {{1, 2}} union {name}() + x',
                                         f'select count((select Log filter .n = 1)) + {name}()',
                                         f'select {{ 0, {name}() }}', f'analyze select {name}()']))
            for t in texts:
                check_plain(t, sctx2, sch, fd)

    vol_hist = {'bodies': 0, 'can_write': 0}

    def check_body_inference(body_stmt, schema, ddls, name):
        """the mechanism under the function-call flag: volatility inference of a body whose AST contains
        DML (transitively) must say Modifying, and must not depend on how warm the inference cache is"""
        r = R.body_volatility(schema, body_stmt)
        if r is None:
            return
        warm, cold = r
        w = R.contains_dml(body_stmt, schema)[0]
        vol_hist['bodies'] += 1
        vol_hist['can_write'] += bool(w)
        detail = {'volinfer': {'body': body_stmt, 'ddls': ddls, 'name': name}, 'warm': warm, 'cold': cold,
                  'example_statement': f'select {name}()'}
        if w and warm != 'Modifying':
            # the value CREATE FUNCTION stores is wrong: `select f()` loses MODIFICATIONS -- a failing input
            ctx.fail('oracle:volinfer:' + body_stmt, 'volatility inference of a function body that contains DML '
                     f'is not Modifying (as compiled: {warm}; re-inferred on the finished IR with an empty '
                     f'inference cache: {cold}); CREATE FUNCTION stores this value and `select {name}()` is '
                     'flagged MODIFICATIONS only if it is Modifying', detail)
        elif warm != cold:
            # the stored value (and hence every flag) is still right; only the inference FUNCTION no longer
            # agrees with itself from a cold cache.  That is a broken correspondence (the model's inference
            # is a function of the term), not a statement with wrong capabilities: reported without a
            # failing input (no-failing-input-found), never as a wrongly flagged statement.
            ctx.fail('corr:volinfer-cold-cache:' + body_stmt, 'volatility inference depends on the state of the '
                     f'inference cache (as compiled: {warm}, from scratch on the finished IR: {cold}); the value '
                     f'stored by CREATE FUNCTION and the flags of `select {name}()` are unaffected', detail,
                     no_input=True)

    # ------------------------------------------------------------ populations
    gp_done: list = []
    if replay is not None:
        for f in replay:
            d = f.get('detail') or {}
            if not isinstance(d, dict):
                continue
            if d.get('l1') == 'group':
                l1_group(d['caps'])
            elif d.get('l1') == 'mkerr':
                l1_mkerr(d['s'], d['a'])
            elif d.get('group_probe'):
                if not gp_done:
                    group_binding_probe()
                    gp_done.append(1)
            elif 'history' in d:
                h = d['history']
                run_history(h['tag'], h['names'], h['steps'], h['prefix'], upto=h['upto'])
            elif 'volinfer' in d:
                sch = R.schema
                for ddl in d['volinfer']['ddls']:
                    real = R.create_fn(sch, ddl, ddl.split(' ')[2].split('(')[0])
                    if real[0] != 'ok':
                        break
                    sch = real[1]
                check_body_inference(d['volinfer']['body'], sch, d['volinfer']['ddls'], d['volinfer']['name'])
            elif 'fndef' in d:
                sps = []
                for ddl, decl in zip(d['fndef']['ddls'], d['fndef']['decls']):
                    sps.append((ddl, decl))
                sch = R.schema
                for i, (ddl, decl) in enumerate(sps):
                    nm = decl.split(' ')[1]
                    real = R.create_fn(sch, ddl, nm)
                    ask(decl, lambda m: None)
                    if real[0] != 'ok':
                        break
                    sch = real[1]
                    if i == len(sps) - 1 and real[3] and not real[2]:
                        ctx.fail(f['key'], f['what'], d)
            elif 'fn' in d:
                sch = R.schema
                okk = True
                for ddl, decl in zip(d['fn']['ddls'], d['fn']['decls']):
                    real = R.create_fn(sch, ddl, decl.split(' ')[1])
                    ask(decl, lambda m: None)
                    if real[0] != 'ok':
                        okk = False
                        break
                    sch = real[1]
                if okk and 'toks' not in d:
                    check_plain(d['text'], R.env.server_context(sch), sch, d['fn'])
                elif okk:
                    e = E('?', tuple(d['toks']), '', top=d['text'][8:] if d['mode'] == 'analyze' else d['text'])
                    check_term(e, d['mode'], d.get('meta'), R.env.server_context(sch), sch, d['fn'])
            elif 'toks' in d:
                e = E('?', tuple(d['toks']), '', top=d['text'][8:] if d['mode'] == 'analyze' else d['text'])
                m_ = d.get('meta') or {}
                check_term(e, d['mode'], d.get('meta'), model=modelled(m_.get('chain', []), m_.get('leaf', 'lit')))
            elif 'kind_row' in d:
                k = d['kind_row'].split(' ')
                check_kind((k[0], tuple(k[1:])), d['prefix'], d['ctx'], d['stmt'], d.get('stream', 'default'))
            elif 'parts' in d:
                texts = d['script'].split('; ')
                check_script(list(zip(texts, [tuple(p) for p in d['parts']])))
            elif 'text' in d:
                real = R.compile(d['text'])
                has, found, _hm = R.contains_dml(d['text'])
                if real[0] == 'ok' and has and not (real[1] & MOD):
                    ctx.fail(f['key'], f['what'], d)
    else:
        # ---- level 1
        for a in range(32):
            for s in range(32):
                if ctx.quick() and (a * 32 + s) % 4 != ctx.seed % 4:
                    continue
                l1_mkerr(s, a)
        for _ in range(ctx.budget(400, 5000)):
            l1_mkerr(rand_caps(), rand_caps())
        l1_mkerr(int(Cap.MODIFICATIONS | Cap.DDL), int(~Cap.WRITE))
        for _ in range(ctx.budget(400, 5000)):
            l1_group([rand_caps() for _ in range(rng.randrange(0, 6))])

        # ---- level 2 (a): every context x every leaf, then compositions
        names = sorted(CTX)
        t0 = time.time()
        ALWAYS = ['insert', 'update', 'delete', 'mklog', 'logs']
        OTHERS = ['mkinf', 'mk2', 'noop', 'rd', 'rd2', 'lit']
        QUICK_OTHERS = ['delete', 'mklog', 'mkinf', 'mk2', 'noop', 'rd', 'rd2', 'lit', 'logs']
        for cn in names:
            for lk in (['insert', 'update'] + rng.sample(QUICK_OTHERS, 2) if ctx.quick() else ALWAYS + OTHERS):
                e = build([cn], lk)
                check_term(e, 'query', {'chain': [cn], 'leaf': lk}, model=modelled([cn], lk))
                ctx_hist[cn] = ctx_hist.get(cn, 0) + 1
                leaf_hist[lk] = leaf_hist.get(lk, 0) + 1
                if lk in ('insert', 'mkinf', 'rd') and (not ctx.quick() or rng.random() < 0.25):
                    check_term(e, 'analyze', {'chain': [cn], 'leaf': lk}, model=modelled([cn], lk))
        # bare leaves as whole statements
        for lk in DML_LEAVES + PURE_LEAVES:
            check_term(leaf(lk), 'query', {'chain': [], 'leaf': lk})
            check_term(leaf(lk), 'analyze', {'chain': [], 'leaf': lk})
        ctx.log(f'depth-1 contexts done: {stats["terms"]} compiles in {time.time() - t0:.1f}s')
        n_rand = ctx.budget(60, 2000)
        if not ctx.quick():
            # all depth-2 compositions, one random leaf each
            for c1 in names:
                for c2 in names:
                    for lk in (rng.choice(['insert', 'insert', 'update', 'delete', 'mklog', 'mkinf', 'mk2', 'noop', 'rd', 'logs']),):
                        check_term(build([c1, c2], lk), 'query', {'chain': [c1, c2], 'leaf': lk},
                                   model=modelled([c1, c2], lk))
        for _ in range(n_rand):
            depth = rng.choice([2, 2, 3, 3, 4])
            chain = [rng.choice(names) for _ in range(depth)]
            lk = rng.choice(DML_LEAVES * 3 + PURE_LEAVES)
            for c in chain:
                ctx_hist[c] = ctx_hist.get(c, 0) + 1
            leaf_hist[lk] = leaf_hist.get(lk, 0) + 1
            check_term(build(chain, lk), 'analyze' if rng.random() < 0.15 else 'query',
                       {'chain': chain, 'leaf': lk}, model=modelled(chain, lk))
        ctx.log(f'MiniQL terms done: {stats["terms"]} compiles in {time.time() - t0:.1f}s')

        # ---- level 2 (e): functions whose body has the DML in every context, and their callers
        t0 = time.time()
        specs = gen_fn_specs(rng, ctx.quick())
        sch_fn, accepted, by_name = create_functions(specs, R.schema)
        ctx.log(f'{len(specs)} generated functions through the real DDL path in {time.time() - t0:.1f}s: {fn_hist}')
        check_fn_callers(accepted, by_name, sch_fn, 0 if ctx.quick() else 3)
        for sp in accepted:
            if ctx.quick() and not (sp.meta['chain'] and sp.meta['chain'][0].startswith('free')) and rng.random() > 0.25:
                continue
            stmt = sp.body.top if (sp.top and sp.body.top) else 'select ' + sp.body.text
            check_body_inference(stmt, sch_fn, [x.ddl for x in closure(sp, by_name)], sp.name)
        ctx.log(f'callers of generated functions done: {stats["fn_callers"]} compiles, {time.time() - t0:.1f}s')
        t0 = time.time()
        extra_function_bodies()
        t_extra = time.time() - t0
        group_binding_probe()
        t0 = time.time()
        fh = fixed_histories()
        if ctx.quick():      # the two basic shapes always, two of the other six rotating with the seed
            rest = fh[2:]
            fh = fh[:2] + [rest[(2 * ctx.seed) % len(rest)], rest[(2 * ctx.seed + 1) % len(rest)]]
        for k, (tag, hnames, hsteps) in enumerate(fh):
            run_history(tag, hnames, hsteps, f'hf{k}')
        for k in range(ctx.budget(0, 150)):
            tag, hnames, hsteps = random_history(rng, k)
            run_history(tag, hnames, hsteps, f'hr{k}')
        ctx.log(f'function histories done in {time.time() - t0:.1f}s: {hist_stats}')
        ctx.log(f'hand-written function bodies (free-object shapes ...) and their callers done in '
                f'{t_extra:.1f}s: {fn_hist}')

        # ---- level 2 (b)
        for tmpl in EXTRA_CONTEXTS:
            lks = list(EXTRA_LEAVES)
            if ctx.quick():
                lks = rng.sample(EXTRA_DML, 1) + rng.sample(EXTRA_DML + ['pure', 'purefn'], 1)
            for lk in lks:
                check_extra(tmpl, lk)
                if lk in ('insert', 'mklog') and (not ctx.quick() or rng.random() < 0.2):
                    check_extra(tmpl, lk, 'analyze')
        ctx.log(f'hand-written contexts done: {stats["extra"]} compiles')

        # ---- level 2 (c)
        t0 = time.time()
        for key, scen in KIND_SCENARIOS:
            sc = [x for x in scen if not (ctx.quick() and len(x) > 3)]
            if key[0] == 'DDLCommand' and ctx.quick():
                sc = rng.sample(sc, QUICK_DDL_SAMPLE)
            for x in sc:
                check_kind(key, list(x[0]), dict(x[1]), x[2])
        ctx.log(f'statement kinds done: {stats["kinds"]} statements in {time.time() - t0:.1f}s')
        t0 = time.time()
        kinds_under_flags()
        ctx.log(f'statement kinds under context flags done: {stats["kinds_flagged"]} statements in '
                f'{time.time() - t0:.1f}s: {flag_hist}')

        # ---- level 2 (d): scripts
        cmd_pool = [
            ('set alias foo as module std', ('cmd', 'SessionCommand_tuple')),
            ('reset alias *', ('cmd', 'SessionCommand_tuple')),
            ("configure session set query_execution_timeout := <duration>'10s'", ('cmd', 'ConfigOp', 'scope=SESSION')),
            ('set global g := 1', ('cmd', 'ConfigOp', 'scope=GLOBAL', 'notebook=0')),
            ("configure current database set query_execution_timeout := <duration>'10s'",
             ('cmd', 'ConfigOp', 'scope=DATABASE')),
        ]
        if not ctx.quick():
            cmd_pool.append(('create module scr1', ('cmd', 'DDLCommand')))
        for _ in range(ctx.budget(30, 300)):
            parts = []
            for _ in range(rng.randrange(2, 6)):
                r = rng.random()
                if r < 0.3:
                    parts.append(rng.choice(cmd_pool))
                else:
                    chain = [rng.choice(names) for _ in range(rng.choice([0, 1, 2]))]
                    lk = rng.choice(DML_LEAVES + PURE_LEAVES * 2)
                    if not modelled(chain, lk):
                        chain = [c for c in chain if not c.startswith('free')]
                    e = build(chain, lk)
                    mode = 'analyze' if rng.random() < 0.1 else 'query'
                    parts.append((stmt_text(e, mode), (mode, *e.toks)))
            check_script(parts)

    # ------------------------------------------------------------ model side
    model = ctx.driver('C08', lines) if lines else []
    if len(model) != len(lines):
        raise core.Infra(f'driver returned {len(model)} lines for {len(lines)}')
    for ln, m, cb in zip(lines, model, after):
        if m == 'bad-op':
            raise core.Infra(f'driver rejected line {ln!r}')
        cb(m)

    # kinds: every generated row must have been exercised by at least one accepted statement
    if replay is None and gen_info is not None:
        def key_of(row):
            cs = []
            for k, v in row['conds']:
                cs.append(f'{k}={int(v) if isinstance(v, bool) else v}')
            return ' '.join([row['cls'], *cs])
        for row in gen_info['rows']:
            k = key_of(row)
            d = kinds_seen.get(k)
            if d is None:
                ctx.fail(f'kind-uncovered:{k}', 'a row of the generated dispatch table has no representative '
                         'statement in the harness (new branch / condition in _compile_dispatch_ql)',
                         {'row': row}, no_input=True)
            elif d['ok'] == 0:
                ctx.fail(f'kind-unexercised:{k}', 'every representative statement of this row was rejected',
                         {'row': row, 'rejected': d['rejected']}, no_input=True)
    if internal:
        ctx.notes.append(f'{len(internal)} statements made the real compiler raise a non-EdgeDB exception '
                         f'(not judged): {internal[:3]}')
    if not proved:
        ctx.proof_broken_verdict()

    kinds_cov = {k: {'accepted': v['ok'], 'rejected': len(v['rejected']), 'caps': sorted(v['caps'])}
                 for k, v in kinds_seen.items()}
    rej_kinds = {k: v['rejected'] for k, v in kinds_seen.items() if v['rejected']}
    ctx.cov.update({
        'evaluations': len(lines) + stats['extra'],
        'distinct_nontrivial': len(distinct),
        'rule': 'level 2: distinct statement texts that contain a DML node (independent walk of the real parsed '
                'tree) and went through the real server compiler; contexts = ' + str(len(CTX)) +
                ' single-hole MiniQL contexts (x 11 leaves, composed to depth 2-4) + ' + str(len(EXTRA_CONTEXTS)) +
                ' hand-written contexts x ' + str(len(EXTRA_LEAVES)) + ' leaves; level 1 and statement-kind '
                'cases are counted in `evaluations` only',
        'samples': samples[:6] + [f'kinds: {k} -> {v["caps"]}' for k, v in list(kinds_cov.items())[:3]],
        'counts': stats,
        'outcome_histogram': outcome_hist,
        'context_histogram': ctx_hist,
        'leaf_histogram': leaf_hist,
        'rejected_for_unmodelled_reasons': unmodelled,
        'rejected_for_unmodelled_reasons_samples': unmodelled_samples,
        'internal_errors': len(internal),
        'precision_record': precision,
        'generated_functions': fn_hist,
        'body_volatility_inference': vol_hist,
        'function_histories': hist_stats,
        'statement_kinds_under_context_flags': flag_hist,
        'generated_functions_by_annotation': fn_annot_hist,
        'statement_kinds': kinds_cov,
        'statement_kinds_rejected_examples': rej_kinds,
        'generated_table': gen_info and {'rows': gen_info['rows'], 'n_classes': len(gen_info['classes']),
                                         'chain': gen_info['chain']},
        'disagreements_model_vs_impl': n_dis[0],
        'exhaustive': False,
        'correspondence': 'real edb.server.compiler.compiler.compile (CompileContext over a schema loaded by the '
                          'real migration path) vs Lean EdbVerif.Caps.stmtCaps/scriptCaps: outcome class '
                          '(capabilities | rejected: clause/shape) compared exactly; QueryUnitGroup.append vs '
                          'groupCaps; Capability.make_error and `& ~allowed` vs makeError/exceeds; statement '
                          'kinds vs rows of the regenerated table',
    })
    ctx.assumptions += [
        'the EdgeQL text -> qlast step uses the front-end bridge (real tokenizer, real grammar actions, '
        're-created LR driver), not the native parser',
        'effects are those of the MiniQL semantics `run`: the SQL produced by the real compiler is not executed; '
        'that the real compiler visits every sub-expression is tested by the planted-DML runs, not proved',
        'a function is treated as mutating iff its volatility in the schema is Modifying; schema/functions.py '
        'infers Modifying for bodies with DML and rejects lower declared volatilities (tested: mkinf, mk2)',
        'free-object shapes, GROUP, tuples/arrays, ?? and typing/cardinality rejections are outside MiniQL: '
        'covered by the oracle on hand-written contexts only',
        'capability values above 64 bits are outside the model (Capability.ALL is the 64-bit mask)',
    ]
    ctx.trusted_base += [
        'hand-written model EdbVerif/Model/Caps.lean (record/run/stmtCaps) tied by the differential run',
        'harness/gen/caps.py (AST walk of _compile_dispatch_ql + imports of enums/qlast/status) producing '
        'EdbVerif/Gen/Caps.lean; its rows are re-checked against compiled statements of every kind',
        'harness/props/c08.py: term renderer, oracle tree walk, statement-kind scenarios',
        'harness/bridge (LR driver around the real grammar) and shims for native modules',
    ]
