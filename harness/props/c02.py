"""C02 — a computed migration turns the old schema into exactly the new one.

Proof: lean/EdbVerif/Props/C02.lean over Model/Schema.lean
  (planner = model of ``delta_objects``; flat schema algebra with diff/apply).

Tie, level 1: the REAL ``edb.schema.delta.delta_objects`` is driven with synthetic
  objects (props/c02_level1.py) and compared with ``EdbVerif.Schema.planObjs``:
  creates / alters / deletes, their order and their confidence annotations.
  The planner-completeness theorem is also evaluated as an oracle on the real
  output.

Tie, level 2 (bridge): pairs of SDL schemas from the feature-directed generator
  (props/schema_common.py) are migrated by the real engine along the path
  upstream's tests use (START MIGRATION TO / POPULATE / COMMIT =
  apply_sdl -> delta_schemas -> ddlast_from_delta -> CREATE MIGRATION apply);
  oracle S: the result equals the independently loaded target — delta_schemas
  empty both ways AND an independent structural dump (ids ignored) — and the
  same after replaying the migration's DDL as TEXT (stored script, and
  ``ddl_text_from_delta``).
"""
from __future__ import annotations

import hashlib
import json
import time
import traceback

from lib import core

PROPS = 'EdbVerif/Props/C02.lean'
REQUIRED = [
    'EdbVerif.C02.diff_partition_new', 'EdbVerif.C02.diff_partition_old', 'EdbVerif.C02.diff_matching',
    'EdbVerif.C02.diff_partition', 'EdbVerif.C02.diff_thresholds', 'EdbVerif.C02.C02_apply_diff',
    'EdbVerif.C02.C02_any_order',
]


def h8(*parts) -> str:
    return hashlib.sha1('\x00'.join(parts).encode()).hexdigest()[:8]


# ------------------------------------------------------------------ level 1
def run_level1(ctx: core.Ctx, cases) -> dict:
    import shim  # noqa: F401  (stubs for the native modules; must precede edb imports)
    from props import c02_level1 as l1
    t0 = time.time()
    lines, reals = [], []
    for c in cases:
        lines.append(l1.to_line(c))
        try:
            reals.append(l1.run_real(c))
        except Exception as e:                                  # the real planner blew up
            reals.append((f'exc {type(e).__name__}', {'bad': [f'exception {e!r}'], 'C': [], 'A': [], 'D': []}))
    model = ctx.driver('C02', lines)
    if len(model) != len(lines):
        raise core.Infra(f'driver returned {len(model)} lines for {len(lines)}')
    hist = {'ok': 0, 'cycle': 0, 'exc': 0}
    shape = {'alters': 0, 'identical': 0, 'creates': 0, 'deletes': 0, 'with_renames': 0, 'with_guidance': 0,
             'inheriting': 0, 'ties_in_matrix': 0}
    n_dis, distinct = 0, set()
    for c, line, (real, info), m in zip(cases, lines, reals, model):
        kind = real.split(' ')[0]
        hist[kind] = hist.get(kind, 0) + 1
        ms, same = l1.strip_same(m)
        bad = l1.oracle(c, info) if kind == 'ok' else (info.get('bad', []) if kind == 'exc' else [])
        for b in bad:
            ctx.fail(f'l1-oracle:{h8(line)}', 'delta_objects: ' + b, {'case_line': line, 'case': _jsonable(c), 'real': real})
        if ms != real:
            n_dis += 1
            if not bad:
                ctx.fail(f'l1-corr:{h8(line)}', 'planner model and delta_objects disagree (partition property holds on this input)',
                         {'case_line': line, 'case': _jsonable(c), 'real': real, 'model': m,
                          'stream': 'edb.schema.delta.delta_objects vs EdbVerif.Schema.planObjs'}, no_input=True)
        if kind == 'ok':
            shape['alters'] += len(info['A'])
            shape['identical'] += len(same)
            shape['creates'] += len(info['C'])
            shape['deletes'] += len(info['D'])
            shape['with_renames'] += bool(c['renames'])
            shape['with_guidance'] += c['guidance'] is not None
            shape['inheriting'] += c['inh']
            vals = list(c['sim'].values())
            shape['ties_in_matrix'] += len(vals) != len(set(vals))
            if len(c['sim']) >= 2:
                distinct.add(line)
    ctx.log(f'level 1: {len(cases)} matrices through real delta_objects in {time.time() - t0:.1f}s; '
            f'outcomes {hist}; disagreements {n_dis}')
    return {'n': len(cases), 'outcomes': hist, 'shape': shape, 'disagreements': n_dis,
            'distinct_nontrivial': len(distinct),
            'samples': [lines[i] + ' => ' + reals[i][0] for i in sorted({0, len(lines) // 2, len(lines) - 1})] if lines else []}


def _jsonable(c):
    d = dict(c)
    d['sim'] = [[y, x, v] for (y, x), v in c['sim'].items()]
    d['sub'] = [[y, x, v] for (y, x), v in c['sub'].items()]
    return d


def _unjson(d):
    c = dict(d)
    c['sim'] = {(y, x): v for y, x, v in d['sim']}
    c['sub'] = {(y, x): v for y, x, v in d['sub']}
    c['renames'] = [tuple(r) for r in d['renames']]
    c['noise_renames'] = [tuple(r) for r in d['noise_renames']]
    if d['guidance'] is not None:
        c['guidance'] = {'C': d['guidance']['C'], 'D': d['guidance']['D'], 'A': [tuple(a) for a in d['guidance']['A']]}
    return c


# ------------------------------------------------------------------ level 2
class Engine:
    """the real engine behind a few memoised helpers (loads are cached by SDL text)"""

    def __init__(self):
        from props import schema_common as sc
        sc.setup()
        self.sc = sc
        self._loaded: dict = {}
        self._sdltext: dict = {}
        self.t = {'load': 0.0, 'migrate': 0.0, 'dump': 0.0, 'replay': 0.0, 'n_load': 0, 'n_migrate': 0}

    def load(self, sdl):
        if sdl not in self._loaded:
            t = time.time()
            try:
                s = self.sc.load_sdl(sdl)
                self._loaded[sdl] = (s, self.sc.dump(s), None)
            except Exception as e:
                self._loaded[sdl] = (None, None, e)
            self.t['load'] += time.time() - t
            self.t['n_load'] += 1
        return self._loaded[sdl]

    def sdl_text(self, sdl, schema):
        """DESCRIBE SCHEMA AS SDL text of a loaded target (memoised)"""
        if sdl not in self._sdltext:
            from edb.schema import ddl as s_ddl
            self._sdltext[sdl] = s_ddl.sdl_text_from_schema(schema)
        return self._sdltext[sdl]

    def migrate(self, schema, sdl):
        t = time.time()
        try:
            return self.sc.migrate(schema, sdl), None
        except Exception as e:
            return None, e
        finally:
            self.t['migrate'] += time.time() - t
            self.t['n_migrate'] += 1


def err_class(e: BaseException) -> str:
    return type(e).__name__


def first_sig(diffs) -> str:
    """stable signature of a difference list (used in finding keys so that a known finding can be
    matched by class with a key_regex): the set of `Class.field` of the differing dump entries
    (`+Class` / `-Class` for missing / extra objects); `engine-diff-only` when only
    delta_schemas sees a difference."""
    sig = set()
    for d in diffs:
        parts = d.split(' ')
        if parts[0] in ('+', '-') and len(parts) > 1:
            sig.add(parts[0] + parts[1])
        elif parts[0] == '~' and len(parts) > 3:
            fld = [p for p in parts if p.startswith('.') and p.endswith(':')]
            sig.add(parts[1] + (fld[0].rstrip(':') if fld else ''))
    return '+'.join(sorted(sig)[:8]) or 'engine-diff-only'


def compare_full(eng: Engine, got, sdl_b, full: bool = True, describe: bool = False):
    """oracle S: `got` equals the independently loaded target.  `full`: also ask the engine's own
    delta_schemas both ways (upstream's criterion); the structural dump is always compared.
    -> (difference lines, dump of `got`)"""
    sc = eng.sc
    b, dump_b, _ = eng.load(sdl_b)
    out = []
    t = time.time()
    if full:
        d1 = sc.schema_diff(got, b)
        d2 = sc.schema_diff(b, got)
        if d1 or d2:
            out += [f'delta_schemas(result, target) = {d1[:6]}', f'delta_schemas(target, result) = {d2[:6]}']
    dg = sc.dump(got)
    from props import c02_classify as cl
    # the VALUES are compared; a difference in the "explicitly stored" flag alone (same effective value) is not
    # observable and is ignored by delta_schemas: counted, not failed
    lines = sc.dump_diff(cl.value_dump(dg), cl.value_dump(dump_b))
    eng.t['flag_only'] = eng.t.get('flag_only', 0) + (1 if (not lines and not out and dg != dump_b) else 0)
    out += lines
    if describe and not out:
        # third, text-level view (0.7 s per schema: used for the deterministic regression pairs): DESCRIBE SCHEMA AS SDL of the result and of the target must be the same text
        from edb.schema import ddl as s_ddl
        try:
            tb = eng.sdl_text(sdl_b, b)
            tg = s_ddl.sdl_text_from_schema(got)
            if tg != tb:
                import difflib
                dl = [x for x in difflib.unified_diff(tg.splitlines(), tb.splitlines(), lineterm='', n=0)
                      if not x.startswith(('---', '+++', '@@'))]
                out += ['describe-as-sdl text of the result differs from the target: ' + ' | '.join(dl[:6])[:400]]
        except Exception as e:
            out += [f'describe-as-sdl raised {type(e).__name__}: {e}'[:300]]
    eng.t['dump'] += time.time() - t
    return out, dg


def compare_with_target(eng: Engine, got, sdl_b, full: bool = True) -> list[str]:
    return compare_full(eng, got, sdl_b, full)[0]


def report(ctx: core.Ctx, eng: Engine, route: str, what: str, detail: dict, key_in: str, *, a, dump_a, sdl_b, got,
           dump_got, script, lines, fixed_key=None) -> list:
    """report a level-2 failure.  A corpus witness keeps its fixed key.  Otherwise the failure is attributed
    to known engine defects only if props/c02_classify CONFIRMS their root cause on this input and every
    differing object is explained (`l2-<route>:known:<cause>:<hash>`, one record per cause); anything else is
    `l2-<route>:unclassified:<signature>:<hash>`."""
    from props import c02_classify as cl
    b, dump_b, _ = eng.load(sdl_b)
    causes = cl.classify(eng.sc, a, b, got, script, dump_a if dump_a is not None else eng.sc.dump(a),
                         dump_b, dump_got) if dump_got is not None else None
    detail = detail | {'differences': [x[:400] for x in lines[:25]], 'root_causes_confirmed': causes}
    if cl.LAST_ERROR[0]:
        detail['classifier_error'] = cl.LAST_ERROR[0]
    if fixed_key:
        ctx.fail(fixed_key, what, detail)
    elif causes:
        for c in causes:
            ctx.fail(f'l2-{route}:known:{c}:{key_in}', f'{what} [root cause confirmed by predicate: {c}]', detail)
    else:
        ctx.fail(f'l2-{route}:unclassified:{first_sig(lines)}:{key_in}', what, detail)
    return causes or []


def report_text_error(ctx: core.Ctx, route: str, what: str, detail: dict, key_in: str, script: str, err, fixed_key=None):
    from props import c02_classify as cl
    causes = cl.classify_text_error(script, err)
    detail = detail | {'ddl': script, 'error': f'{type(err).__name__}: {err}'[:400], 'root_causes_confirmed': causes}
    if fixed_key:
        ctx.fail(fixed_key, what, detail)
    elif causes:
        for c in causes:
            ctx.fail(f'l2-{route}:known:{c}:{key_in}', f'{what} [root cause confirmed by predicate: {c}]', detail)
    else:
        ctx.fail(f'l2-{route}:unclassified:{err_class(err)}:{key_in}', what, detail)
    return causes or []


def probes_for(sc, schema) -> list:
    """follow-up probes: for every overloaded pointer of a user type, toggle `required` on the PARENT's pointer"""
    from edb.schema import objtypes as s_objtypes, links as s_links
    out = []
    seen = set()
    for o in sc._iter_user_objects(schema):
        if not isinstance(o, s_objtypes.ObjectType) or o.get_expr(schema) is not None:
            continue
        for ptr in o.get_pointers(schema).objects(schema):
            if not ptr.get_owned(schema):
                continue
            for base in ptr.get_bases(schema).objects(schema):
                src = base.get_source(schema)
                if src is None or src.get_builtin(schema) or base.get_expr(schema) is not None:
                    continue
                key = (str(src.get_name(schema)), str(base.get_shortname(schema).name))
                if key in seen or not base.get_owned(schema):
                    continue
                seen.add(key)
                kw = 'LINK' if isinstance(base, s_links.Link) else 'PROPERTY'
                op = 'SET OPTIONAL' if base.get_required(schema) else 'SET REQUIRED'
                out.append(f'ALTER TYPE {key[0]} {{ ALTER {kw} {key[1]} {{ {op}; }}; }};')
    return sorted(out)


def probe_compare(eng: Engine, got, target) -> list:
    """apply each probe to the reached schema and to the target: the outcomes must agree (same rejection, or schemas
    equal field by field)"""
    from props import c02_classify as cl
    sc = eng.sc
    lines = []
    for ddl in probes_for(sc, target)[:4]:
        res = []
        for sch in (got, target):
            try:
                res.append(cl.value_dump(sc.dump(sc.replay_text(sch, ddl))))
            except Exception as e:
                res.append(type(e).__name__)
        if isinstance(res[0], str) or isinstance(res[1], str):
            if res[0] != res[1] and (isinstance(res[0], str) != isinstance(res[1], str)):
                lines.append(f'probe `{ddl}`: result -> {res[0] if isinstance(res[0], str) else "accepted"}, '
                             f'target -> {res[1] if isinstance(res[1], str) else "accepted"}')
            continue
        dd = sc.dump_diff(res[0], res[1])
        if dd:
            lines.append(f'probe `{ddl}` propagates differently: ' + ' ; '.join(x[:160] for x in dd[:3]))
    return lines


def check_pair(ctx: core.Ctx, eng: Engine, sdl_a: str, sdl_b: str, tags, *, extra_text_route: bool, stream: str,
               fixed_key: str | None = None, all_routes: bool = False, probe: bool = False,
               describe: bool = False) -> dict:
    """one (A, B) pair through all routes (direct apply of the computed migration, stored script as TEXT,
    optionally ddl_text_from_delta as TEXT), each compared with B; returns a record for coverage.
    `fixed_key`: report any failure of this pair under that key (corpus witnesses of known engine defects)."""
    sc = eng.sc
    rec = {'outcome': None, 'tags': tags, 'causes': []}
    a, dump_a, ea = eng.load(sdl_a)
    b, _, eb = eng.load(sdl_b)
    if ea is not None or eb is not None:
        rec['outcome'] = 'load-rejected:' + err_class(ea or eb)
        return rec
    r, em = eng.migrate(a, sdl_b)
    if em is not None:
        # not accepted: outside the property (which is about accepted migrations)
        rec['outcome'] = 'migration-rejected:' + err_class(em)
        rec['error'] = str(em)[:200]
        return rec
    detail = {'sdlA': sdl_a, 'sdlB': sdl_b, 'mutations': tags, 'stream': stream}
    key_in = h8(sdl_a, sdl_b)
    script = sc.migration_script(r)
    common = dict(a=a, dump_a=dump_a, sdl_b=sdl_b, fixed_key=fixed_key)
    diffs, dg = compare_full(eng, r, sdl_b, describe=describe)
    if diffs:
        rec['causes'] = report(ctx, eng, 'pair', 'accepted migration A -> B does not produce B', detail | {'ddl': script},
                               key_in, got=r, dump_got=dg, script=script, lines=diffs, **common)
        rec['outcome'] = 'FAIL-result'
        if not all_routes:
            return rec
    elif probe:
        pl = probe_compare(eng, r, b)
        if pl:
            ctx.fail(fixed_key or f'l2-probe:unclassified:{h8(*pl)}:{key_in}',
                     'the reached schema equals B field by field but a follow-up ALTER of a parent pointer propagates '
                     'differently on it than on B', detail | {'ddl': script, 'differences': pl})
            rec['outcome'] = 'FAIL-probe'
    # replay as text: the script stored in the Migration object
    t = time.time()
    try:
        r2 = sc.replay_text(a, script)
        diffs, dg = compare_full(eng, r2, sdl_b, full=False)
        if diffs:
            rec['causes'] += report(ctx, eng, 'text', 'replaying the migration DDL as text does not produce B',
                                   detail | {'ddl': script}, key_in, got=r2, dump_got=dg, script=script, lines=diffs,
                                   **common)
            rec['outcome'] = rec['outcome'] or 'FAIL-text'
    except Exception as e:
        rec['causes'] += report_text_error(ctx, 'text', 'the migration was accepted but its DDL text is rejected on replay',
                                          detail, key_in, script, e, fixed_key)
        rec['outcome'] = rec['outcome'] or 'FAIL-text-rejected'
    if extra_text_route and (rec['outcome'] is None or all_routes):
        # second text route: delta_schemas(a, target) -> ddl_text_from_delta -> parse -> apply
        from edb.schema import ddl as s_ddl
        text = ''
        try:
            delta = s_ddl.delta_schemas(a, b)
            text = s_ddl.ddl_text_from_delta(a, b, delta)
            r3 = sc.replay_text(a, text)
            diffs, dg = compare_full(eng, r3, sdl_b, full=False)
            if diffs:
                rec['causes'] += report(ctx, eng, 'text2',
                                       'ddl_text_from_delta(delta_schemas(A, B)) replayed on A does not produce B',
                                       detail | {'ddl': text}, key_in, got=r3, dump_got=dg, script=text, lines=diffs,
                                       **common)
                rec['outcome'] = rec['outcome'] or 'FAIL-text2'
        except Exception as e:
            rec['causes'] += report_text_error(
                ctx, 'text2', 'ddl_text_from_delta(delta_schemas(A, B)) is rejected although POPULATE/COMMIT accepted '
                'the same diff', detail, key_in, text, e, fixed_key)
            rec['outcome'] = rec['outcome'] or 'FAIL-text2-rejected'
    eng.t['replay'] += time.time() - t
    if rec['outcome'] is None:
        rec['outcome'] = 'ok'
        rec['n_stmts'] = script.count(';')
    return rec


# --------------------------------------------------- rebase streams (bases)
MIXINS = ['Ma', 'Mb', 'Mc', 'Md', 'Me', 'Mf', 'Mg', 'Mh']


def _rebase_sdl(order, extra=''):
    body = ' '.join(f'type {m};' for m in MIXINS)
    ext = f' extending {", ".join(order)}' if order else ''
    return f'module default {{ {body} type Target{ext} {{ property tag -> str; }}; type Sub extending Target; {extra} }}'


def gen_rebase_case(rng):
    """(old base list, new base list, tag): rebases of a type over plain mixin types.
    multi:   >= 2 new bases inserted at DIFFERENT positions among the retained ones (several positional groups,
             with or without a tail group)
    dropadj: two or three ADJACENT bases dropped in one step      dropfar: non-adjacent bases dropped
    mixed:   non-adjacent drops + positional inserts              reorder: retained bases permuted"""
    mode = rng.choice(['multi', 'multi', 'multi', 'dropadj', 'dropfar', 'mixed', 'reorder'])
    k = rng.randint(2, 4)
    old = rng.sample(MIXINS, k)
    fresh = [m for m in MIXINS if m not in old]
    rng.shuffle(fresh)
    if mode == 'multi':
        new = list(old)
        ngroups = rng.randint(2, min(3, len(old) + 1))
        slots = sorted(rng.sample(range(len(old) + 1), ngroups), reverse=True)
        for sl in slots:
            grp = [fresh.pop() for _ in range(rng.choice([1, 1, 2])) if fresh]
            new[sl:sl] = grp
    elif mode == 'dropadj':
        if len(old) < 3:
            old = old + [fresh.pop()]
        i = rng.randrange(len(old) - 1)
        n = rng.choice([2, 2, 3])
        new = old[:i] + old[i + n:]
    elif mode == 'dropfar':
        if len(old) < 3:
            old = old + [fresh.pop()]
        drop = set(old[::2][:2]) if rng.random() < 0.5 else {old[0], old[-1]}
        new = [m for m in old if m not in drop] or [old[1]]
    elif mode == 'mixed':
        if len(old) < 4:
            old = (old + fresh[:4])[:4]
            fresh = [m for m in MIXINS if m not in old]
        new = [old[1], old[3]]
        new[1:1] = [fresh.pop()]
        new[0:0] = [fresh.pop()]
        if rng.random() < 0.5:
            new.append(fresh.pop())
    else:
        new = list(old)
        while new == old:
            rng.shuffle(new)
    return old, new, f'rebase:{mode}:{"".join(m[1] for m in old)}->{"".join(m[1] for m in new)}'


def gen_rebase_ddl(rng):
    """(old, DDL text, expected new order, tag): hand-written ALTER TYPE with a mix of DROP EXTENDING and
    EXTENDING … FIRST | LAST | BEFORE x | AFTER x groups; the expected order follows the documented semantics
    (props/c02_classify.apply_rebase with no defect switched on)."""
    from props import c02_classify as cl
    k = rng.randint(2, 4)
    old = rng.sample(MIXINS, k)
    fresh = [m for m in MIXINS if m not in old]
    rng.shuffle(fresh)
    removed = set()
    if rng.random() < 0.35 and len(old) >= 3:
        removed = {old[0], old[-1]} if rng.random() < 0.6 else set(old[1:3])
    retained = [m for m in old if m not in removed]
    added, present = [], list(retained)
    use_after = rng.random() < 0.3
    for _ in range(rng.randint(2, 3)):
        if not fresh:
            break
        grp = [fresh.pop() for _ in range(rng.choice([1, 1, 2])) if fresh]
        kind = rng.choice(['BEFORE', 'BEFORE', 'FIRST', 'LAST', 'AFTER' if use_after else 'BEFORE'])
        if kind in ('BEFORE', 'AFTER'):
            added.append((grp, (kind, rng.choice(present))))
        else:
            added.append((grp, kind))
        present += grp
    q = lambda m: f'default::{m}'                                         # noqa: E731
    parts = []
    if removed:
        parts.append('DROP EXTENDING ' + ', '.join(q(m) for m in sorted(removed, key=old.index)) + ';')
    for grp, pos in added:
        ps = f'{pos[0]} {q(pos[1])}' if isinstance(pos, tuple) else pos
        parts.append(f'EXTENDING {", ".join(q(m) for m in grp)} {ps};')
    ddl = 'ALTER TYPE default::Target { ' + ' '.join(parts) + ' };'
    T = lambda l: ['ObjectType default::' + m for m in l]                 # noqa: E731
    addedT = [(T(g), (p[0], T([p[1]])[0]) if isinstance(p, tuple) else p) for g, p in added]
    exp = cl.apply_rebase(T(old), set(T(removed)), addedT)
    expected = [x.split('::')[1] for x in exp if x != cl.DEFAULT_BASE]
    return old, ddl, expected, (set(T(removed)), addedT), f'rebase-ddl:{"".join(m[1] for m in old)}:{ddl[28:-3]}'


def check_rebase_ddl(ctx: core.Ctx, eng: Engine, rng) -> dict:
    old, ddl, expected, (removed, added), tag = gen_rebase_ddl(rng)
    plan = {'old': old, 'expected': expected, 'removed': sorted(removed),
            'added': [[g, list(p) if isinstance(p, tuple) else p] for g, p in added]}
    return check_ddl_case(ctx, eng, ddl, plan, tag)


def check_ddl_case(ctx: core.Ctx, eng: Engine, ddl: str, plan: dict, tag: str, fixed_key=None) -> dict:
    """hand-written rebase DDL applied as TEXT, compared with the target that the documented semantics give"""
    from props import c02_classify as cl
    sc = eng.sc
    old, expected = plan['old'], plan['expected']
    removed = set(plan['removed'])
    added = [(g, tuple(p) if isinstance(p, list) else p) for g, p in plan['added']]
    sdl_a, sdl_b = _rebase_sdl(old), _rebase_sdl(expected)
    rec = {'outcome': None, 'tags': [tag], 'causes': []}
    a, dump_a, ea = eng.load(sdl_a)
    b, dump_b, eb = eng.load(sdl_b)
    if ea is not None or eb is not None:
        rec['outcome'] = 'load-rejected:' + err_class(ea or eb)
        return rec
    try:
        r = sc.replay_text(a, ddl)
    except Exception as e:
        rec['outcome'] = 'ddl-rejected:' + err_class(e)
        return rec
    diffs, dg = compare_full(eng, r, sdl_b)
    if not diffs:
        rec['outcome'] = 'ok'
        return rec
    key_in = h8(sdl_a, ddl)
    detail = {'sdlA': sdl_a, 'ddl': ddl, 'sdlB': sdl_b, 'mutations': [tag], 'stream': 'rebase-ddl', 'plan': plan,
              'differences': diffs[:25]}
    # attribute to known defects of the rebase machinery only if they reproduce the result exactly and every
    # difference lies in the subtree of the rebased type
    key = 'ObjectType default::Target'
    rb = dg.get(key, {}).get('bases', [None])[0]
    causes = cl.explain_bases(['ObjectType default::' + m for m in old], removed, added, rb,
                              flags=('skip_bug', 'noreinsert_bug', 'after_bug')) if rb else None
    sd = cl.struct_diff(dg, dump_b)
    inside = all(('default|Target' in k or 'default||Target' in k or 'default|Sub' in k or 'default||Sub' in k
                  or k in (key, 'ObjectType default::Sub')) for k in sd)
    detail['root_causes_confirmed'] = causes if (causes and inside) else None
    if fixed_key:
        ctx.fail(fixed_key, 'rebase DDL does not give the documented base order', detail)
        rec['causes'] = causes if (causes and inside) else []
    elif causes and inside:
        for c in causes:
            ctx.fail(f'l2-ddl:known:{c}:{key_in}', f'rebase DDL does not give the documented base order '
                     f'[root cause confirmed by simulation: {c}]', detail)
        rec['causes'] = causes
    else:
        ctx.fail(f'l2-ddl:unclassified:{first_sig(diffs)}:{key_in}',
                 'rebase DDL (EXTENDING … FIRST/LAST/BEFORE/AFTER, DROP EXTENDING) does not give the documented base order',
                 detail)
    rec['outcome'] = 'FAIL-result'
    return rec


def run_rebase(ctx: core.Ctx, eng: Engine, n_sdl: int, n_ddl: int) -> dict:
    rng = ctx.rng
    out = {'sdl': {}, 'ddl': {}, 'modes': {}, 'known_causes': {}}
    for _ in range(n_sdl):
        old, new, tag = gen_rebase_case(rng)
        rec = check_pair(ctx, eng, _rebase_sdl(old), _rebase_sdl(new), [tag], extra_text_route=True, stream='rebase',
                         all_routes=True)
        out['sdl'][rec['outcome']] = out['sdl'].get(rec['outcome'], 0) + 1
        m = tag.split(':')[1]
        out['modes'][m] = out['modes'].get(m, 0) + 1
        for c in set(rec['causes']):
            out['known_causes'][c] = out['known_causes'].get(c, 0) + 1
    for _ in range(n_ddl):
        rec = check_rebase_ddl(ctx, eng, rng)
        out['ddl'][rec['outcome']] = out['ddl'].get(rec['outcome'], 0) + 1
        for c in rec['causes']:
            out['known_causes'][c] = out['known_causes'].get(c, 0) + 1
    ctx.log('rebase streams:', out)
    return out


#: deterministic chains of the "same-named pointer provided by several unrelated parents" shape (always run, by
#: C02 as consecutive pairs through all routes and by C10 as chains): create the shape, then drop the pointer
#: from ONE parent / remove a parent from the bases / alter it in one parent.
SHARED_CHAINS = [
    ['module default { type A { property x -> str; } type B { property x -> str; } type C extending A, B; }',
     'module default { type A; type B { property x -> str; } type C extending A, B; }',
     'module default { type A; type B { required property x -> str; } type C extending A, B; }'],
    ['module default { type T; type A { link l -> T { property p -> str; } } type B { link l -> T; } '
     'type C extending A, B; type G extending C; }',
     'module default { type T; type A { link l -> T { property p -> str; } } type B; '
     'type C extending A, B; type G extending C; }',
     'module default { type T; type A { required link l -> T { property p -> str; } } type B; '
     'type C extending A, B; type G extending C; }'],
    ["module default { type A { property x -> str { constraint exclusive; } } type B { property x -> str "
     "{ annotation title := 'b'; } } type D { property x -> str; } type C extending A, B, D; type G extending C; }",
     "module default { type A { property x -> str { constraint exclusive; } } type B { property x -> str "
     "{ annotation title := 'b'; } } type D { property x -> str; } type C extending B, D; type G extending C; }",
     "module default { type A { property x -> str { constraint exclusive; } } type B "
     "type D { property x -> str; } type C extending B, D; type G extending C; }".replace('type B type D', 'type B; type D'),
     "module default { type A { property x -> str { constraint exclusive; } } type B; "
     "type D { required property x -> str; } type C extending B, D; type G extending C; }"],
]

#: deterministic chains with CROSS-MODULE renames (a type with nested refs - annotated pointers, a link with a link
#: property, a child type - moved to another module; a whole module renamed, incl. abstract links / properties,
#: overloads, constraints, indexes), each followed by follow-up steps on the moved objects (make a pointer optional,
#: drop it, drop the type): names of all nested objects must follow the move, and later migrations must still work.
XMODULE_CHAINS = [
    ["module default { type T; type A { required property x -> str { annotation title := 'the x'; } link l -> T { property w -> int64; } annotation title := 'a'; } type C extending A; } module other { }",
     "module default { type T; type C extending other::A; } module other { type A { required property x -> str { annotation title := 'the x'; } link l -> default::T { property w -> int64; } annotation title := 'a'; } }",
     "module default { type T; type C extending other::A; } module other { type A { property x -> str { annotation title := 'the x'; } link l -> default::T { property w -> int64; } annotation title := 'a'; } }",
     "module default { type T; type C extending other::A; } module other { type A { link l -> default::T { property w -> int64; } annotation title := 'a'; } }",
     'module default { type T; } module other { }'],
    ["module default { type T; } module m1 { abstract link al { property w -> int64; annotation title := 'al'; } abstract property ap { annotation title := 'ap'; } type A { required property x extending ap -> str; multi link l extending al -> default::T; constraint exclusive on (.x); index on (.x); } type B extending A { overloaded required property x extending ap -> str { annotation title := 'bx'; } } }",
     "module default { type T; } module m2 { abstract link al { property w -> int64; annotation title := 'al'; } abstract property ap { annotation title := 'ap'; } type A { required property x extending ap -> str; multi link l extending al -> default::T; constraint exclusive on (.x); index on (.x); } type B extending A { overloaded required property x extending ap -> str { annotation title := 'bx'; } } }",
     "module default { type T; } module m2 { abstract link al { property w -> int64; annotation title := 'al'; } abstract property ap { annotation title := 'ap'; } type A { property x extending ap -> str; multi link l extending al -> default::T; index on (.x); } type B extending A { overloaded property x extending ap -> str { annotation title := 'bx'; } } }",
     "module default { type T; } module m2 { abstract link al { property w -> int64; annotation title := 'al'; } abstract property ap { annotation title := 'ap'; } type A { multi link l extending al -> default::T; } type B extending A; }"],
]

#: deterministic chains "a subtype OWNS an overload of an inherited pointer, then is re-parented so that no remaining
#: base defines the pointer" (property and link, with a grandchild), followed by alters / a rename of the ex-parent's
#: pointer; the final migration to the empty schema is part of every C10 chain.
REPARENT_CHAINS = [
    ['module default { type A { property x -> str; } type P { property p -> str; } type B extending A { overloaded required property x -> str; } type C extending B; }',
     'module default { type A { property x -> str; } type P { property p -> str; } type B extending P { required property x -> str; } type C extending B; }',
     'module default { type A { property x -> str { readonly := true; } } type P { property p -> str; } type B extending P { required property x -> str; } type C extending B; }',
     'module default { type A { property y -> str { readonly := true; } } type P { property p -> str; } type B extending P { required property x -> str; } type C extending B; }'],
    ["module default { type T; type A { link l -> T; } type P; type B extending A { overloaded required link l -> T { property w -> int64; annotation title := 'bl'; } } type C extending B { overloaded required link l -> T; } }",
     "module default { type T; type A { link l -> T; } type P; type B extending P { required link l -> T { property w -> int64; annotation title := 'bl'; } } type C extending B { overloaded required link l -> T; } }",
     "module default { type T; type A { multi link l -> T; } type P; type B extending P { required link l -> T { property w -> int64; annotation title := 'bl'; } } type C extending B { overloaded required link l -> T; } }"],
]

#: deterministic chains "an inheritable facet of an OVERLOADED pointer starts / stops being stated locally with the
#: value it inherits anyway" (required, multi, readonly; property and link; with a grandchild), alone, followed by a
#: change of the parent's facet in the NEXT step, and combined with it in the SAME step.  After each reached schema
#: follow-up probes toggle `required` on the parent's pointer on the result and on the target and compare.
PINNING_CHAINS = [
    ["module default { type P { required property x -> str; } type C extending P { overloaded property x -> str "
     "{ annotation title := 'c'; } } type G extending C; }",
     "module default { type P { required property x -> str; } type C extending P { overloaded required property x -> str "
     "{ annotation title := 'c'; } } type G extending C; }",
     "module default { type P { required property x -> str; } type C extending P { overloaded property x -> str "
     "{ annotation title := 'c'; } } type G extending C; }",
     "module default { type P { property x -> str; } type C extending P { overloaded property x -> str "
     "{ annotation title := 'c'; } } type G extending C; }"],
    ["module default { type A { required property x -> str; } type B extending A; type C extending B; }",
     "module default { type A { required property x -> str; } type B extending A { overloaded required property x -> str; } "
     "type C extending B; }",
     "module default { type A { property x -> str; } type B extending A { overloaded required property x -> str; } "
     "type C extending B; }"],
    ["module default { type T; type A { required multi link l -> T; } type B extending A { overloaded link l -> T "
     "{ annotation title := 'b'; } } type C extending B; }",
     "module default { type T; type A { required multi link l -> T; } type B extending A { overloaded required multi link l -> T "
     "{ annotation title := 'b'; } } type C extending B; }",
     "module default { type T; type A { multi link l -> T; } type B extending A { overloaded required multi link l -> T "
     "{ annotation title := 'b'; } } type C extending B; }",
     "module default { type T; type A { multi link l -> T; } type B extending A { overloaded required link l -> T "
     "{ annotation title := 'b'; } } type C extending B; }"],
    ["module default { type A { required property x -> str; } type B extending A { overloaded property x -> str "
     "{ annotation title := 'b'; } } type C extending B; }",
     "module default { type A { property x -> str; } type B extending A { overloaded required property x -> str "
     "{ annotation title := 'b'; } } type C extending B; }",
     "module default { type A { property x -> str; } type B extending A { overloaded property x -> str "
     "{ annotation title := 'b'; } } type C extending B; }"],
]

def regression_chains_for(ctx) -> list:
    """[(group, chain)] for C10: thorough = all; quick = the first chain of every group (for `pinning` the first two:
    the shapes of the two seeded diff-blindness changes) plus the remaining ones alternating with the seed parity"""
    out = []
    for group, chains in REGRESSION_CHAINS.items():
        keep = 2 if group == 'pinning' else 1
        for i, ch in enumerate(chains):
            if not ctx.quick() or i < keep or i % 2 == ctx.seed % 2:
                out.append((group, ch))
    return out


#: every deterministic chain (always run first, never cut by the time guard)
REGRESSION_CHAINS = {'pinning': PINNING_CHAINS, 'shared': SHARED_CHAINS, 'xmodule': XMODULE_CHAINS, 'reparent': REPARENT_CHAINS}


def run_shared(ctx: core.Ctx, eng: Engine) -> dict:
    """the deterministic regression chains as consecutive pairs: direct apply of the computed migration and the stored
    script replayed as TEXT are both compared with the target (name sets + every field; describe-as-SDL text and
    follow-up probes for the pinning group).  Quick runs the selection of `regression_chains_for` (the witness shapes of
    all seeded changes always, the rest alternating with the seed parity); thorough runs everything."""
    out = {}
    for group, ch in regression_chains_for(ctx):
        res = out.setdefault(group, {})
        for sa, sb in zip(ch, ch[1:]):
            rec = check_pair(ctx, eng, sa, sb, [group + '-chain-step'], extra_text_route=(group == 'shared'),
                             stream=group, all_routes=True, probe=(group == 'pinning'),
                             describe=group in ('pinning', 'xmodule'))
            res[rec['outcome']] = res.get(rec['outcome'], 0) + 1
    ctx.log('deterministic regression pairs:', out)
    return out


def gen_pair(rng, sc):
    """one feature-directed pair: (specA, specB, tags)"""
    k = rng.random()
    size = rng.choice([2, 3, 4, 4, 5, 6])
    if k < 0.06:
        return sc.empty_spec(), sc.gen_spec(rng, size), ['from-empty']
    if k < 0.12:
        return sc.gen_spec(rng, size), sc.empty_spec(), ['to-empty']
    if k < 0.20:
        return sc.gen_spec(rng, size), sc.gen_spec(rng, size), ['unrelated']
    if k < 0.32:
        # same-named pointer provided by several unrelated parents: drop / alter it in one parent only, add it to
        # a second parent, remove a providing parent from the bases
        a = sc.gen_spec(rng, rng.choice([1, 2, 3]), features=set(sc.DEFAULT_FEATURES) | {'shared_ptrs'})
        b, tags = sc.mutate(rng, a, 1, kinds=list(sc.SHARED_MUTATIONS))
        if tags:
            b, t2 = sc.mutate(rng, b, rng.choice([0, 0, 1]))
            return a, b, list(tags) + list(t2)
    if k < 0.36:
        # pin / unpin an inheritable facet of an overloaded pointer with the value it inherits anyway, alone or combined
        # with a change of the parent's facet in the same step
        a = sc.gen_spec(rng, size, features=set(sc.DEFAULT_FEATURES) | {'pinned_facets', 'overloaded', 'inherit'})
        b, tags = sc.mutate(rng, a, 1, kinds=['pin_facet', 'unpin_facet'])
        if tags:
            if rng.random() < 0.4:
                b, t2 = sc.mutate(rng, b, 1, kinds=['parent_facet_toggle'])
                tags = list(tags) + list(t2)
            return a, b, list(tags)
    if k < 0.42:
        # cross-module renames (move a type / another object to another module, rename a module) and re-parenting
        # of a type that owns an overload to bases that do not define the pointer
        a = sc.gen_spec(rng, size, features=set(sc.DEFAULT_FEATURES) | {'modules', 'overloaded', 'inherit'})
        kinds = ['move_type', 'rename_module', 'move_other'] if rng.random() < 0.5 else ['reparent_overload_away']
        b, tags = sc.mutate(rng, a, 1, kinds=kinds)
        if tags:
            b, t2 = sc.mutate(rng, b, rng.choice([0, 0, 1]))
            return a, b, list(tags) + list(t2)
    a = sc.gen_spec(rng, size)
    if k < 0.50:
        # rebases inside rich schemas: multi-group inserts / adjacent drops, possibly followed by other mutations
        b, tags = sc.mutate(rng, a, 1, kinds=['rebase_multi', 'drop_adjacent_bases'])
        if tags:
            b, t2 = sc.mutate(rng, b, rng.choice([0, 0, 1, 2]))
            return a, b, list(tags) + list(t2)
    b, tags = sc.mutate(rng, a, rng.choice([1, 1, 2, 2, 3, 4]))
    return a, b, list(tags)


def gen_pairs(rng, sc, n):
    return [gen_pair(rng, sc) for _ in range(n)]


def run_corpus(ctx: core.Ctx, eng: Engine) -> dict:
    """minimal reproducers of engine defects found earlier: replayed on every run under fixed keys, so that a
    defect that is still there is reported under a stable name and one that got fixed shows up as `ok`"""
    import os
    path = os.path.join(core.VERIF, 'corpus', 'C02', 'findings.json')
    res = {}
    if not os.path.exists(path):
        return res
    cases = json.load(open(path))['cases']
    if ctx.quick():
        # quick: half of the witnesses per run, alternating with the seed (the deterministic regression chains and the
        # rebase streams always run in full; thorough replays every witness)
        cases = [c for i, c in enumerate(cases) if i % 2 == ctx.seed % 2]
    for case in cases:
        if 'ddl' in case:
            rec = check_ddl_case(ctx, eng, case['ddl'], case['plan'], 'corpus', fixed_key=case['key'])
        else:
            rec = check_pair(ctx, eng, case['sdlA'], case['sdlB'], case.get('mutations', []), extra_text_route=False,
                             stream='corpus', fixed_key=case['key'])
        res[case['key']] = rec['outcome'] + (' -> ' + ','.join(rec['causes']) if rec.get('causes') else '')
    ctx.log('corpus:', res)
    return res


def run_level2(ctx: core.Ctx, n_pairs: int, deadline_s: float | None = None) -> dict:
    """corpus witnesses and rebase streams ALWAYS run in full; only the number of random pairs is reduced by the
    wall-clock guard (never below the minimum), so a slow machine covers a prefix of the same pair sequence"""
    eng = Engine()
    sc = eng.sc
    rng = ctx.rng
    t0 = time.time()
    outcomes: dict = {}
    tags_ok: dict = {}
    feats: dict = {}
    distinct = set()
    samples = []
    shared = run_shared(ctx, eng)
    corpus = run_corpus(ctx, eng)
    rebase = run_rebase(ctx, eng, ctx.budget(6, 300), ctx.budget(6, 300))
    deadline = time.time() + (deadline_s if deadline_s is not None else ctx.budget(50, 1500))   # wall-clock guard
    done = 0
    for i in range(n_pairs):
        if time.time() > deadline and done >= ctx.budget(10, 300):
            ctx.notes.append(f'level 2 stopped after {done} of {n_pairs} pairs (time budget)')
            break
        done += 1
        a, b, tags = gen_pair(rng, sc)
        sa, sb = sc.render(a), sc.render(b)
        rec = check_pair(ctx, eng, sa, sb, tags, extra_text_route=(i % 4 == 0) or not ctx.quick(), stream='pairs',
                         probe=any(t.startswith(('pin_facet', 'unpin_facet')) for t in tags))
        outcomes[rec['outcome']] = outcomes.get(rec['outcome'], 0) + 1
        if rec['outcome'] == 'ok':
            for t in tags:
                tags_ok[t] = tags_ok.get(t, 0) + 1
            for f in sc.features_of(a) | sc.features_of(b):
                feats[f] = feats.get(f, 0) + 1
            if sa != sb:
                distinct.add(h8(sa, sb))
            if len(samples) < 3 and rec.get('n_stmts', 0) >= 2:
                samples.append({'mutations': tags, 'sdlA': sa[:300], 'sdlB': sb[:300]})
    n_pairs = done
    ctx.log(f'level 2: {n_pairs} schema pairs in {time.time() - t0:.1f}s; outcomes {outcomes}; '
            f'engine time {dict((k, round(v, 1)) for k, v in eng.t.items())}')
    return {'n': n_pairs, 'outcomes': outcomes, 'mutations_in_accepted_pairs': tags_ok,
            'features_in_accepted_pairs': feats, 'distinct_nontrivial': len(distinct), 'samples': samples,
            'corpus': corpus, 'rebase': rebase, 'shared_pointer_pairs': shared,
            'engine_seconds': {k: round(v, 1) for k, v in eng.t.items()}}


# ---------------------------------------------------------------------- run
def run(ctx: core.Ctx):
    proved = ctx.proof_stage(PROPS, ['EdbVerif.Props.C02', 'Driver.C02'], required=REQUIRED)
    ctx.log('proof stage:', 'ok' if proved else ctx.proof['broken'])

    import shim  # noqa: F401
    from props import c02_level1 as l1

    if ctx.replay:
        rp = json.load(open(ctx.replay))
        l1_cases, l2_cases, ddl_cases = [], [], []
        for f in rp['failures']:
            d = f.get('detail')
            if isinstance(d, dict) and 'case' in d:
                l1_cases.append(_unjson(d['case']))
            elif isinstance(d, dict) and d.get('stream') == 'rebase-ddl':
                ddl_cases.append((d['ddl'], d['plan'], (d.get('mutations') or ['rebase-ddl'])[0]))
            elif isinstance(d, dict) and 'sdlA' in d:
                l2_cases.append((d['sdlA'], d['sdlB'], d.get('mutations', [])))
        r1 = run_level1(ctx, l1_cases) if l1_cases else {'n': 0, 'distinct_nontrivial': 0, 'samples': []}
        r2 = {'n': len(l2_cases), 'distinct_nontrivial': 0, 'samples': []}
        if l2_cases or ddl_cases:
            eng = Engine()
            for sa, sb, tags in l2_cases:
                rec = check_pair(ctx, eng, sa, sb, tags, extra_text_route=True, stream='replay')
                ctx.log('replayed pair:', rec['outcome'], rec['causes'])
            for ddl, plan, tag in ddl_cases:
                rec = check_ddl_case(ctx, eng, ddl, plan, tag)
                ctx.log('replayed rebase DDL:', rec['outcome'], rec['causes'])
    else:
        cases = [l1.gen_case(ctx.rng, nmax=ctx.rng.choice([3, 5, 5, 7])) for _ in range(ctx.budget(400, 20000))]
        r1 = run_level1(ctx, cases)
        r2 = run_level2(ctx, ctx.budget(60, 2000))

    if not proved:
        ctx.proof_broken_verdict()

    ctx.cov.update({
        'evaluations': r1['n'] + r2['n'],
        'distinct_nontrivial': r1['distinct_nontrivial'] + r2['distinct_nontrivial'],
        'rule': 'level 1: similarity matrices over 0-7 old x 0-7 new synthetic objects (values on a 1/1000 grid incl. ties, '
                '1.0, 0.6, 0.601, sub-threshold), optional context renames / guidance / parent_confidence / '
                'inheritance order; non-trivial = at least 2 candidate pairs, distinct = distinct protocol line.  '
                'level 2: SDL schema pairs (generated schema + 1-4 mutations, unrelated pairs, from/to empty); '
                'non-trivial = migration accepted and A != B, distinct = distinct (A, B) text',
        'samples': r1['samples'] + [json.dumps(s)[:600] for s in r2['samples']],
        'level1': {k: v for k, v in r1.items() if k != 'samples'},
        'level2': {k: v for k, v in r2.items() if k != 'samples'},
        'disagreements_model_vs_impl': r1.get('disagreements', 0),
        'exhaustive': False,
        'correspondence': 'level 1: real edb.schema.delta.delta_objects vs Lean EdbVerif.Schema.planObjs — creates, alters, '
                          'deletes in order with confidence annotations compared exactly.  level 2: real apply_sdl / '
                          'delta_schemas / ddlast_from_delta / CREATE MIGRATION apply / ddl_text_from_delta through the '
                          'bridge; oracle on the real result (delta_schemas empty both ways + independent structural dump)',
    })
    ctx.assumptions += [
        'similarity values are generated on a 1/1000 grid (the model works in integer thousandths); the float '
        'subtraction 1.0 - sim of the real sort key is order-isomorphic on that grid',
        'the property is about ACCEPTED migrations: a pair whose migration the engine rejects (exception) is counted '
        'in coverage (migration-rejected:*) and is not a violation of C02',
        'level 2 compares against the target as loaded by apply_sdl (no diff engine involved); Migration objects '
        'and the fields listed in schema_common.EXCLUDED_FIELDS are not compared',
    ]
    ctx.trusted_base += [
        'hand-written model EdbVerif/Model/Schema.lean: planObjs is tied to delta_objects by the level-1 run; the flat '
        'schema algebra (apply/diff/migrate) is an abstraction of delta_schemas + linearize_delta + Command.apply that '
        'is NOT tied line by line (per-class compare, nested commands, inherited refs, expression handling are only '
        'reached by the level-2 oracle)',
        'C20 model of topological.sort_ex (reused for sort_by_inheritance and the command ordering)',
        'front-end bridge (harness/bridge: LALR tables from the real grammar, real tokenizer, real reduce methods)',
        'harness/props/schema_common.py generator, renderer and structural dump; harness/props/c02_level1.py',
    ]
