"""C02 — a computed migration turns the old schema into exactly the new one.

Proof: lean/EdbVerif/Props/C02.lean over Model/Schema.lean
  (planner = model of ``delta_objects``; flat schema algebra with diff/apply).

Tie, level 1: the REAL ``edb.schema.delta.delta_objects`` is driven with synthetic
  objects (props/c02_level1.py) and compared with ``EdbVerif.Schema.planObjs``:
  creates / alters / deletes, their order and their confidence annotations.
  The planner-completeness theorem is also evaluated as an oracle on the real
  output.

Tie, level 2 (bridge): pairs of SDL schemas from the feature-directed generator
  (props/schema_common.py) are migrated by the real engine along the path
  upstream's tests use (START MIGRATION TO / POPULATE / COMMIT =
  apply_sdl -> delta_schemas -> ddlast_from_delta -> CREATE MIGRATION apply);
  oracle S: the result equals the independently loaded target — delta_schemas
  empty both ways AND an independent structural dump (ids ignored) — and the
  same after replaying the migration's DDL as TEXT (stored script, and
  ``ddl_text_from_delta``).
"""
from __future__ import annotations

import hashlib
import json
import time
import traceback

from lib import core

PROPS = 'EdbVerif/Props/C02.lean'
REQUIRED = [
    'EdbVerif.C02.diff_partition_new', 'EdbVerif.C02.diff_partition_old', 'EdbVerif.C02.diff_matching',
    'EdbVerif.C02.diff_partition', 'EdbVerif.C02.diff_thresholds', 'EdbVerif.C02.C02_apply_diff',
    'EdbVerif.C02.C02_any_order',
]


def h8(*parts) -> str:
    return hashlib.sha1('\x00'.join(parts).encode()).hexdigest()[:8]


# ------------------------------------------------------------------ level 1
def run_level1(ctx: core.Ctx, cases) -> dict:
    import shim  # noqa: F401  (stubs for the native modules; must precede edb imports)
    from props import c02_level1 as l1
    t0 = time.time()
    lines, reals = [], []
    for c in cases:
        lines.append(l1.to_line(c))
        try:
            reals.append(l1.run_real(c))
        except Exception as e:                                  # the real planner blew up
            reals.append((f'exc {type(e).__name__}', {'bad': [f'exception {e!r}'], 'C': [], 'A': [], 'D': []}))
    model = ctx.driver('C02', lines)
    if len(model) != len(lines):
        raise core.Infra(f'driver returned {len(model)} lines for {len(lines)}')
    hist = {'ok': 0, 'cycle': 0, 'exc': 0}
    shape = {'alters': 0, 'identical': 0, 'creates': 0, 'deletes': 0, 'with_renames': 0, 'with_guidance': 0,
             'inheriting': 0, 'ties_in_matrix': 0}
    n_dis, distinct = 0, set()
    for c, line, (real, info), m in zip(cases, lines, reals, model):
        kind = real.split(' ')[0]
        hist[kind] = hist.get(kind, 0) + 1
        ms, same = l1.strip_same(m)
        bad = l1.oracle(c, info) if kind == 'ok' else (info.get('bad', []) if kind == 'exc' else [])
        for b in bad:
            ctx.fail(f'l1-oracle:{h8(line)}', 'delta_objects: ' + b, {'case_line': line, 'case': _jsonable(c), 'real': real})
        if ms != real:
            n_dis += 1
            if not bad:
                ctx.fail(f'l1-corr:{h8(line)}', 'planner model and delta_objects disagree (partition property holds on this input)',
                         {'case_line': line, 'case': _jsonable(c), 'real': real, 'model': m,
                          'stream': 'edb.schema.delta.delta_objects vs EdbVerif.Schema.planObjs'}, no_input=True)
        if kind == 'ok':
            shape['alters'] += len(info['A'])
            shape['identical'] += len(same)
            shape['creates'] += len(info['C'])
            shape['deletes'] += len(info['D'])
            shape['with_renames'] += bool(c['renames'])
            shape['with_guidance'] += c['guidance'] is not None
            shape['inheriting'] += c['inh']
            vals = list(c['sim'].values())
            shape['ties_in_matrix'] += len(vals) != len(set(vals))
            if len(c['sim']) >= 2:
                distinct.add(line)
    ctx.log(f'level 1: {len(cases)} matrices through real delta_objects in {time.time() - t0:.1f}s; '
            f'outcomes {hist}; disagreements {n_dis}')
    return {'n': len(cases), 'outcomes': hist, 'shape': shape, 'disagreements': n_dis,
            'distinct_nontrivial': len(distinct),
            'samples': [lines[i] + ' => ' + reals[i][0] for i in sorted({0, len(lines) // 2, len(lines) - 1})] if lines else []}


def _jsonable(c):
    d = dict(c)
    d['sim'] = [[y, x, v] for (y, x), v in c['sim'].items()]
    d['sub'] = [[y, x, v] for (y, x), v in c['sub'].items()]
    return d


def _unjson(d):
    c = dict(d)
    c['sim'] = {(y, x): v for y, x, v in d['sim']}
    c['sub'] = {(y, x): v for y, x, v in d['sub']}
    c['renames'] = [tuple(r) for r in d['renames']]
    c['noise_renames'] = [tuple(r) for r in d['noise_renames']]
    if d['guidance'] is not None:
        c['guidance'] = {'C': d['guidance']['C'], 'D': d['guidance']['D'], 'A': [tuple(a) for a in d['guidance']['A']]}
    return c


# ------------------------------------------------------------------ level 2
class Engine:
    """the real engine behind a few memoised helpers (loads are cached by SDL text)"""

    def __init__(self):
        from props import schema_common as sc
        sc.setup()
        self.sc = sc
        self._loaded: dict = {}
        self.t = {'load': 0.0, 'migrate': 0.0, 'dump': 0.0, 'replay': 0.0, 'n_load': 0, 'n_migrate': 0}

    def load(self, sdl):
        if sdl not in self._loaded:
            t = time.time()
            try:
                s = self.sc.load_sdl(sdl)
                self._loaded[sdl] = (s, self.sc.dump(s), None)
            except Exception as e:
                self._loaded[sdl] = (None, None, e)
            self.t['load'] += time.time() - t
            self.t['n_load'] += 1
        return self._loaded[sdl]

    def migrate(self, schema, sdl):
        t = time.time()
        try:
            return self.sc.migrate(schema, sdl), None
        except Exception as e:
            return None, e
        finally:
            self.t['migrate'] += time.time() - t
            self.t['n_migrate'] += 1


def err_class(e: BaseException) -> str:
    return type(e).__name__


def first_sig(diffs) -> str:
    """stable signature of a difference list (used in finding keys so that a known finding can be
    matched by class with a key_regex): the set of `Class.field` of the differing dump entries
    (`+Class` / `-Class` for missing / extra objects); `engine-diff-only` when only
    delta_schemas sees a difference."""
    sig = set()
    for d in diffs:
        parts = d.split(' ')
        if parts[0] in ('+', '-') and len(parts) > 1:
            sig.add(parts[0] + parts[1])
        elif parts[0] == '~' and len(parts) > 3:
            fld = [p for p in parts if p.startswith('.') and p.endswith(':')]
            sig.add(parts[1] + (fld[0].rstrip(':') if fld else ''))
    return '+'.join(sorted(sig)[:8]) or 'engine-diff-only'


def compare_with_target(eng: Engine, got, sdl_b, full: bool = True) -> list[str]:
    """oracle S: `got` equals the independently loaded target.  `full`: also ask the engine's own
    delta_schemas both ways (upstream's criterion); the structural dump is always compared."""
    sc = eng.sc
    b, dump_b, _ = eng.load(sdl_b)
    out = []
    t = time.time()
    if full:
        d1 = sc.schema_diff(got, b)
        d2 = sc.schema_diff(b, got)
        if d1 or d2:
            out += [f'delta_schemas(result, target) = {d1[:6]}', f'delta_schemas(target, result) = {d2[:6]}']
    out += sc.dump_diff(sc.dump(got), dump_b)
    eng.t['dump'] += time.time() - t
    return out


def check_pair(ctx: core.Ctx, eng: Engine, sdl_a: str, sdl_b: str, tags, *, extra_text_route: bool, stream: str,
               fixed_key: str | None = None) -> dict:
    """one (A, B) pair through all routes; returns a record for coverage.  `fixed_key`: report any
    failure of this pair under that key (corpus of minimal reproducers of known engine defects)."""
    sc = eng.sc
    rec = {'outcome': None, 'tags': tags}
    a, _, ea = eng.load(sdl_a)
    b, _, eb = eng.load(sdl_b)
    if ea is not None or eb is not None:
        rec['outcome'] = 'load-rejected:' + err_class(ea or eb)
        return rec
    r, em = eng.migrate(a, sdl_b)
    if em is not None:
        # not accepted: outside the property (which is about accepted migrations)
        rec['outcome'] = 'migration-rejected:' + err_class(em)
        rec['error'] = str(em)[:200]
        return rec
    detail = {'sdlA': sdl_a, 'sdlB': sdl_b, 'mutations': tags, 'stream': stream}
    key_in = h8(sdl_a, sdl_b)
    diffs = compare_with_target(eng, r, sdl_b)
    if diffs:
        ctx.fail(fixed_key or f'l2-pair:{first_sig(diffs)}:{key_in}',
                 'accepted migration A -> B does not produce B', detail | {'differences': diffs[:25]})
        rec['outcome'] = 'FAIL-result'
        return rec
    # replay as text: the script stored in the Migration object
    t = time.time()
    script = sc.migration_script(r)
    try:
        r2 = sc.replay_text(a, script)
        diffs = compare_with_target(eng, r2, sdl_b, full=False)
        if diffs:
            ctx.fail(fixed_key or f'l2-text:{first_sig(diffs)}:{key_in}',
                     'replaying the migration DDL as text does not produce B',
                     detail | {'ddl': script, 'differences': diffs[:25]})
            rec['outcome'] = 'FAIL-text'
    except Exception as e:
        ctx.fail(fixed_key or f'l2-text:{err_class(e)}:{key_in}',
                 'the migration was accepted but its DDL text is rejected on replay',
                 detail | {'ddl': script, 'error': f'{type(e).__name__}: {e}'[:400]})
        rec['outcome'] = 'FAIL-text-rejected'
    if extra_text_route and rec['outcome'] is None:
        # second text route: delta_schemas(a, target) -> ddl_text_from_delta -> parse -> apply
        from edb.schema import ddl as s_ddl
        try:
            delta = s_ddl.delta_schemas(a, b)
            text = s_ddl.ddl_text_from_delta(a, b, delta)
            r3 = sc.replay_text(a, text)
            diffs = compare_with_target(eng, r3, sdl_b, full=False)
            if diffs:
                ctx.fail(fixed_key or f'l2-text2:{first_sig(diffs)}:{key_in}',
                         'ddl_text_from_delta(delta_schemas(A, B)) replayed on A does not produce B',
                         detail | {'ddl': text, 'differences': diffs[:25]})
                rec['outcome'] = 'FAIL-text2'
        except Exception as e:
            ctx.fail(fixed_key or f'l2-text2:{err_class(e)}:{key_in}',
                     'ddl_text_from_delta(delta_schemas(A, B)) is rejected although POPULATE/COMMIT accepted the same diff',
                     detail | {'error': f'{type(e).__name__}: {e}'[:400]})
            rec['outcome'] = 'FAIL-text2-rejected'
    eng.t['replay'] += time.time() - t
    if rec['outcome'] is None:
        rec['outcome'] = 'ok'
        rec['n_stmts'] = script.count(';')
    return rec


def gen_pair(rng, sc):
    """one feature-directed pair: (specA, specB, tags)"""
    k = rng.random()
    size = rng.choice([2, 3, 4, 4, 5, 6])
    if k < 0.06:
        return sc.empty_spec(), sc.gen_spec(rng, size), ['from-empty']
    if k < 0.12:
        return sc.gen_spec(rng, size), sc.empty_spec(), ['to-empty']
    if k < 0.20:
        return sc.gen_spec(rng, size), sc.gen_spec(rng, size), ['unrelated']
    a = sc.gen_spec(rng, size)
    b, tags = sc.mutate(rng, a, rng.choice([1, 1, 2, 2, 3, 4]))
    return a, b, list(tags)


def gen_pairs(rng, sc, n):
    return [gen_pair(rng, sc) for _ in range(n)]


def run_corpus(ctx: core.Ctx, eng: Engine) -> dict:
    """minimal reproducers of engine defects found earlier: replayed on every run under fixed keys, so that a
    defect that is still there is reported under a stable name and one that got fixed shows up as `ok`"""
    import os
    path = os.path.join(core.VERIF, 'corpus', 'C02', 'findings.json')
    res = {}
    if not os.path.exists(path):
        return res
    for case in json.load(open(path))['cases']:
        rec = check_pair(ctx, eng, case['sdlA'], case['sdlB'], case.get('mutations', []), extra_text_route=True,
                         stream='corpus', fixed_key=case['key'])
        res[case['key']] = rec['outcome']
    ctx.log('corpus:', res)
    return res


def run_level2(ctx: core.Ctx, n_pairs: int) -> dict:
    eng = Engine()
    sc = eng.sc
    rng = ctx.rng
    t0 = time.time()
    outcomes: dict = {}
    tags_ok: dict = {}
    feats: dict = {}
    distinct = set()
    samples = []
    deadline = t0 + ctx.budget(115, 1500)     # wall-clock guard: the quick tier must stay within minutes
    done = 0
    for i in range(n_pairs):
        if time.time() > deadline and done >= ctx.budget(15, 300):
            ctx.notes.append(f'level 2 stopped after {done} of {n_pairs} pairs (time budget)')
            break
        done += 1
        a, b, tags = gen_pair(rng, sc)
        sa, sb = sc.render(a), sc.render(b)
        rec = check_pair(ctx, eng, sa, sb, tags, extra_text_route=(i % 4 == 0) or not ctx.quick(), stream='pairs')
        outcomes[rec['outcome']] = outcomes.get(rec['outcome'], 0) + 1
        if rec['outcome'] == 'ok':
            for t in tags:
                tags_ok[t] = tags_ok.get(t, 0) + 1
            for f in sc.features_of(a) | sc.features_of(b):
                feats[f] = feats.get(f, 0) + 1
            if sa != sb:
                distinct.add(h8(sa, sb))
            if len(samples) < 3 and rec.get('n_stmts', 0) >= 2:
                samples.append({'mutations': tags, 'sdlA': sa[:300], 'sdlB': sb[:300]})
    n_pairs = done
    corpus = run_corpus(ctx, eng)
    ctx.log(f'level 2: {n_pairs} schema pairs in {time.time() - t0:.1f}s; outcomes {outcomes}; '
            f'engine time {dict((k, round(v, 1)) for k, v in eng.t.items())}')
    return {'n': n_pairs, 'outcomes': outcomes, 'mutations_in_accepted_pairs': tags_ok,
            'features_in_accepted_pairs': feats, 'distinct_nontrivial': len(distinct), 'samples': samples,
            'corpus': corpus,
            'engine_seconds': {k: round(v, 1) for k, v in eng.t.items()}}


# ---------------------------------------------------------------------- run
def run(ctx: core.Ctx):
    proved = ctx.proof_stage(PROPS, ['EdbVerif.Props.C02', 'Driver.C02'], required=REQUIRED)
    ctx.log('proof stage:', 'ok' if proved else ctx.proof['broken'])

    import shim  # noqa: F401
    from props import c02_level1 as l1

    if ctx.replay:
        rp = json.load(open(ctx.replay))
        l1_cases, l2_cases = [], []
        for f in rp['failures']:
            d = f.get('detail')
            if isinstance(d, dict) and 'case' in d:
                l1_cases.append(_unjson(d['case']))
            elif isinstance(d, dict) and 'sdlA' in d:
                l2_cases.append((d['sdlA'], d['sdlB'], d.get('mutations', [])))
        r1 = run_level1(ctx, l1_cases) if l1_cases else {'n': 0, 'distinct_nontrivial': 0, 'samples': []}
        r2 = {'n': len(l2_cases), 'distinct_nontrivial': 0, 'samples': []}
        if l2_cases:
            eng = Engine()
            for sa, sb, tags in l2_cases:
                rec = check_pair(ctx, eng, sa, sb, tags, extra_text_route=True, stream='replay')
                ctx.log('replayed pair:', rec['outcome'])
    else:
        cases = [l1.gen_case(ctx.rng, nmax=ctx.rng.choice([3, 5, 5, 7])) for _ in range(ctx.budget(400, 20000))]
        r1 = run_level1(ctx, cases)
        r2 = run_level2(ctx, ctx.budget(60, 2000))

    if not proved:
        ctx.proof_broken_verdict()

    ctx.cov.update({
        'evaluations': r1['n'] + r2['n'],
        'distinct_nontrivial': r1['distinct_nontrivial'] + r2['distinct_nontrivial'],
        'rule': 'level 1: similarity matrices over 0-7 old x 0-7 new synthetic objects (values on a 1/1000 grid incl. ties, '
                '1.0, 0.6, 0.601, sub-threshold), optional context renames / guidance / parent_confidence / '
                'inheritance order; non-trivial = at least 2 candidate pairs, distinct = distinct protocol line.  '
                'level 2: SDL schema pairs (generated schema + 1-4 mutations, unrelated pairs, from/to empty); '
                'non-trivial = migration accepted and A != B, distinct = distinct (A, B) text',
        'samples': r1['samples'] + [json.dumps(s)[:600] for s in r2['samples']],
        'level1': {k: v for k, v in r1.items() if k != 'samples'},
        'level2': {k: v for k, v in r2.items() if k != 'samples'},
        'disagreements_model_vs_impl': r1.get('disagreements', 0),
        'exhaustive': False,
        'correspondence': 'level 1: real edb.schema.delta.delta_objects vs Lean EdbVerif.Schema.planObjs — creates, alters, '
                          'deletes in order with confidence annotations compared exactly.  level 2: real apply_sdl / '
                          'delta_schemas / ddlast_from_delta / CREATE MIGRATION apply / ddl_text_from_delta through the '
                          'bridge; oracle on the real result (delta_schemas empty both ways + independent structural dump)',
    })
    ctx.assumptions += [
        'similarity values are generated on a 1/1000 grid (the model works in integer thousandths); the float '
        'subtraction 1.0 - sim of the real sort key is order-isomorphic on that grid',
        'the property is about ACCEPTED migrations: a pair whose migration the engine rejects (exception) is counted '
        'in coverage (migration-rejected:*) and is not a violation of C02',
        'level 2 compares against the target as loaded by apply_sdl (no diff engine involved); Migration objects '
        'and the fields listed in schema_common.EXCLUDED_FIELDS are not compared',
    ]
    ctx.trusted_base += [
        'hand-written model EdbVerif/Model/Schema.lean: planObjs is tied to delta_objects by the level-1 run; the flat '
        'schema algebra (apply/diff/migrate) is an abstraction of delta_schemas + linearize_delta + Command.apply that '
        'is NOT tied line by line (per-class compare, nested commands, inherited refs, expression handling are only '
        'reached by the level-2 oracle)',
        'C20 model of topological.sort_ex (reused for sort_by_inheritance and the command ordering)',
        'front-end bridge (harness/bridge: LALR tables from the real grammar, real tokenizer, real reduce methods)',
        'harness/props/schema_common.py generator, renderer and structural dump; harness/props/c02_level1.py',
    ]
