"""C02 level 1 — the REAL ``edb.schema.delta.delta_objects`` on synthetic objects.

The planner only talks to its objects through ``get_name / compare /
as_create_delta / as_alter_delta / as_delete_delta / get_ancestors`` and to the
``ComparisonContext`` through ``renames`` and ``guidance``; the harness
supplies all of them, so the decision procedure itself (candidate pairs, sort
key, greedy matching, thresholds, rename/guidance overrides, confidence
annotations, create/alter/delete order) runs unmodified and can be compared
with ``EdbVerif.Schema.planObjs`` exactly.
"""
from __future__ import annotations

import types
from typing import Any

# --------------------------------------------------------------- case format
# case = {
#   'old': [names], 'new': [names],
#   'sim': {(y, x): int 0..1000}, 'sub': {(y, x): int},
#   'renames': [(old, new)], 'noise_renames': [(old, new)]   # keyed with a foreign type
#   'guidance': None | {'C': [...], 'A': [(y, x)], 'D': [...]},
#   'pc': None | int, 'inh': bool, 'ancNew': {name: [names]}, 'ancOld': {...}
# }

NAME_POOL = ['A', 'B', 'C', 'D', 'a', 'b', 'Ab', 'aB', 'm::X', 'm::Y', 'n::X', 'Z', 'z', '_q',
             'A0', 'A1', 'é', 'Ω', 'default::Foo', 'default::Bar']
SIM_VALUES = [0, 0, 300, 599, 600, 601, 601, 700, 700, 850, 999, 1000, 1000]


def candidates(old, new):
    so, sn_ = set(old), set(new)
    res = [(k, k) for k in old if k in sn_]
    res += [(x, y) for x in new if x not in so for y in old if y not in sn_]
    return res     # (x, y)


def gen_case(rng, nmax=5) -> dict:
    pool = rng.sample(NAME_POOL, rng.randint(2, min(len(NAME_POOL), 2 * nmax)))
    overlap = rng.choice([0.0, 0.3, 0.6, 1.0])
    n_old, n_new = rng.randint(0, nmax), rng.randint(0, nmax)
    old = rng.sample(pool, min(n_old, len(pool)))
    new = []
    for n in rng.sample(pool, len(pool)):
        if len(new) >= n_new:
            break
        if n in old and rng.random() > overlap:
            continue
        new.append(n)
    rng.shuffle(new)
    style = rng.choice(['grid', 'grid', 'ties', 'ones', 'fine'])
    sim, sub = {}, {}
    for (x, y) in candidates(old, new):
        if style == 'grid':
            v = rng.choice(SIM_VALUES)
        elif style == 'ties':
            v = rng.choice([700, 700, 700, 1000, 400])
        elif style == 'ones':
            v = rng.choice([1000, 1000, 1000, 800, 0])
        else:
            v = rng.randint(0, 1000)
        sim[(y, x)] = v
        if rng.random() < 0.4:
            sub[(y, x)] = rng.choice([0, 500, 900, 1000, rng.randint(0, 1000)])
    case: dict[str, Any] = {'old': old, 'new': new, 'sim': sim, 'sub': sub, 'renames': [], 'noise_renames': [],
                            'guidance': None, 'pc': rng.choice([None, None, 1000, 800]),
                            'inh': rng.random() < 0.35, 'ancNew': {}, 'ancOld': {}}
    if rng.random() < 0.3 and old:
        for _ in range(rng.randint(1, 3)):
            o = rng.choice(old + pool[:1])
            n = rng.choice((new or pool) + pool[:2])
            if all(o != r[0] for r in case['renames']):      # dict keys are unique
                case['renames'].append((o, n))
        if rng.random() < 0.5:
            case['noise_renames'].append((rng.choice(old), rng.choice(pool)))
    if rng.random() < 0.25:
        g = {'C': [], 'A': [], 'D': []}
        for _ in range(rng.randint(0, 2)):
            g['C'].append(rng.choice(new + pool[:1]))
        for _ in range(rng.randint(0, 3)):
            cs = candidates(old, new)
            if cs and rng.random() < 0.8:
                x, y = rng.choice(cs)
                g['A'].append((y, x))
            else:
                g['A'].append((rng.choice(pool), rng.choice(pool)))
        for _ in range(rng.randint(0, 2)):
            g['D'].append(rng.choice(old + pool[:1]))
        case['guidance'] = g
    if case['inh']:
        cyc = rng.random() < 0.08
        for names, key in ((new, 'ancNew'), (old, 'ancOld')):
            rank = {n: i for i, n in enumerate(rng.sample(names, len(names)))}
            for n in names:
                anc = [a for a in names if (rank[a] < rank[n] or (cyc and a != n and rng.random() < 0.3))
                       and rng.random() < 0.4]
                if rng.random() < 0.2:
                    anc.append('std::BaseObject')      # an ancestor outside the compared set
                if rng.random() < 0.1 and anc:
                    anc.append(anc[0])                 # duplicates are harmless (OrderedSet)
                case[key][n] = anc
    return case


def to_line(case) -> str:
    def L(l):
        return ','.join(l) if l else '-'
    sim = L([f'{y}>{x}={v}' for (y, x), v in case['sim'].items()])
    sub = L([f'{y}>{x}={v}' for (y, x), v in case['sub'].items()])
    ren = L([f'{o}>{n}' for o, n in case['renames']])
    g = case['guidance']
    gd = 'none' if g is None else 'C:%s/A:%s/D:%s' % (L(g['C']), L([f'{y}>{x}' for y, x in g['A']]), L(g['D']))
    pc = 'none' if case['pc'] is None else str(case['pc'])
    an = L([f'{n}^{".".join(a)}' for n, a in case['ancNew'].items()])
    ao = L([f'{n}^{".".join(a)}' for n, a in case['ancOld'].items()])
    return '|'.join(['plan', L(case['old']), L(case['new']), sim, sub, ren, gd, pc,
                     '1' if case['inh'] else '0', an, ao])


# ------------------------------------------------------------ real execution
_CLS: dict = {}


def _classes():
    """synthetic object / command classes (created once; need edb imported)"""
    if _CLS:
        return _CLS
    from edb.schema import delta as sd, name as sn

    class SynCmd(sd.ObjectCommand):        # a real ObjectCommand: annotations, subcommands
        pass

    class Anc:
        def __init__(self, objs):
            self._o = objs

        def objects(self, schema):
            return tuple(self._o)

    class SynObj:
        def __init__(self, name, side, world):
            self.n = name
            self.name = sn.UnqualName(name)
            self.side = side
            self.w = world

        def __repr__(self):
            return f'<{self.side} {self.n}>'

        def get_name(self, schema):
            assert schema == ('NEW' if self.side == 'new' else 'OLD'), (schema, self)
            return self.name

        def compare(self, other, *, our_schema, their_schema, context):
            assert self.side == 'old' and other.side == 'new'
            assert (our_schema, their_schema) == ('OLD', 'NEW')
            self.w['compare_calls'].append((other.n, self.n))
            return self.w['sim'][(self.n, other.n)] / 1000.0

        def get_ancestors(self, schema):
            tbl = self.w['ancNew'] if self.side == 'new' else self.w['ancOld']
            objs = self.w['new_objs'] if self.side == 'new' else self.w['old_objs']
            res = []
            for a in tbl.get(self.n, []):
                res.append(objs[a] if a in objs else SynObj(a, self.side, self.w))
            return Anc(res)

        def as_create_delta(self, schema, context):
            assert schema == 'NEW' and self.side == 'new'
            c = SynCmd(classname=self.name)
            c.syn = ('C', self.n)
            return c

        def as_delete_delta(self, *, schema, context):
            assert schema == 'OLD' and self.side == 'old'
            c = SynCmd(classname=self.name)
            c.syn = ('D', self.n)
            return c

        def as_alter_delta(self, other, *, self_schema, other_schema, confidence, context):
            assert (self_schema, other_schema) == ('OLD', 'NEW')
            c = SynCmd(classname=self.name)
            c.syn = ('A', self.n, other.n)
            c.given_conf = confidence
            c.set_annotation('confidence', confidence)
            sc = self.w['sub'].get((self.n, other.n))
            if sc is not None:
                s1 = SynCmd(classname=self.name)
                s1.set_annotation('confidence', sc / 1000.0)
                s2 = SynCmd(classname=self.name)            # a subcommand without the annotation
                s3 = SynCmd(classname=self.name)
                s3.set_annotation('confidence', 1.0)
                for s in (s2, s3, s1):
                    c.add(s)
            return c

    class OtherObj:
        pass

    _CLS.update(SynCmd=SynCmd, SynObj=SynObj, OtherObj=OtherObj)
    return _CLS


def run_real(case):
    """-> (canonical line, info)"""
    from edb.schema import delta as sd, objects as so, name as sn
    from edb.common import topological
    K = _classes()
    SynObj = K['SynObj']
    w = {'sim': case['sim'], 'sub': case['sub'], 'ancNew': case['ancNew'], 'ancOld': case['ancOld'],
         'compare_calls': []}
    w['old_objs'] = {n: SynObj(n, 'old', w) for n in case['old']}
    w['new_objs'] = {n: SynObj(n, 'new', w) for n in case['new']}
    g = case['guidance']
    guidance = None
    if g is not None:
        U = sn.UnqualName
        guidance = so.DeltaGuidance(
            banned_creations=frozenset((SynObj, U(x)) for x in g['C']) | {(K['OtherObj'], U('A'))},
            banned_deletions=frozenset((SynObj, U(x)) for x in g['D']),
            banned_alters=frozenset((SynObj, (U(y), U(x))) for y, x in g['A']),
        )
    ctx = so.ComparisonContext(guidance=guidance)
    for o, n in case['renames']:
        ctx.renames[(SynObj, sn.UnqualName(o))] = types.SimpleNamespace(
            new_name=sn.UnqualName(n), classname=sn.UnqualName(o))
    for o, n in case['noise_renames']:
        ctx.renames[(K['OtherObj'], sn.UnqualName(o))] = types.SimpleNamespace(
            new_name=sn.UnqualName(n), classname=sn.UnqualName(o))
    sclass = so.InheritingObject if case['inh'] else so.Object
    pc = None if case['pc'] is None else case['pc'] / 1000.0
    try:
        delta = sd.delta_objects(list(w['old_objs'].values()), list(w['new_objs'].values()), sclass,
                              parent_confidence=pc, context=ctx, old_schema='OLD', new_schema='NEW')
    except topological.CycleError:
        return 'cycle', {'compare_calls': w['compare_calls']}
    ops = delta.get_subcommands()
    kinds = ''.join(o.syn[0] for o in ops)
    C, A, D = [], [], []
    bad = []
    for o in ops:
        conf = o.get_annotation('confidence')
        ci = round(conf * 1000)
        if abs(conf * 1000 - ci) > 1e-6:
            bad.append(f'confidence {conf} is not on the 1/1000 grid')
        if o.syn[0] == 'C':
            C.append(f'{o.syn[1]}={ci}')
        elif o.syn[0] == 'D':
            D.append(f'{o.syn[1]}={ci}')
        else:
            A.append(f'{o.syn[1]}>{o.syn[2]}={ci}')
    if kinds != 'C' * len(C) + 'A' * len(A) + 'D' * len(D):
        bad.append('command order is not creates, alters, deletes: ' + kinds)

    def L(l):
        return ','.join(l) if l else '-'
    return f'ok C:{L(C)}|A:{L(A)}|D:{L(D)}', {'compare_calls': w['compare_calls'], 'bad': bad,
                                               'C': [c.split('=')[0] for c in C],
                                               'A': [tuple(a.split('=')[0].split('>')) for a in A],
                                               'D': [d.split('=')[0] for d in D]}


def strip_same(model_line: str) -> tuple[str, list]:
    """model answers `ok C:..|A:..|S:..|D:..`; the S part (pairs judged identical) is not
    observable on the real side"""
    if not model_line.startswith('ok '):
        return model_line, []
    parts = model_line[3:].split('|')
    same = [] if parts[2] == 'S:-' else [tuple(p.split('>')) for p in parts[2][2:].split(',')]
    return 'ok ' + '|'.join([parts[0], parts[1], parts[3]]), same


# --------------------------------------------------------------------- oracle
def _perfect_matching(xs, ys, ok) -> bool:
    """is there a bijection xs -> ys using only pairs with ok(x, y)?  (sizes <= ~8)"""
    if len(xs) != len(ys):
        return False
    match: dict = {}

    def aug(x, seen):
        for y in ys:
            if ok(x, y) and y not in seen:
                seen.add(y)
                if y not in match or aug(match[y], seen):
                    match[y] = x
                    return True
        return False
    return all(aug(x, set()) for x in xs)


def oracle(case, info) -> list[str]:
    """The planner-completeness property on the REAL output (only when there is no guidance and
    no pre-decided rename: then nothing may be lost or duplicated)."""
    bad = list(info.get('bad', []))
    C, A, D = info['C'], info['A'], info['D']
    ax = [x for _, x in A]
    ay = [y for y, _ in A]
    if len(set(C)) != len(C) or len(set(D)) != len(D):
        bad.append('an object is created / deleted twice')
    if len(set(ax)) != len(ax) or len(set(ay)) != len(ay):
        bad.append('alter matching is not one-to-one')
    if set(C) & set(ax):
        bad.append(f'new object both created and altered-to: {sorted(set(C) & set(ax))}')
    if set(D) & set(ay):
        bad.append(f'old object both deleted and altered-from: {sorted(set(D) & set(ay))}')
    if not set(C) <= set(case['new']) or not set(ax) <= set(case['new']):
        bad.append('command for an unknown new object')
    if not set(D) <= set(case['old']) or not set(ay) <= set(case['old']):
        bad.append('command for an unknown old object')
    cands = set(candidates(case['old'], case['new']))
    for y, x in A:
        if (x, y) not in cands:
            bad.append(f'altered pair {y}>{x} is not a candidate pair')
    if case['guidance'] is None and not case['renames']:
        rest_x = [x for x in case['new'] if x not in C and x not in ax]
        rest_y = [y for y in case['old'] if y not in D and y not in ay]
        if not _perfect_matching(rest_x, rest_y,
                                 lambda x, y: (x, y) in cands and case['sim'][(y, x)] == 1000):
            bad.append(f'objects lost: new {rest_x} / old {rest_y} are neither created/deleted/altered '
                       f'nor pairwise identical')
        for y, x in A:
            if not 600 < case['sim'][(y, x)] < 1000:
                bad.append(f'pair {y}>{x} altered with similarity {case["sim"][(y, x)]}')
    return bad
