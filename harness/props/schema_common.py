"""Shared schema generator + real-engine helpers for the schema/migration properties.

Used by the C02 / C10 / C03 / C11 packages.  Two halves:

1. **Engine helpers** (run the REAL edgedb schema engine from /repo through the
   front-end bridge, see harness/BRIDGE.md)::

       from props import schema_common as sc
       sc.setup()                               # idempotent, ~8 s the first time
       a = sc.load_sdl(sdl_a)                   # full SDL document with `module x { ... }` blocks
       r = sc.migrate(a, sdl_b)                 # START MIGRATION TO / POPULATE / COMMIT (real diff engine)
       sc.schema_diff(r, sc.load_sdl(sdl_b))    # [] when the engine's own comparison sees no difference
       sc.dump(r) == sc.dump(sc.load_sdl(sdl_b))  # independent structural comparison
       txt = sc.migration_script(r)             # DDL text of the migration just committed
       r2 = sc.replay_text(a, txt)              # replay that DDL as text
       sc.user_objects(sc.migrate(r, ''))       # [] : nothing user-defined survives a migration to {}

   Every helper raises the engine's own exception (``edb.errors.EdgeDBError``
   subclasses, occasionally an internal ``AssertionError``/``KeyError`` ...) when
   the engine rejects the input; callers decide what a rejection means.

2. **Generator**: ``Spec`` is a plain-data (JSON-serialisable) abstract
   description of a schema, ``gen_spec(rng, size, features)`` draws a random one,
   ``render(spec)`` turns it into SDL text, ``mutate(rng, spec, n)`` applies ``n``
   random schema mutations (renames, drops, re-parenting, re-typing, moves
   between modules, cross-class name reuse ...) and returns the new Spec plus
   the list of mutation tags.  All randomness comes from the ``rng`` argument
   (a ``random.Random``); there is no global state in generation: the same rng
   state gives the same output.  ``check(spec)`` is the static validator used to
   keep generated / mutated specs valid by construction; ``features_of(spec)``
   says which feature groups a spec really exercises (for coverage histograms).

   Expressions inside a Spec are stored structurally as ``{'t': template,
   'r': [refs]}``: the template contains ``$0``, ``$1`` ... slots and each ref
   names a schema entity (pointer in the scope of a type, link property, type,
   enum label, function, global) together with what the expression expects of
   it (type family, singleness).  Renames rewrite the refs, so expressions stay
   valid; ``_prune`` removes whatever refers to something that no longer exists
   or no longer has the expected type.

Typical property loop::

       rng = random.Random(seed)
       a = sc.gen_spec(rng, size=4)
       b, tags = sc.mutate(rng, a, n=2)
       sa, sb = sc.render(a), sc.render(b)          # render(b, rng) shuffles declarations
       ... sc.shrink_pair(a, b, pred) minimises a failing pair at Spec level

Feature groups (`FEATURES`): types, abstract, inherit, multi_inherit, props,
multi_props, scalars (user scalar types with constraints), enums, links,
self_link, link_cycle, linkprops, constraints (exclusive / max_len_value /
min_value / regexp / one_of / expression on __subject__ / exclusive on
str_lower(__subject__)), obj_constraints (`exclusive on ((.a, .b))`,
`expression on (...)`), delegated, indexes (on pointer / tuple / expression, with
annotations), annotations (std title/description), user_annotations (abstract
[inheritable] annotation), defaults (literal and expression defaults, link
defaults), computed_props, computed_links, backlinks (`.<l[is T]`), aliases
(filter / shape with computed element / path / alias over alias), functions,
obj_functions (function over an object type), globals (plain, with default,
computed), modules, nested_modules, overloaded (overloaded pointers in
subtypes), abstract_ptrs (abstract link / abstract property + `extending`),
nested_alias_shapes (FRAGILE, off by default).

Engine quirks the generator steers around (each is a reproducible engine
defect, see the C02 findings; steering around them keeps acceptance high):
  * union link targets (`link u -> A | B` with B extending A and a computed
    property in A: "already exists") are never generated;
  * nested shapes in aliases (`select T { l: { p } }`) make SDL loading
    declaration-order dependent (the dependency tracer does not see `p`):
    only with the fragile feature 'nested_alias_shapes';
  * names inside computed pointer expressions are always fully qualified (a
    short type name there is resolved in the module of whichever alias uses
    the pointer);
  * an alias over another alias is only generated inside the same module
    (cross-module: UnboundLocalError 'is_inbound_alias' in viewgen);
  * computed shape elements of aliases get a per-alias name (`x_<alias>`).

Measured with scratch self-tests (this tree, seeds 5000.. / 7000.., sizes 0-6,
machine heavily shared so timings are upper bounds):
  * gen_spec outputs accepted by load_sdl: 300/300;
  * mutate outputs (1-3 mutations) accepted by load_sdl: 169/170 (and 438/439
    over the three last runs);
  * (A -> mutated B) accepted by START/POPULATE/COMMIT MIGRATION: 149/169 = 88 %
    (refusals are dominated by renames the diff engine does not recognise:
    swap_names, rename_chain, rename_type / move_type / rename_module of a type
    that is a link target, renames that "affect an expression", and the
    deliberately hard kinds in `HARD_MUTATIONS`);
  * accepted migrations whose result equals load_sdl(B) by schema_diff, by dump
    and after replaying migration_script as text: 145/149; the 4 others are two
    engine defects (alias of a constrained scalar depends on declaration order;
    computed -> stored leaves `computed_fields=['target']` on derived pointers);
  * load 0.3-0.5 s, migrate 1.0-1.8 s (includes migrations to the empty
    schema), dump 0.05 s, replay 0.12 s per schema of 1-6 types.
"""
from __future__ import annotations

import copy
import enum
import json
import re
import uuid

__all__ = [
    'setup', 'load_sdl', 'migrate', 'migration_script', 'replay_text', 'schema_diff',
    'dump', 'dump_diff', 'user_objects', 'Spec', 'render', 'gen_spec', 'mutate',
    'shrink_pair', 'empty_spec', 'shared_sites', 'SHARED_MUTATIONS', 'PIN_MUTATIONS', 'OPT_IN_FEATURES', 'FEATURES', 'DEFAULT_FEATURES', 'FRAGILE_FEATURES', 'MUTATIONS', 'HARD_MUTATIONS', 'features_of', 'check',
    'EXCLUDED_FIELDS',
]

# ======================================================================
# 1. engine helpers
# ======================================================================

_STATE: dict = {}


def setup() -> None:
    """Install the bridge and build/load the cached std schema (idempotent)."""
    if 'std' in _STATE:
        return
    from bridge import env
    env.setup()
    _STATE['std'] = env.std_schema()
    _STATE['env'] = env


def load_sdl(sdl: str):
    """SDL document (explicit ``module x { ... }`` blocks; '' is allowed) -> schema.

    This is ``s_ddl.apply_sdl`` over the std schema, i.e. exactly what START
    MIGRATION TO does to obtain the migration target.  Raises the engine's
    exception when the document is rejected.  Note that even the empty document
    yields a schema that contains ``Module default``.
    """
    setup()
    from edb.schema import ddl as s_ddl
    from edb.edgeql import parser as qlparser
    std = _STATE['std']
    return s_ddl.apply_sdl(qlparser.parse_sdl(sdl), base_schema=std, current_schema=std)[0]


def migrate(schema, sdl: str):
    """START MIGRATION TO {sdl}; POPULATE MIGRATION; COMMIT MIGRATION on `schema`.

    Runs upstream's own ``edb.testbase.lang.BaseSchemaTest.run_ddl`` (diff by
    ``delta_schemas``, DDL by ``ddlast_from_delta``, applied through
    ``delta_from_ddl`` of a CREATE MIGRATION).  Returns the resulting schema.
    """
    setup()
    return _STATE['env'].run_ddl(
        schema, f'start migration to {{ {sdl} }};\npopulate migration;\ncommit migration;')


def migration_script(schema) -> str:
    """DDL text of the last migration recorded in `schema` ('' when there is none)."""
    m = schema.get_last_migration()
    if m is None:
        return ''
    return m.get_script(schema)


def replay_text(schema, ddl_text: str):
    """Apply DDL text (e.g. a ``migration_script``) to `schema` with ``env.run_ddl``."""
    setup()
    if not ddl_text.strip():
        return schema
    return _STATE['env'].run_ddl(schema, ddl_text)


def _cmd_repr(cmd) -> str:
    cn = getattr(cmd, 'classname', None)
    return f'{type(cmd).__name__} {cn}' if cn is not None else type(cmd).__name__


def schema_diff(a, b) -> list:
    """Sorted short reprs ("CommandClass classname") of the top-level subcommands of
    ``s_ddl.delta_schemas(a, b)``; ``[]`` when the engine sees no difference."""
    setup()
    from edb.schema import ddl as s_ddl
    return sorted(_cmd_repr(c) for c in s_ddl.delta_schemas(a, b).get_subcommands())


#: fields left out of `dump`, with the reason.  Everything else returned by
#: ``type(obj).get_fields()`` is dumped.
EXCLUDED_FIELDS = {
    'id': 'random uuid1 allocated at object creation (differs between any two loads)',
    'backend_id': 'backend (Postgres) oid; never set in the pure-Python engine, id-like',
    'sourcectx': 'ephemeral source span of the declaration (depends on text layout)',
    'declared_overloaded': (
        'ephemeral=True, compcoef=None syntactic flag: set only when the CREATE '
        'statement itself carried the OVERLOADED keyword.  A pointer created by SDL '
        '`overloaded property ...` has it True, the same pointer reached by a '
        'migration (CREATE without the keyword when bases come later, or ALTER ... '
        'SET OWNED) has it False.  Not persisted (ephemeral), not compared by '
        'delta_schemas, does not influence semantics.'),
}


def _objname(schema, obj) -> str:
    return f'{type(obj).__name__} {obj.get_name(schema)}'


def _canon(schema, v):
    from edb.schema import objects as so, expr as s_expr, name as sn
    if v is None or isinstance(v, (bool, int, str, float)):
        return v
    if isinstance(v, so.Object):
        return _objname(schema, v)
    if isinstance(v, s_expr.Expression):
        # only the text: `refs` is an id set, `origin` is provenance
        return {'text': v.text}
    if isinstance(v, so.ObjectDict):
        return {str(_canon(schema, k)): _objname(schema, o) for k, o in v.items(schema)}
    if isinstance(v, so.ObjectList):
        return [_objname(schema, o) for o in v.objects(schema)]
    if isinstance(v, so.ObjectCollection):
        # ObjectSet and the ObjectIndex* refdict collections: keys are derived
        # from the member names and the order is creation order -> sort
        return sorted(_objname(schema, o) for o in v.objects(schema))
    if isinstance(v, sn.Name):
        return str(v)
    if isinstance(v, enum.Enum):
        return str(v)
    if isinstance(v, uuid.UUID):
        return '<uuid>'
    if hasattr(v, 'items') and hasattr(v, 'keys'):
        return {str(_canon(schema, k)): _canon(schema, x) for k, x in v.items()}
    if isinstance(v, (set, frozenset)) or 'CheckedSet' in type(v).__name__:
        return sorted((_canon(schema, x) for x in v), key=repr)
    if isinstance(v, (list, tuple)) or hasattr(v, '__iter__'):
        return [_canon(schema, x) for x in v]
    return repr(v)


def _iter_user_objects(schema):
    from edb.schema import migrations as s_mig
    # exclude_stdlib only filters *qualified* objects by module name: std
    # Module objects and std collection types still come through, hence the
    # additional `builtin` test.
    for obj in schema.get_objects(exclude_stdlib=True, exclude_global=False,
                                  exclude_internal=False):
        if isinstance(obj, s_mig.Migration):
            continue
        if obj.get_builtin(schema):
            continue
        yield obj


def dump(schema) -> dict:
    """Canonical structural dump of every non-std, non-Migration object.

    ``{"<ClassName> <name>": {field: [canonical value, explicitly_set?]}}``
    (the flag is None for non-inheritable fields, where it carries no information) for
    all fields of the object's class except `EXCLUDED_FIELDS`.  Independent of
    ``delta_schemas``.  Object names are used as they are: they embed sha1
    hashes of expression text / names (constraints, indexes) and the names of
    union types / alias views are derived from their components, but no random
    ids, so two loads of the same SDL give equal dumps (checked by the self-test).
    A field without value is recorded as '<novalue>'.
    """
    from edb.schema import objects as so
    out = {}
    for obj in _iter_user_objects(schema):
        key = _objname(schema, obj)
        d = {}
        for fn, f in type(obj).get_fields().items():
            if fn in EXCLUDED_FIELDS:
                continue
            try:
                v = obj.get_field_value(schema, fn)
            except so.FieldValueNotFoundError:
                d[fn] = '<novalue>'
                continue
            explicit = obj.get_explicit_field_value(schema, fn, None) is not None
            cv = _canon(schema, v)
            if cv in ([], {}) and isinstance(v, so.ObjectCollection):
                # an explicitly stored EMPTY collection (left behind when the
                # last member of a refdict is dropped) and an unset field (whose
                # default is the empty collection) are the same thing
                explicit = False
            if not f.inheritable:
                # for a non-inheritable field "explicitly stored" vs "default" is
                # not observable (same value); the engine is not consistent about
                # storing such defaults (e.g. Constraint.abstract=False is stored
                # or not depending on declaration order) -> flag not recorded
                explicit = None
            d[fn] = [cv, explicit]
        if key in out:     # should not happen: names are unique per schema
            k = 2
            while f'{key} #{k}' in out:
                k += 1
            key = f'{key} #{k}'
        out[key] = d
    return out


def dump_diff(d1: dict, d2: dict, limit: int = 20) -> list:
    """Human-readable differences between two dumps (at most `limit` lines)."""
    res = []
    for k in sorted(set(d1) | set(d2)):
        if k not in d1:
            res.append(f'+ {k}')
        elif k not in d2:
            res.append(f'- {k}')
        else:
            a, b = d1[k], d2[k]
            for fn in sorted(set(a) | set(b)):
                if a.get(fn) != b.get(fn):
                    res.append(f'~ {k} .{fn}: {a.get(fn)!r} != {b.get(fn)!r}')
        if len(res) >= limit:
            res = res[:limit] + ['...']
            break
    return res


def user_objects(schema) -> list:
    """Sorted "Class name" of every non-std, non-Migration object except Modules.

    After ``migrate(s, '')`` this is expected to be ``[]``.  What legitimately
    remains then: the ``Migration`` objects (history) and ``Module default``
    (apply_sdl always ensures `default` exists and the diff never drops it);
    every other module is dropped (`DROP MODULE other`).
    """
    from edb.schema import modules as s_mod
    return sorted(_objname(schema, o) for o in _iter_user_objects(schema)
                  if not isinstance(o, s_mod.Module))


# ======================================================================
# 2. Spec: plain-data description of a schema
# ======================================================================
#
# data = {
#   'modules':   ['default', 'other', 'default::sub'],
#   'annos':     [{'mod','name','inheritable'}],                       abstract annotations
#   'scalars':   [{'mod','name','base': 'str'|'int64'|...|'enum','labels':[...],
#                  'constraints':[C],'anns':[A]}],
#   'abs_props': [{'mod','name','anns':[A]}],
#   'abs_links': [{'mod','name','props':[P],'anns':[A]}],
#   'globals':   [{'mod','name','type','required','default':E|None,'computed':E|None}],
#   'functions': [{'mod','name','params':[{'name','type','default'}],'ret','body':E,'vol'}],
#   'types':     [{'mod','name','abstract','bases':[qual],'props':[P],'links':[L],
#                  'constraints':[C],'indexes':[I],'anns':[A]}],
#   'aliases':   [{'mod','name','expr':E}],
# }
# P = {'name','type','card','required','default':E|None,'constraints':[C],'anns':[A],
#      'computed':E|None,'overloaded':bool,'extending':qual|None,'readonly':bool}
# L = {'name','target','card','required','default':E|None,'props':[P],'constraints':[C],
#      'anns':[A],'computed':E|None,'overloaded':bool,'extending':qual|None,'on_delete':str|None}
# C = {'kind','args':[str],'on':E|None,'delegated':bool}
# I = {'on':E,'anns':[A]}
# A = {'name': 'title'|'description'|qual of a user annotation, 'value': str}
# E = {'t': template with $0 $1 ..., 'r':[ref], 'card': 'single'|'multi'|None}
# ref = {'k':'p','o':scope type qual,'n':pointer name,'ty':want,'m':'one'|'agg'|'pass'}
#     | {'k':'lp','o':type qual,'l':link name,'n':link property name,'ty':want}
#     | {'k':'T','n':qual}            object type / scalar type / alias
#     | {'k':'E','n':qual,'l':label}  enum label
#     | {'k':'F','n':qual,'args':[types],'ret':type}
#     | {'k':'G','n':qual,'ty':want}
# want: 'str'|'int64'|'int32'|'float64'|'bool'|'num'|'int'|'any'|'scalar'|'link'|'link:<qual>'

BUILTIN_SCALARS = ('str', 'int64', 'int32', 'float64', 'bool')
_NUM = ('int64', 'int32', 'float64')
_INT = ('int64', 'int32')
_SECTIONS = ('annos', 'scalars', 'abs_props', 'abs_links', 'globals', 'functions',
             'types', 'aliases')


class Spec:
    """Abstract description of a schema: a thin wrapper around plain data
    (dict / list / str / bool / None only) held in ``.data``; see the layout
    comment above.  ``to_json()`` / ``Spec.from_json()`` round-trip it,
    ``copy()`` deep-copies, ``spec == other`` compares the data."""

    def __init__(self, data=None):
        if data is None:
            data = {'modules': ['default']}
        for s in _SECTIONS:
            data.setdefault(s, [])
        data.setdefault('modules', ['default'])
        self.data = data

    def to_json(self) -> str:
        return json.dumps(self.data, sort_keys=True)

    @classmethod
    def from_json(cls, text: str) -> 'Spec':
        return cls(json.loads(text))

    def copy(self) -> 'Spec':
        return Spec(copy.deepcopy(self.data))

    def __eq__(self, other):
        return isinstance(other, Spec) and self.data == other.data

    def __repr__(self):
        return 'Spec(%s)' % ', '.join(f'{k}={len(v)}' for k, v in self.data.items())

    def __getitem__(self, k):
        return self.data[k]

    def is_empty(self) -> bool:
        return all(not self.data[s] for s in _SECTIONS)


def empty_spec() -> Spec:
    """The empty schema (renders to '' ; the engine still keeps `module default`)."""
    return Spec()


def _q(e) -> str:
    return f"{e['mod']}::{e['name']}"


def _split(qual):
    mod, _, name = qual.rpartition('::')
    return mod, name


def _index(spec, section) -> dict:
    return {_q(e): e for e in spec.data[section]}


def _all_quals(spec) -> dict:
    """qual -> section for every module-level object."""
    out = {}
    for s in _SECTIONS:
        for e in spec.data[s]:
            out.setdefault(_q(e), s)
    return out


def _ancestors(spec, q, types=None) -> list:
    types = types if types is not None else _index(spec, 'types')
    seen, todo = [], list(types[q]['bases']) if q in types else []
    while todo:
        b = todo.pop(0)
        if b in seen or b not in types:
            continue
        seen.append(b)
        todo.extend(types[b]['bases'])
    return seen


def _descendants(spec, q, types=None) -> list:
    types = types if types is not None else _index(spec, 'types')
    return [t for t in types if t != q and q in _ancestors(spec, t, types)]


def _has_base_cycle(spec) -> bool:
    types = _index(spec, 'types')
    state = {}

    def visit(t):
        if state.get(t) == 1:
            return True
        if state.get(t) == 2:
            return False
        state[t] = 1
        for b in types[t]['bases']:
            if b in types and visit(b):
                return True
        state[t] = 2
        return False
    return any(visit(t) for t in types)


def _own_ptrs(t) -> list:
    return [('prop', p) for p in t['props']] + [('link', l) for l in t['links']]


def _visible(spec, q, types=None) -> dict:
    """name -> [(owner qual, kind, entry)] own first, then ancestors (BFS order)."""
    types = types if types is not None else _index(spec, 'types')
    out = {}
    if q not in types:
        return out
    for owner in [q] + _ancestors(spec, q, types):
        for kind, p in _own_ptrs(types[owner]):
            out.setdefault(p['name'], []).append((owner, kind, p))
    return out


def _ptr(spec, scope, name, types=None):
    """(kind, entry) of pointer `name` as seen from type `scope`, or None."""
    v = _visible(spec, scope, types).get(name)
    if not v:
        return None
    return v[0][1], v[0][2]


def _base_of(spec, typ) -> str:
    """type family of a scalar type reference: builtin name, 'enum:<qual>' or '?'."""
    if typ in BUILTIN_SCALARS:
        return typ
    sc = _index(spec, 'scalars').get(typ)
    if sc is None:
        return '?'
    if sc['base'] == 'enum':
        return 'enum:' + typ
    return sc['base']


def _want_ok(want, fam) -> bool:
    if want in (None, 'any', 'scalar'):
        return True
    if want == 'num':
        return fam in _NUM
    if want == 'int':
        return fam in _INT
    return want == fam


def _expr_card(spec, e, types=None, _depth=0) -> str:
    """static cardinality of an expression: explicit 'card' or derived from 'pass' refs"""
    if e.get('card'):
        return e['card']
    for r in e['r']:
        if r['k'] == 'p' and r.get('m') == 'pass':
            if _ptr_card(spec, r['o'], r['n'], types, _depth + 1) == 'multi':
                return 'multi'
    return 'single'


def _ptr_card(spec, scope, name, types=None, _depth=0) -> str:
    got = _ptr(spec, scope, name, types)
    if got is None or _depth > 12:
        return 'single'
    kind, p = got
    if p.get('computed'):
        return _expr_card(spec, p['computed'], types, _depth)
    return p['card']


def _ref_ok(spec, r, types, cache) -> bool:
    k = r['k']
    if k == 'p':
        got = _ptr(spec, r['o'], r['n'], types)
        if got is None:
            return False
        kind, p = got
        want = r.get('ty') or 'any'
        if want == 'link' or want.startswith('link:'):
            if kind != 'link':
                return False
            if want.startswith('link:'):
                tgt = want[5:]
                if p['target'] != tgt and tgt not in _ancestors(spec, p['target'], types):
                    return False
        else:
            if want == 'scalar' and kind != 'prop':
                return False
            if want not in ('any', 'scalar'):
                if kind != 'prop' or not _want_ok(want, _base_of(spec, p['type'])):
                    return False
        if r.get('bl'):
            # backlink `.<l[is Src]` evaluated on type bl: l must point at bl or above
            if kind != 'link' or (p['target'] != r['bl']
                                  and p['target'] not in _ancestors(spec, r['bl'], types)):
                return False
        if r.get('m', 'one') == 'one' and _ptr_card(spec, r['o'], r['n'], types) == 'multi':
            return False
        if r.get('stored') and p.get('computed'):
            return False
        return True
    if k == 'lp':
        got = _ptr(spec, r['o'], r['l'], types)
        if got is None or got[0] != 'link':
            return False
        for lp in _link_props(spec, got[1]):
            if lp['name'] == r['n']:
                return _want_ok(r.get('ty'), _base_of(spec, lp['type']))
        return False
    if k == 'T':
        return r['n'] in cache['T']
    if k == 'E':
        sc = cache['scalars'].get(r['n'])
        return bool(sc) and sc['base'] == 'enum' and r['l'] in sc['labels']
    if k == 'F':
        f = cache['functions'].get(r['n'])
        return bool(f) and [p['type'] for p in f['params']] == r['args'] and f['ret'] == r['ret']
    if k == 'G':
        g = cache['globals'].get(r['n'])
        return bool(g) and _want_ok(r.get('ty'), _base_of(spec, g['type']))
    return False


def _link_props(spec, link) -> list:
    out = list(link.get('props', []))
    ext = link.get('extending')
    if ext:
        al = _index(spec, 'abs_links').get(ext)
        if al:
            out += al['props']
    return out


def _cache(spec) -> dict:
    c = {s: _index(spec, s) for s in ('scalars', 'functions', 'globals', 'aliases', 'types')}
    c['T'] = set(c['types']) | set(c['scalars']) | set(c['aliases'])
    return c


def _expr_ok(spec, e, types, cache) -> bool:
    return all(_ref_ok(spec, r, types, cache) for r in e['r'])


def _holder_exprs(p):
    """all (slot, expr) directly held by a pointer/type-level entry (not nested ptrs)"""
    for slot in ('default', 'computed'):
        if p.get(slot):
            yield slot, p[slot]


def _scalar_ok(spec, typ) -> bool:
    return typ in BUILTIN_SCALARS or typ in _index(spec, 'scalars')


def _anns_prune(spec, anns):
    annos = _index(spec, 'annos')
    return [a for a in anns if a['name'] in ('title', 'description') or a['name'] in annos]


def _prune(spec) -> None:
    """Remove (in place, to a fixpoint) everything that refers to something that
    does not exist any more or no longer has the expected shape."""
    for _ in range(50):
        changed = False
        types = _index(spec, 'types')
        cache = _cache(spec)
        d = spec.data

        def cons_ok(c):
            return c.get('on') is None or _expr_ok(spec, c['on'], types, cache)

        def keep(lst, pred):
            nonlocal changed
            new = [x for x in lst if pred(x)]
            if len(new) != len(lst):
                changed = True
            lst[:] = new

        def fix_ptr(p, kind):
            nonlocal changed
            for slot in ('default',):
                if p.get(slot) and not _expr_ok(spec, p[slot], types, cache):
                    p[slot] = None
                    changed = True
            keep(p['constraints'], cons_ok)
            n = len(p['anns'])
            p['anns'] = _anns_prune(spec, p['anns'])
            changed |= n != len(p['anns'])
            ext = p.get('extending')
            if ext and ext not in _index(spec, 'abs_links' if kind == 'link' else 'abs_props'):
                p['extending'] = None
                changed = True

        for sc in d['scalars']:
            n = len(sc['anns'])
            sc['anns'] = _anns_prune(spec, sc['anns'])
            changed |= n != len(sc['anns'])
        for al in d['abs_links']:
            keep(al['props'], lambda p: _scalar_ok(spec, p['type']))
            al['anns'] = _anns_prune(spec, al['anns'])
        for ap in d['abs_props']:
            ap['anns'] = _anns_prune(spec, ap['anns'])
        for t in d['types']:
            n = len(t['bases'])
            t['bases'] = [b for b in t['bases'] if b in types]
            changed |= n != len(t['bases'])
            keep(t['props'], lambda p: (
                (_expr_ok(spec, p['computed'], types, cache) if p.get('computed')
                 else _scalar_ok(spec, p['type']))))
            keep(t['links'], lambda l: (
                (_expr_ok(spec, l['computed'], types, cache) if l.get('computed')
                 else True) and l['target'] in types))
            for p in t['props']:
                fix_ptr(p, 'prop')
            for l in t['links']:
                fix_ptr(l, 'link')
                keep(l['props'], lambda p: _scalar_ok(spec, p['type']))
                for lp in l['props']:
                    fix_ptr(lp, 'prop')
            keep(t['constraints'], cons_ok)
            keep(t['indexes'], lambda i: _expr_ok(spec, i['on'], types, cache))
            for i in t['indexes']:
                i['anns'] = _anns_prune(spec, i.get('anns', []))
            n = len(t['anns'])
            t['anns'] = _anns_prune(spec, t['anns'])
            changed |= n != len(t['anns'])
        keep(d['aliases'], lambda a: _expr_ok(spec, a['expr'], types, cache))
        keep(d['functions'], lambda f: _expr_ok(spec, f['body'], types, cache) and all(
            (p['type'] in types or _scalar_ok(spec, p['type'])) for p in f['params'])
            and (f['ret'] in types or _scalar_ok(spec, f['ret'])))
        keep(d['globals'], lambda g: (
            _expr_ok(spec, g['computed'], types, cache) if g.get('computed')
            else _scalar_ok(spec, g['type'])))
        for g in d['globals']:
            if g.get('default') and not _expr_ok(spec, g['default'], types, cache):
                g['default'] = None
                changed = True
        if not changed:
            break


def _fix_overloaded(spec) -> None:
    """Recompute the `overloaded` flags from the inheritance structure."""
    types = _index(spec, 'types')
    for q, t in types.items():
        inherited = set()
        for a in _ancestors(spec, q, types):
            inherited.update(p['name'] for _, p in _own_ptrs(types[a]))
        for _, p in _own_ptrs(t):
            p['overloaded'] = p['name'] in inherited
            if p.get('unpin'):
                # a facet may be left unstated ("unpinned") only on an overload, and only when every inherited
                # definition has the value the overload has (so that the effective value does not change)
                inh = [d for o, _, d in _visible(spec, q, types).get(p['name'], []) if o != q]
                ok = []
                if p['overloaded'] and inh and not p.get('computed'):
                    if 'required' in p['unpin'] and p['required'] and all(d['required'] for d in inh):
                        ok.append('required')
                    if 'multi' in p['unpin'] and p['card'] == 'multi' and all(d['card'] == 'multi' for d in inh):
                        ok.append('multi')
                    if 'readonly' in p['unpin'] and p.get('readonly') and all(d.get('readonly') for d in inh):
                        ok.append('readonly')
                p['unpin'] = ok


RESERVED_PTR_NAMES = {'id', '__type__', 'source', 'target'}


def check(spec) -> list:
    """Static validity rules the generator maintains; returns a list of problems
    (empty = the spec is valid as far as the generator can tell)."""
    bad = []
    d = spec.data
    mods = d['modules']
    if len(set(mods)) != len(mods):
        bad.append('duplicate module')
    for m in mods:
        if '::' in m and m.rpartition('::')[0] not in mods:
            bad.append(f'nested module {m} without parent')
    seen = {}
    for s in _SECTIONS:
        for e in d[s]:
            if e['mod'] not in mods:
                bad.append(f'{_q(e)}: unknown module')
            key = _q(e).lower() if s != 'functions' else 'fn ' + _q(e)
            if key in seen:
                bad.append(f'duplicate name {_q(e)} ({s}/{seen[key]})')
            seen[key] = s
    # a module and an object must not share a qualified name
    for m in mods:
        if m.lower() in seen:
            bad.append(f'module name {m} clashes with an object')
    types = _index(spec, 'types')
    cache = _cache(spec)
    if _has_base_cycle(spec):
        return bad + ['inheritance cycle']
    for q, t in types.items():
        bases = t['bases']
        if len(set(bases)) != len(bases):
            bad.append(f'{q}: duplicate base')
        for b in bases:
            if b not in types:
                bad.append(f'{q}: unknown base {b}')
            for b2 in bases:
                if b2 != b and b2 in types and b in _ancestors(spec, b2, types):
                    bad.append(f'{q}: base {b} is an ancestor of base {b2}')
        names = [p['name'] for _, p in _own_ptrs(t)]
        if len(set(names)) != len(names):
            bad.append(f'{q}: duplicate pointer name')
        vis = _visible(spec, q, types)
        for name, defs in vis.items():
            if name in RESERVED_PTR_NAMES:
                bad.append(f'{q}.{name}: reserved name')
            if len(defs) > 1:
                k0, p0 = defs[0][1], defs[0][2]
                for owner, k, p in defs[1:]:
                    if k != k0 or bool(p.get('computed')) or bool(p0.get('computed')):
                        bad.append(f'{q}.{name}: incompatible inherited pointer')
                    elif p['card'] != p0['card']:
                        bad.append(f'{q}.{name}: cardinality clash')
                    elif bool(p.get('readonly')) != bool(p0.get('readonly')):
                        bad.append(f'{q}.{name}: readonly clash')
                    elif k == 'prop' and p['type'] != p0['type']:
                        bad.append(f'{q}.{name}: type clash')
                    elif k == 'link' and p['target'] != p0['target'] and (
                            (defs[0][0] != q and p0['target'] not in _ancestors(spec, p['target'], types))
                            if defs[0][0] != q or p['target'] not in _ancestors(spec, p0['target'], types)
                            else False) and p['target'] not in _ancestors(spec, p0['target'], types):
                        bad.append(f'{q}.{name}: target clash')
                    elif defs[0][0] == q and p['required'] and not p0['required']:
                        bad.append(f'{q}.{name}: overload drops required')
                    elif k == 'link' and defs[0][0] == q and (
                            [x['name'] for x in p0['props']] and
                            set(x['name'] for x in p0['props']) & set(
                                x['name'] for x in _link_props(spec, p))):
                        bad.append(f'{q}.{name}: link property redefined in overload')
        for kind, p in _own_ptrs(t):
            inh = len(vis[p['name']]) > 1
            if bool(p.get('overloaded')) != inh:
                bad.append(f'{q}.{p["name"]}: overloaded flag wrong')
            if p.get('computed'):
                if not _expr_ok(spec, p['computed'], types, cache):
                    bad.append(f'{q}.{p["name"]}: computed refs')
                if p['constraints'] or p.get('default'):
                    bad.append(f'{q}.{p["name"]}: constraint/default on computed')
            elif kind == 'prop':
                if not _scalar_ok(spec, p['type']):
                    bad.append(f'{q}.{p["name"]}: unknown type {p["type"]}')
            else:
                if p['target'] not in types:
                    bad.append(f'{q}.{p["name"]}: unknown target')
            if p.get('default') and not _expr_ok(spec, p['default'], types, cache):
                bad.append(f'{q}.{p["name"]}: default refs')
            ext = p.get('extending')
            if ext and ext not in _index(spec, 'abs_links' if kind == 'link' else 'abs_props'):
                bad.append(f'{q}.{p["name"]}: unknown abstract base')
            fam = _base_of(spec, p['type']) if kind == 'prop' and not p.get('computed') else None
            for c in p['constraints']:
                if c.get('on') and not _expr_ok(spec, c['on'], types, cache):
                    bad.append(f'{q}.{p["name"]}: constraint refs')
                if not _cons_fits(c['kind'], fam, kind):
                    bad.append(f'{q}.{p["name"]}: constraint {c["kind"]} on {fam}')
            if kind == 'link' and p['required'] and any(
                    x[2].get('on_delete') == 'deferred restrict' for x in vis[p['name']]):
                bad.append(f'{q}.{p["name"]}: required link with deferred restrict')
            if kind == 'link' and inh and not p.get('default'):
                for _o, _k, bp in vis[p['name']][1:]:
                    if _k == 'link' and bp.get('default') and bp['target'] != p['target']:
                        bad.append(f'{q}.{p["name"]}: narrowed link inherits a default')
            if kind == 'link':
                lpn = [x['name'] for x in _link_props(spec, p)]
                if len(set(lpn)) != len(lpn) or set(lpn) & RESERVED_PTR_NAMES:
                    bad.append(f'{q}.{p["name"]}: link property names')
                for lp in p['props']:
                    if not _scalar_ok(spec, lp['type']):
                        bad.append(f'{q}.{p["name"]}@{lp["name"]}: unknown type')
                    for c in lp['constraints']:
                        if not _cons_fits(c['kind'], _base_of(spec, lp['type']), 'prop'):
                            bad.append(f'{q}.{p["name"]}@{lp["name"]}: constraint kind')
            for a in p['anns']:
                if a['name'] not in ('title', 'description') and a['name'] not in _index(spec, 'annos'):
                    bad.append(f'{q}.{p["name"]}: unknown annotation')
        for c in t['constraints']:
            if not c.get('on') or not _expr_ok(spec, c['on'], types, cache):
                bad.append(f'{q}: object constraint refs')
        keys = [json.dumps(c, sort_keys=True) for c in t['constraints']]
        if len(set(keys)) != len(keys):
            bad.append(f'{q}: duplicate constraint')
        keys = [json.dumps(i['on'], sort_keys=True) for i in t['indexes']]
        if len(set(keys)) != len(keys):
            bad.append(f'{q}: duplicate index')
        for i in t['indexes']:
            if not _expr_ok(spec, i['on'], types, cache):
                bad.append(f'{q}: index refs')
        for a in t['anns']:
            if a['name'] not in ('title', 'description') and a['name'] not in _index(spec, 'annos'):
                bad.append(f'{q}: unknown annotation')
        an = [a['name'] for a in t['anns']]
        if len(set(an)) != len(an):
            bad.append(f'{q}: duplicate annotation')
    # computed pointer dependency cycles
    dep = {}
    for q, t in types.items():
        for kind, p in _own_ptrs(t):
            if p.get('computed'):
                for sub in [q] + _descendants(spec, q, types):
                    dep[(sub, p['name'])] = [(r['o'], r['n']) for r in p['computed']['r']
                                             if r['k'] == 'p']
    state = {}

    def cyc(n):
        if state.get(n) == 1:
            return True
        if state.get(n) == 2 or n not in dep:
            return False
        state[n] = 1
        for m in dep[n]:
            # a ref in scope S to pointer n may hit the computed in any related type
            for cand in dep:
                if cand[1] == m[1] and (cand[0] == m[0] or cand[0] in _ancestors(spec, m[0], types)
                                        or m[0] in _ancestors(spec, cand[0], types)):
                    if cyc(cand):
                        return True
        state[n] = 2
        return False
    if any(cyc(n) for n in list(dep)):
        bad.append('computed pointer cycle')
    aliases = [_q(a) for a in d['aliases']]
    for i, a in enumerate(d['aliases']):
        if not _expr_ok(spec, a['expr'], types, cache):
            bad.append(f'alias {_q(a)}: refs')
        for r in a['expr']['r']:
            if r['k'] == 'T' and r['n'] in aliases and aliases.index(r['n']) >= i:
                bad.append(f'alias {_q(a)}: forward alias ref')
            if r['k'] == 'T' and r['n'] in aliases and _split(r['n'])[0] != a['mod']:
                bad.append(f'alias {_q(a)}: alias over an alias of another module')
    fns = [_q(f) for f in d['functions']]
    for i, f in enumerate(d['functions']):
        if not _expr_ok(spec, f['body'], types, cache):
            bad.append(f'function {_q(f)}: refs')
        for r in f['body']['r']:
            if r['k'] == 'F' and fns.index(r['n']) >= i:
                bad.append(f'function {_q(f)}: forward function ref')
        for p in f['params']:
            if p['type'] not in types and not _scalar_ok(spec, p['type']):
                bad.append(f'function {_q(f)}: param type')
        if f['ret'] not in types and not _scalar_ok(spec, f['ret']):
            bad.append(f'function {_q(f)}: return type')
    for g in d['globals']:
        if g.get('computed'):
            if not _expr_ok(spec, g['computed'], types, cache):
                bad.append(f'global {_q(g)}: refs')
        elif not _scalar_ok(spec, g['type']):
            bad.append(f'global {_q(g)}: type')
        if g.get('default') and not _expr_ok(spec, g['default'], types, cache):
            bad.append(f'global {_q(g)}: default refs')
    for sc in d['scalars']:
        if sc['base'] == 'enum':
            if not sc['labels'] or len(set(sc['labels'])) != len(sc['labels']):
                bad.append(f'scalar {_q(sc)}: labels')
        for c in sc['constraints']:
            if not _cons_fits(c['kind'], sc['base'], 'prop'):
                bad.append(f'scalar {_q(sc)}: constraint kind')
    for al in d['abs_links']:
        for lp in al['props']:
            if not _scalar_ok(spec, lp['type']) or lp['name'] in RESERVED_PTR_NAMES:
                bad.append(f'abstract link {_q(al)}: property')
    return bad


def _cons_fits(kind, fam, ptrkind) -> bool:
    if kind in ('exclusive',):
        return True
    if ptrkind == 'link' or fam is None:
        return kind == 'exclusive'
    if kind in ('max_len_value', 'min_len_value', 'regexp', 'expr_str'):
        return fam == 'str'
    if kind in ('min_value', 'max_value', 'expr_num'):
        return fam in _NUM
    if kind == 'one_of':
        return fam in ('str',) + _INT
    if kind == 'expression':
        return True
    return False


# ======================================================================
# 3. render: Spec -> SDL text
# ======================================================================

def _lit(s: str) -> str:
    return "'" + s.replace('\\', '\\\\').replace("'", "\\'") + "'"


class _R:
    """rendering context: current module + qualification policy"""

    def __init__(self, spec, qualify):
        self.spec = spec
        self.qualify = qualify
        self.mod = 'default'
        self.full = False

    def name(self, qual: str) -> str:
        if qual in BUILTIN_SCALARS:
            return qual
        mod, name = _split(qual)
        if self.qualify == 'auto' and mod == self.mod and not self.full:
            return name
        return qual

    def ref(self, r) -> str:
        k = r['k']
        if k in ('p',):
            return r['n']
        if k == 'lp':
            return r['n']
        if k in ('T', 'F', 'G'):
            return self.name(r['n'])
        if k == 'E':
            return f"{self.name(r['n'])}.{r['l']}"
        raise ValueError(k)

    def expr(self, e, full=False) -> str:
        # full=True: qualify every name.  Used for computed pointers: the SDL
        # dependency tracer resolves short names inside a computed pointer's
        # expression in the module of whatever *uses* the pointer (e.g. an alias
        # in another module), not in the module of the declaration.
        self.full = full
        try:
            return re.sub(r'\$(\d+)', lambda m: self.ref(e['r'][int(m.group(1))]), e['t'])
        finally:
            self.full = False

    def anns(self, anns) -> list:
        return [f"annotation {self.name(a['name']) if '::' in a['name'] else a['name']}"
                f" := {_lit(a['value'])};" for a in anns]

    def constraint(self, c) -> str:
        kind = c['kind']
        head = 'delegated constraint ' if c.get('delegated') else 'constraint '
        if kind in ('expr_str', 'expr_num'):
            kind = 'expression'
        s = head + kind
        if c.get('args'):
            s += '(' + ', '.join(c['args']) + ')'
        if c.get('on'):
            s += f" on ({self.expr(c['on'])})"
        if c.get('errmessage'):
            s += ' { errmessage := ' + _lit(c['errmessage']) + '; }'
        return s + ';'

    def ptr(self, kind, p, in_link=False) -> list:
        kw = 'property' if kind == 'prop' else 'link'
        head = ''
        if p.get('overloaded'):
            head += 'overloaded '
        body = []
        if p.get('computed'):
            body += self.anns(p['anns'])
            if p.get('required') and p.get('decl_required'):
                head += 'required '
            if not body:
                return [f"{head}{kw} {p['name']} := ({self.expr(p['computed'], True)});"]
            return [f"{head}{kw} {p['name']} {{", f"    using ({self.expr(p['computed'], True)});"] + \
                ['    ' + b for b in body] + ['};']
        unpin = p.get('unpin') or ()
        if p['required'] and 'required' not in unpin:
            head += 'required '
        if p['card'] == 'multi' and 'multi' not in unpin:
            head += 'multi '
        elif p.get('explicit_single'):
            head += 'single '
        tgt = self.name(p['type'] if kind == 'prop' else p['target'])
        ext = f" extending {self.name(p['extending'])}" if p.get('extending') else ''
        if p.get('readonly') and 'readonly' not in unpin:
            body.append('readonly := true;')
        if p.get('default'):
            body.append(f"default := ({self.expr(p['default'])});")
        if kind == 'link':
            for lp in p['props']:
                body += self.ptr('prop', lp, in_link=True)
            if p.get('on_delete'):
                body.append(f"on target delete {p['on_delete']};")
        for c in p['constraints']:
            body.append(self.constraint(c))
        body += self.anns(p['anns'])
        first = f"{head}{kw} {p['name']}{ext} -> {tgt}"
        if not body:
            return [first + ';']
        return [first + ' {'] + ['    ' + b for b in body] + ['};']

    def decl(self, section, e, rng=None) -> list:
        n = e['name']
        if section == 'annos':
            return [f"abstract {'inheritable ' if e.get('inheritable') else ''}annotation {n};"]
        if section == 'scalars':
            if e['base'] == 'enum':
                first = f"scalar type {n} extending enum<{', '.join(e['labels'])}>"
            else:
                first = f"scalar type {n} extending {e['base']}"
            body = [self.constraint(c) for c in e['constraints']] + self.anns(e['anns'])
            if not body:
                return [first + ';']
            return [first + ' {'] + ['    ' + b for b in body] + ['};']
        if section == 'abs_props':
            body = self.anns(e['anns'])
            if not body:
                return [f'abstract property {n};']
            return [f'abstract property {n} {{'] + ['    ' + b for b in body] + ['};']
        if section == 'abs_links':
            body = []
            for lp in e['props']:
                body += self.ptr('prop', lp, in_link=True)
            body += self.anns(e['anns'])
            if not body:
                return [f'abstract link {n};']
            return [f'abstract link {n} {{'] + ['    ' + b for b in body] + ['};']
        if section == 'globals':
            if e.get('computed'):
                return [f"global {n} := ({self.expr(e['computed'])});"]
            first = f"{'required ' if e['required'] else ''}global {n} -> {self.name(e['type'])}"
            if e.get('default'):
                return [first + ' {', f"    default := ({self.expr(e['default'])});", '};']
            return [first + ';']
        if section == 'functions':
            ps = []
            for p in e['params']:
                s = f"{p['name']}: {p.get('mod', '') + ' ' if p.get('mod') else ''}{self.name(p['type'])}"
                if p.get('default') is not None:
                    s += f" = {p['default']}"
                ps.append(s)
            retmod = _func_retmod(self.spec, e)
            first = f"function {n}({', '.join(ps)}) -> {retmod}{self.name(e['ret'])}"
            body = [f"using ({self.expr(e['body'])});"]
            if e.get('vol'):
                body.insert(0, f"volatility := '{e['vol']}';")
            body += self.anns(e.get('anns', []))
            if len(body) == 1:
                return [f"{first} {body[0]}"]
            return [first + ' {'] + ['    ' + b for b in body] + ['};']
        if section == 'types':
            first = ('abstract ' if e['abstract'] else '') + f'type {n}'
            if e['bases']:
                first += ' extending ' + ', '.join(self.name(b) for b in e['bases'])
            items = []
            for kind, p in _own_ptrs(e):
                items.append(self.ptr(kind, p))
            for c in e['constraints']:
                items.append([self.constraint(c)])
            for i in e['indexes']:
                ib = self.anns(i.get('anns', []))
                s = f"index on ({self.expr(i['on'])})"
                items.append([s + ' { ' + ' '.join(ib) + ' };'] if ib else [s + ';'])
            for a in self.anns(e['anns']):
                items.append([a])
            if rng is not None:
                rng.shuffle(items)
            if not items:
                return [first + ';']
            return [first + ' {'] + ['    ' + ln for it in items for ln in it] + ['};']
        if section == 'aliases':
            return [f"alias {n} := ({self.expr(e['expr'])});"]
        raise ValueError(section)


def _func_retmod(spec, f) -> str:
    """return type modifier derived from the pointers the body goes through"""
    if f.get('retmod') is not None:
        return f['retmod']
    types = _index(spec, 'types')
    mod = ''
    for r in f['body']['r']:
        if r['k'] == 'p':
            got = _ptr(spec, r['o'], r['n'], types)
            if got is None:
                continue
            if r.get('m') == 'agg':
                continue
            if _ptr_card(spec, r['o'], r['n'], types) == 'multi':
                return 'set of '
            if not got[1]['required'] or got[1].get('computed'):
                mod = 'optional '
    return mod


def render(spec: Spec, rng=None, qualify: str = 'auto') -> str:
    """Spec -> SDL text with explicit (nested) ``module X { ... }`` blocks.

    Deterministic.  With `rng` the order of declarations inside modules and
    inside type bodies is shuffled (SDL is order-independent).  ``qualify``:
    'auto' uses short names for same-module references and fully qualified
    names otherwise, 'always' qualifies every reference.  The empty spec
    renders to ''.
    """
    R = _R(spec, qualify)
    mods = list(spec.data['modules'])
    if spec.is_empty() and mods == ['default']:
        return ''

    def block(mod, indent):
        R.mod = mod
        decls = []
        for s in _SECTIONS:
            for e in spec.data[s]:
                if e['mod'] == mod:
                    decls.append(R.decl(s, e, rng))
        subs = [m for m in mods if '::' in m and m.rpartition('::')[0] == mod]
        if rng is not None:
            rng.shuffle(decls)
        pad = '    ' * indent
        out = [f"{pad}module {mod.rpartition('::')[2]} {{"]
        for dlines in decls:
            out += [pad + '    ' + ln for ln in dlines]
        for sm in subs:
            out += block(sm, indent + 1)
            R.mod = mod
        out.append(pad + '}' + (';' if indent else ''))
        return out

    lines = []
    for m in mods:
        if '::' not in m:
            lines += block(m, 0)
    return '\n'.join(lines) + '\n'


# ======================================================================
# 4. random generation
# ======================================================================

FEATURES = (
    'types', 'abstract', 'inherit', 'multi_inherit', 'props', 'multi_props', 'scalars',
    'enums', 'links', 'self_link', 'link_cycle', 'linkprops', 'constraints',
    'obj_constraints', 'delegated', 'indexes', 'annotations', 'user_annotations',
    'defaults', 'computed_props', 'computed_links', 'backlinks', 'aliases', 'functions',
    'obj_functions', 'globals', 'modules', 'nested_modules', 'overloaded', 'abstract_ptrs',
    'nested_alias_shapes', 'shared_ptrs', 'pinned_facets',
)
#: feature groups that are NOT part of the default set because the engine's SDL
#: loader is unreliable on them (declaration-order dependent failures, internal
#: errors); ask for them explicitly: ``features=set(FEATURES)``
FRAGILE_FEATURES = ('nested_alias_shapes',)
#: opt-in feature groups (not drawn by default so that the default random stream stays stable):
#: 'shared_ptrs' = a same-named pointer (property or link, with / without link properties, constraints,
#: annotations) provided by two or three UNRELATED parents and inherited by a non-overloading child, plus a
#: grandchild.  Ask for it with ``features=set(DEFAULT_FEATURES) | {'shared_ptrs'}``.
OPT_IN_FEATURES = ('shared_ptrs', 'pinned_facets')
DEFAULT_FEATURES = tuple(f for f in FEATURES if f not in FRAGILE_FEATURES and f not in OPT_IN_FEATURES)

# none of these is a reserved keyword (checked against edgeql-parser/src/keywords.rs)
TYPE_NAMES = ('User', 'Post', 'Comment', 'Person', 'Movie', 'Review', 'Team', 'Project',
              'Task', 'Tag', 'Account', 'Item', 'Shop', 'Event', 'Venue', 'Author', 'Book',
              'Note', 'Folder', 'Album', 'Track', 'City', 'Country', 'Pet', 'Owner',
              'Ticket', 'Named', 'Entity', 'Thing', 'Doc')
SCALAR_NAMES = ('Email', 'Slug', 'ShortStr', 'Code', 'Percent', 'Rank', 'Zip', 'Handle')
ENUM_NAMES = ('Color', 'Status', 'Kind', 'Level', 'Mood')
ENUM_LABELS = ('Red', 'Green', 'Blue', 'Open', 'Closed', 'Draft', 'Low', 'High', 'Mid', 'Done')
ANNO_NAMES = ('note', 'doc_hint', 'owner_team', 'since_ver', 'legacy')
ABS_LINK_NAMES = ('related_to', 'ordered', 'weighted')
ABS_PROP_NAMES = ('described', 'tracked')
PROP_NAMES = {
    'str': ('name', 'title', 'body', 'email', 'nick', 'bio', 'slug', 'label', 'summary',
            'first_name', 'last_name', 'city_name', 'code', 'phone'),
    'int64': ('age', 'score', 'rank', 'qty', 'year', 'votes', 'views', 'size'),
    'int32': ('level', 'stars', 'floor', 'seats'),
    'float64': ('price', 'rating', 'weight', 'ratio', 'height'),
    'bool': ('active', 'done', 'flagged', 'verified', 'hidden'),
    'enum': ('color', 'status', 'kind', 'mood', 'phase'),
}
LINK_NAMES = ('owner', 'author', 'parent', 'friends', 'members', 'items', 'posts', 'manager',
              'partner', 'related', 'children', 'lead', 'reviewers', 'home', 'subject',
              'assignee', 'followers')
LPROP_NAMES = ('strength', 'since', 'pos', 'lp_note', 'w', 'via')
COMPUTED_NAMES = ('full', 'display', 'summary_c', 'total', 'is_ok', 'len_c', 'upper_c',
                  'score2', 'label_c', 'cnt', 'scaled')
CLINK_NAMES = ('best', 'first_one', 'latest', 'owned', 'incoming', 'back', 'picks', 'same_l')
ALIAS_NAMES = ('ActiveUsers', 'Summary', 'TopItems', 'Names', 'Recent', 'Flat', 'Wide', 'Pairs')
FUNC_NAMES = ('incr', 'twice', 'greet', 'label_of', 'score_of', 'total_n', 'fmt', 'norm',
              'pick', 'tally')
GLOBAL_NAMES = ('cur_name', 'tenant', 'max_n', 'flag_g', 'cur_score', 'cur_one')
MODULE_NAMES = ('other', 'app', 'lib')
SUBMODULE_NAMES = ('sub', 'nested', 'inner')
WORDS = ('alpha', 'beta', 'gamma', 'delta', 'x', 'hello world', "it's", 'Z')


def _fresh(rng, pool, used, style=None) -> str:
    usedl = {u.lower() for u in used}
    cands = [n for n in pool if n.lower() not in usedl]
    if cands:
        return rng.choice(cands)
    base = rng.choice(list(pool))
    i = 2
    while f'{base}{i}'.lower() in usedl:
        i += 1
    return f'{base}{i}'


def _mod_names(spec, mod) -> set:
    """names used by module-level objects of `mod` (+ child module names)"""
    out = set()
    for s in _SECTIONS:
        out.update(e['name'] for e in spec.data[s] if e['mod'] == mod)
    out.update(m.rpartition('::')[2] for m in spec.data['modules']
               if '::' in m and m.rpartition('::')[0] == mod)
    return out


def _all_names(spec) -> set:
    out = set()
    for s in _SECTIONS:
        out.update(e['name'] for e in spec.data[s])
    return out


def _family_ptr_names(spec, q, types=None) -> set:
    """every pointer name visible anywhere in the inheritance family of q"""
    types = types if types is not None else _index(spec, 'types')
    fam = {q} | set(_ancestors(spec, q, types)) | set(_descendants(spec, q, types))
    grew = True
    while grew:
        grew = False
        for t in list(fam):
            for x in _ancestors(spec, t, types) + _descendants(spec, t, types):
                if x not in fam:
                    fam.add(x)
                    grew = True
    out = set()
    for t in fam:
        out.update(p['name'] for _, p in _own_ptrs(types[t]))
    return out


def _E(t, *refs, card=None):
    return {'t': t, 'r': list(refs), 'card': card}


def _rp(o, n, ty='any', m='one', stored=False):
    r = {'k': 'p', 'o': o, 'n': n, 'ty': ty, 'm': m}
    if stored:
        r['stored'] = True
    return r


def _cands(spec, q, types=None, stored_only=False):
    out = []
    for name, defs in sorted(_visible(spec, q, types).items()):
        owner, kind, p = defs[0]
        if stored_only and p.get('computed'):
            continue
        card = _ptr_card(spec, q, name, types)
        fam = _base_of(spec, p['type']) if kind == 'prop' else 'link'
        out.append((name, kind, p, fam, card))
    return out


def _scalar_expr(rng, spec, q, want, prefix='.', allow_links=True, stored_only=False,
                 exclude=()):
    """random expression of family `want` ('str','int64','float64','bool') over the
    pointers visible from type q; returns an E or None."""
    types = _index(spec, 'types')
    cs = [c for c in _cands(spec, q, types, stored_only) if c[0] not in exclude]
    P = prefix

    def one(fams):
        return [c for c in cs if c[1] == 'prop' and c[4] == 'single' and (
            c[3] in fams or ('enum' in fams and c[3].startswith('enum:')))]

    def rp(c, ty, m='one'):
        return _rp(q, c[0], ty, m, stored_only)

    opts = []
    strs, nums, ints, bools, enums = one(('str',)), one(_NUM), one(_INT), one(('bool',)), one(('enum',))
    if want == 'str':
        for c in strs:
            opts.append(lambda c=c: _E(f'{P}$0', rp(c, 'str')))
            opts.append(lambda c=c: _E(f"{P}$0 ++ '_x'", rp(c, 'str')))
            opts.append(lambda c=c: _E(f'str_lower({P}$0)', rp(c, 'str')))
        if len(strs) >= 2:
            def two():
                a, b = rng.sample(strs, 2)
                return _E(f"{P}$0 ++ ' ' ++ {P}$1", rp(a, 'str'), rp(b, 'str'))
            opts += [two, two]
        for c in nums:
            opts.append(lambda c=c: _E(f'<str>{P}$0', rp(c, 'num')))
        for c in enums:
            opts.append(lambda c=c: _E(f'<str>{P}$0', rp(c, c[3])))
        if allow_links and not stored_only:
            for c in cs:
                if c[1] == 'link' and c[4] == 'single':
                    tq = c[2]['target']
                    sub = [x for x in _cands(spec, tq, types)
                           if x[1] == 'prop' and x[3] == 'str' and x[4] == 'single']
                    if sub:
                        opts.append(lambda c=c, sub=sub, tq=tq: _E(
                            f'{P}$0.$1', _rp(q, c[0], 'link:' + tq, 'one'),
                            _rp(tq, rng.choice(sub)[0], 'str')))
    elif want == 'int64':
        for c in ints:
            opts.append(lambda c=c: _E(f'{P}$0 + 1', rp(c, 'int')))
        for c in strs:
            opts.append(lambda c=c: _E(f'len({P}$0)', rp(c, 'str')))
        if not stored_only:
            for c in cs:
                opts.append(lambda c=c: _E(f'count({P}$0)', rp(c, 'any', 'agg')))
    elif want == 'float64':
        for c in nums:
            opts.append(lambda c=c: _E(f'{P}$0 * 1.5', rp(c, 'num')))
    elif want == 'bool':
        for c in nums:
            opts.append(lambda c=c: _E(f'{P}$0 > 0', rp(c, 'num')))
        for c in strs:
            opts.append(lambda c=c: _E(f"{P}$0 = 'x'", rp(c, 'str')))
            opts.append(lambda c=c: _E(f"{P}$0 like 'a%'", rp(c, 'str')))
        for c in bools:
            opts.append(lambda c=c: _E(f'not {P}$0', rp(c, 'bool')))
        for c in enums:
            sc = _index(spec, 'scalars')[c[3][5:]]
            opts.append(lambda c=c, sc=sc: _E(
                f'{P}$0 = $1', rp(c, c[3]),
                {'k': 'E', 'n': _q(sc), 'l': rng.choice(sc['labels'])}))
        if not stored_only:
            for c in cs:
                opts.append(lambda c=c: _E(f'exists {P}$0', rp(c, 'any', 'agg')))
            for g in spec.data['globals']:
                if not g.get('computed') and _base_of(spec, g['type']) == 'str' and strs:
                    opts.append(lambda g=g: _E(
                        f'{P}$0 = global $1', rp(rng.choice(strs), 'str'),
                        {'k': 'G', 'n': _q(g), 'ty': 'str'}))
    if not opts:
        return None
    return rng.choice(opts)()


def _default_for(rng, spec, typ):
    """a default expression for a property of scalar type `typ`"""
    fam = _base_of(spec, typ)
    user = typ not in BUILTIN_SCALARS
    if fam.startswith('enum:'):
        sc = _index(spec, 'scalars')[typ]
        return _E('$0', {'k': 'E', 'n': typ, 'l': rng.choice(sc['labels'])})
    lit = {
        'str': [_lit(rng.choice(WORDS)), "'a' ++ 'b'", "str_upper('q')"],
        'int64': ['0', '1 + 1', '42'],
        'int32': ['<int32>7', '<int32>(2 * 3)'],
        'float64': ['1.5', '2.0 * 2'],
        'bool': ['true', 'false', 'not true'],
    }[fam]
    v = rng.choice(lit)
    if user:
        return _E(f'<$0>({v})' if fam != 'int32' else f'<$0>{v}', {'k': 'T', 'n': typ})
    return _E(v)


def _mk_anns(rng, spec, feats, p=0.25, maxn=2):
    out = []
    if 'annotations' not in feats:
        return out
    names = ['title', 'description']
    if 'user_annotations' in feats:
        names += [_q(a) for a in spec.data['annos']]
    while rng.random() < p and len(out) < maxn:
        n = rng.choice(names)
        if n not in [a['name'] for a in out]:
            out.append({'name': n, 'value': rng.choice(WORDS) + ' ' + rng.choice(WORDS)})
    return out


def _mk_prop_constraint(rng, spec, typ, feats, abstract_owner=False):
    fam = _base_of(spec, typ)
    kinds = ['exclusive', 'exclusive']
    if fam == 'str':
        kinds += ['max_len_value', 'min_len_value', 'regexp', 'one_of', 'expr_str', 'excl_lower']
    elif fam in _NUM:
        kinds += ['min_value', 'max_value', 'expr_num']
        if fam in _INT:
            kinds.append('one_of')
    k = rng.choice(kinds)
    c = {'kind': k, 'args': [], 'on': None, 'delegated': False}
    if k in ('max_len_value', 'min_len_value'):
        c['args'] = [str(rng.choice([1, 3, 10, 50]))]
    elif k == 'regexp':
        c['args'] = [rng.choice(["r'^[a-z]+$'", "r'\\w+'"])]
    elif k == 'one_of':
        c['args'] = ["'a'", "'b'", "'c'"][:rng.randint(1, 3)] if fam == 'str' else ['1', '2', '3']
    elif k in ('min_value', 'max_value'):
        v = rng.choice([0, 1, 100])
        c['args'] = [f'{v}.5' if fam == 'float64' else (f'<int32>{v}' if fam == 'int32' else str(v))]
    elif k == 'expr_str':
        c['on'] = _E(rng.choice(["__subject__ != ''", "len(__subject__) < 20"]))
    elif k == 'expr_num':
        c['on'] = _E(rng.choice(['__subject__ >= 0', '__subject__ != 13']))
    elif k == 'excl_lower':
        c['kind'] = 'exclusive'
        c['on'] = _E('str_lower(__subject__)')
    if c['kind'] == 'exclusive' and 'delegated' in feats and abstract_owner and rng.random() < 0.5:
        c['delegated'] = True
    if rng.random() < 0.15 and c['kind'] != 'exclusive':
        c['errmessage'] = 'bad ' + rng.choice(WORDS)
    return c


def _new_prop(name, typ, card='single', required=False):
    return {'name': name, 'type': typ, 'card': card, 'required': required, 'default': None,
            'constraints': [], 'anns': [], 'computed': None, 'overloaded': False,
            'extending': None, 'readonly': False}


def _new_link(name, target, card='single', required=False):
    return {'name': name, 'target': target, 'card': card, 'required': required,
            'default': None, 'props': [], 'constraints': [], 'anns': [], 'computed': None,
            'overloaded': False, 'extending': None, 'on_delete': None}


def _scalar_choices(spec, feats) -> list:
    out = list(BUILTIN_SCALARS) + ['str', 'int64']
    for sc in spec.data['scalars']:
        if sc['base'] == 'enum' and 'enums' in feats or sc['base'] != 'enum' and 'scalars' in feats:
            out += [_q(sc)] * 2
    return out


def _pname_for(rng, spec, typ, used):
    fam = _base_of(spec, typ)
    pool = PROP_NAMES['enum'] if fam.startswith('enum:') else PROP_NAMES.get(fam, PROP_NAMES['str'])
    return _fresh(rng, pool, used)


def _mk_prop(rng, spec, q, feats, used=None):
    t = _index(spec, 'types')[q]
    used = used if used is not None else _family_ptr_names(spec, q)
    typ = rng.choice(_scalar_choices(spec, feats))
    p = _new_prop(_pname_for(rng, spec, typ, used), typ)
    if 'multi_props' in feats and rng.random() < 0.2:
        p['card'] = 'multi'
    p['required'] = rng.random() < 0.35
    if 'defaults' in feats and rng.random() < 0.3:
        p['default'] = _default_for(rng, spec, typ)
    if 'constraints' in feats and rng.random() < 0.35:
        p['constraints'].append(_mk_prop_constraint(rng, spec, typ, feats, t['abstract']))
    if 'abstract_ptrs' in feats and spec.data['abs_props'] and rng.random() < 0.15:
        p['extending'] = _q(rng.choice(spec.data['abs_props']))
    if rng.random() < 0.06 and p['card'] == 'single':
        p['readonly'] = True
    p['anns'] = _mk_anns(rng, spec, feats, 0.2)
    return p


def _mk_lprop(rng, spec, feats, used):
    typ = rng.choice(list(BUILTIN_SCALARS) + [_q(s) for s in spec.data['scalars']
                                              if 'scalars' in feats or 'enums' in feats])
    lp = _new_prop(_fresh(rng, LPROP_NAMES, used), typ)
    if 'defaults' in feats and rng.random() < 0.25:
        lp['default'] = _default_for(rng, spec, typ)
    if 'constraints' in feats and rng.random() < 0.2:
        c = _mk_prop_constraint(rng, spec, typ, feats)
        if c['kind'] != 'exclusive':
            lp['constraints'].append(c)
    lp['anns'] = _mk_anns(rng, spec, feats, 0.1)
    return lp


def _mk_link(rng, spec, q, feats, target=None, used=None):
    types = _index(spec, 'types')
    used = used if used is not None else _family_ptr_names(spec, q, types)
    if target is None:
        order = list(types)
        cands = [x for x in types if (x != q or 'self_link' in feats) and (
            'link_cycle' in feats or x == q or order.index(x) < order.index(q))]
        if not cands:
            return None
        target = rng.choice(cands)
    l = _new_link(_fresh(rng, LINK_NAMES, used), target)
    if rng.random() < 0.4:
        l['card'] = 'multi'
    l['required'] = rng.random() < 0.2 and target != q
    if 'abstract_ptrs' in feats and spec.data['abs_links'] and rng.random() < 0.2:
        l['extending'] = _q(rng.choice(spec.data['abs_links']))
    if 'linkprops' in feats and rng.random() < 0.3:
        lused = {x['name'] for x in _link_props(spec, l)}
        for _ in range(rng.randint(1, 2)):
            lp = _mk_lprop(rng, spec, feats, lused)
            lused.add(lp['name'])
            l['props'].append(lp)
    if 'constraints' in feats and rng.random() < 0.15:
        l['constraints'].append({'kind': 'exclusive', 'args': [], 'on': None, 'delegated': False})
    if rng.random() < 0.12:
        l['on_delete'] = rng.choice(['allow', 'delete source', 'restrict'] +
                                    ([] if l['required'] else ['deferred restrict']))
    if 'defaults' in feats and rng.random() < 0.08 and not types[target]['abstract']:
        l['default'] = _E('select $0 limit 1', {'k': 'T', 'n': target})
    l['anns'] = _mk_anns(rng, spec, feats, 0.15)
    return l


def _mk_computed_prop(rng, spec, q, feats, used=None, exclude=()):
    used = used if used is not None else _family_ptr_names(spec, q)
    want = rng.choice(['str', 'str', 'int64', 'bool', 'float64'])
    e = _scalar_expr(rng, spec, q, want, exclude=exclude)
    if e is None:
        e = _E(rng.choice(["'const'", '1 + 1', 'true']))
        want = {"'": 'str', '1': 'int64', 't': 'bool'}[e['t'][0]]
    p = _new_prop(_fresh(rng, COMPUTED_NAMES, used), want)
    p['computed'] = e
    p['anns'] = _mk_anns(rng, spec, feats, 0.1)
    return p


def _mk_computed_link(rng, spec, q, feats, used=None, exclude=()):
    types = _index(spec, 'types')
    used = used if used is not None else _family_ptr_names(spec, q, types)
    opts = []
    links = [c for c in _cands(spec, q, types) if c[1] == 'link' and c[0] not in exclude]
    for c in links:
        tq = c[2]['target']
        opts.append(lambda c=c, tq=tq: (_E('select .$0 limit 1', _rp(q, c[0], 'link', 'agg'),
                                           card='single'), tq))
        opts.append(lambda c=c, tq=tq: (_E('.$0', _rp(q, c[0], 'link', 'pass')), tq))
        f = _scalar_expr(rng, spec, tq, 'bool', allow_links=False)
        if f is not None and all(r['k'] != 'G' for r in f['r']):
            def filt(c=c, tq=tq, f=f):
                n = len(f['r'])
                return (_E(f'select .${n} filter ' + f['t'], *f['r'],
                           _rp(q, c[0], 'link', 'pass')), tq)
            opts.append(filt)
    if 'backlinks' in feats:
        for sq, st in types.items():
            for l in st['links']:
                if not l.get('computed') and (l['target'] == q or l['target'] in _ancestors(spec, q, types)):
                    def bl(sq=sq, l=l):
                        r = _rp(sq, l['name'], 'link', 'agg')
                        r['bl'] = q
                        return (_E('.<$0[is $1]', r, {'k': 'T', 'n': sq}, card='multi'), sq)
                    opts += [bl, bl]
    others = [x for x in types if x != q]
    if others:
        def sel():
            tq = rng.choice(others)
            return (_E('select $0 limit 1', {'k': 'T', 'n': tq}, card='single'), tq)
        opts.append(sel)
    if not opts:
        return None
    e, tq = rng.choice(opts)()
    l = _new_link(_fresh(rng, CLINK_NAMES, used), tq)
    l['computed'] = e
    l['card'] = _expr_card(spec, e, types)
    return l


def _mk_obj_constraint(rng, spec, q):
    cs = [c for c in _cands(spec, q, None, True) if c[1] == 'prop' and c[4] == 'single']
    if not cs:
        return None
    opts = []
    a = rng.choice(cs)
    opts.append(_E('.$0', _rp(q, a[0], 'scalar', 'one', True)))
    if len(cs) >= 2:
        a, b = rng.sample(cs, 2)
        opts.append(_E('(.$0, .$1)', _rp(q, a[0], 'scalar', 'one', True),
                       _rp(q, b[0], 'scalar', 'one', True)))
        opts.append(_E('(.$0, .$1)', _rp(q, a[0], 'scalar', 'one', True),
                       _rp(q, b[0], 'scalar', 'one', True)))
    strs = [c for c in cs if c[3] == 'str']
    if strs:
        opts.append(_E('str_lower(.$0)', _rp(q, rng.choice(strs)[0], 'str', 'one', True)))
    c = {'kind': 'exclusive', 'args': [], 'on': rng.choice(opts), 'delegated': False}
    if rng.random() < 0.3:
        b = _scalar_expr(rng, spec, q, 'bool', stored_only=True, allow_links=False)
        if b is not None and 'like' not in b['t']:
            c = {'kind': 'expression', 'args': [], 'on': b, 'delegated': False}
    return c


def _mk_index(rng, spec, q):
    cs = [c for c in _cands(spec, q, None, True) if c[4] == 'single' and c[0] != '__type__']
    props = [c for c in cs if c[1] == 'prop']
    if not cs:
        return None
    opts = []
    a = rng.choice(cs)
    opts.append(_E('.$0', _rp(q, a[0], 'link' if a[1] == 'link' else 'scalar', 'one', True)))
    if len(props) >= 2:
        a, b = rng.sample(props, 2)
        opts.append(_E('(.$0, .$1)', _rp(q, a[0], 'scalar', 'one', True),
                       _rp(q, b[0], 'scalar', 'one', True)))
    strs = [c for c in props if c[3] == 'str']
    if strs:
        opts.append(_E('str_lower(.$0)', _rp(q, rng.choice(strs)[0], 'str', 'one', True)))
    return {'on': rng.choice(opts), 'anns': []}


def _mk_scalar(rng, spec, mod, feats, enum_=False):
    used = _all_names(spec)
    if enum_:
        n = rng.randint(2, 4)
        return {'mod': mod, 'name': _fresh(rng, ENUM_NAMES, used), 'base': 'enum',
                'labels': rng.sample(ENUM_LABELS, n), 'constraints': [], 'anns': []}
    base = rng.choice(['str', 'str', 'int64', 'float64'])
    sc = {'mod': mod, 'name': _fresh(rng, SCALAR_NAMES, used), 'base': base, 'labels': [],
          'constraints': [], 'anns': _mk_anns(rng, spec, feats, 0.15)}
    if rng.random() < 0.8:
        c = _mk_prop_constraint(rng, spec, base, set())
        if c['kind'] != 'exclusive':
            sc['constraints'].append(c)
    return sc


def _mk_type(rng, spec, mod, feats, name=None):
    types = _index(spec, 'types')
    t = {'mod': mod, 'name': name or _fresh(rng, TYPE_NAMES, _all_names(spec)),
         'abstract': 'abstract' in feats and rng.random() < 0.25,
         'bases': [], 'props': [], 'links': [], 'constraints': [], 'indexes': [], 'anns': []}
    if 'inherit' in feats and types and rng.random() < 0.45:
        cands = list(types)
        b = rng.choice(cands)
        t['bases'] = [b]
        if 'multi_inherit' in feats and rng.random() < 0.35:
            names_b = _family_ptr_names(spec, b, types)
            more = [c for c in cands if c != b and c not in _ancestors(spec, b, types)
                    and b not in _ancestors(spec, c, types)
                    and not (_family_ptr_names(spec, c, types) & names_b)]
            if more:
                t['bases'].append(rng.choice(more))
    t['anns'] = _mk_anns(rng, spec, feats, 0.25)
    return t


def _mk_alias(rng, spec, mod, feats):
    types = _index(spec, 'types')
    if not types:
        return None
    srcs = [(q, q) for q in types]
    srcs += [(_q(a), a['of']) for a in spec.data['aliases'] if a.get('of') in types]
    src, q = rng.choice(srcs)
    if src not in types:
        # alias over alias: only inside the module of the source alias (an alias
        # in ANOTHER module selecting an alias whose shape has a link crashes the
        # compiler with UnboundLocalError 'is_inbound_alias')
        mod = _split(src)[0]
    T = {'k': 'T', 'n': src}
    cs = _cands(spec, q, types)
    kind = rng.choice(['filter', 'shape', 'shape', 'path'] +
                      (['nested', 'nested'] if 'nested_alias_shapes' in feats else []))
    name = _fresh(rng, ALIAS_NAMES, _all_names(spec))
    e = None
    of = q
    if kind == 'filter':
        f = _scalar_expr(rng, spec, q, 'bool')
        if f is not None:
            n = len(f['r'])
            e = _E(f'select ${n} filter ' + f['t'], *f['r'], T)
    elif kind == 'shape' and cs:
        els = rng.sample(cs, min(len(cs), rng.randint(1, 3)))
        refs = [_rp(q, c[0], 'any', 'agg') for c in els]
        parts = [f'${i}' for i in range(len(refs))]
        x = _scalar_expr(rng, spec, q, rng.choice(['str', 'int64', 'bool']))
        if x is not None:
            off = len(refs)
            xt = re.sub(r'\$(\d+)', lambda m: f'${int(m.group(1)) + off}', x['t'])
            refs += x['r']
            parts.append(f'x_{name.lower()} := {xt}')
        n = len(refs)
        e = _E(f'select ${n} {{ ' + ', '.join(parts) + ' }', *refs, T)
    elif kind == 'path':
        ps = [c for c in cs if c[1] == 'prop']
        if ps:
            c = rng.choice(ps)
            e = _E('$1.$0', _rp(q, c[0], 'any', 'agg'), T)
            of = None
    elif kind == 'nested':
        ls = [c for c in cs if c[1] == 'link']
        if ls:
            c = rng.choice(ls)
            tq = c[2]['target']
            # stored only: the SDL dependency tracer does not see computed
            # pointers used in nested shapes (declaration-order dependent failure)
            sub = [x for x in _cands(spec, tq, types, True) if x[1] == 'prop']
            if sub:
                s = rng.choice(sub)
                e = _E('select $2 { $0: { $1 } }', _rp(q, c[0], 'link:' + tq, 'agg'),
                       _rp(tq, s[0], 'any', 'agg', True), T)
    if e is None:
        e = _E('select $0', T)
    return {'mod': mod, 'name': name, 'expr': e, 'of': of}


def _mk_function(rng, spec, mod, feats):
    types = _index(spec, 'types')
    name = _fresh(rng, FUNC_NAMES, _all_names(spec))
    kinds = ['int', 'str', 'int', 'str']
    if spec.data['functions']:
        kinds.append('call')
    if 'obj_functions' in feats and types:
        kinds += ['obj', 'obj', 'count']
    if spec.data['scalars']:
        kinds.append('uscalar')
    k = rng.choice(kinds)
    f = {'mod': mod, 'name': name, 'params': [], 'ret': 'int64', 'body': None, 'vol': None,
         'retmod': None}
    if k == 'int':
        f['params'] = [{'name': 'x', 'type': 'int64', 'default': None}]
        f['body'] = _E(rng.choice(['x + 1', 'x * 2', 'x - 10']))
    elif k == 'str':
        f['params'] = [{'name': 'x', 'type': 'str', 'default': None},
                       {'name': 'y', 'type': 'str', 'default': rng.choice([None, "'a'"])}]
        f['ret'] = 'str'
        f['body'] = _E(rng.choice(['x ++ y', "x ++ '-' ++ y", 'str_upper(x) ++ y']))
    elif k == 'call':
        cands = [g for g in spec.data['functions']
                 if [p['type'] for p in g['params']] == ['int64'] and g['ret'] == 'int64']
        if cands:
            g = rng.choice(cands)
            f['params'] = [{'name': 'x', 'type': 'int64', 'default': None}]
            f['body'] = _E('$0(x) * 2', {'k': 'F', 'n': _q(g), 'args': ['int64'], 'ret': 'int64'})
        else:
            f['params'] = [{'name': 'x', 'type': 'int64', 'default': None}]
            f['body'] = _E('x + 100')
    elif k == 'obj':
        q = rng.choice(list(types))
        want = rng.choice(['str', 'int64', 'bool'])
        e = _scalar_expr(rng, spec, q, want, prefix='o.', allow_links=False)
        if e is None or any(r['k'] == 'G' for r in e['r']):
            e, want = _E("'none'"), 'str'
        f['params'] = [{'name': 'o', 'type': q, 'default': None}]
        f['ret'] = want
        f['body'] = e
    elif k == 'count':
        q = rng.choice(list(types))
        f['params'] = []
        f['body'] = _E('count($0)', {'k': 'T', 'n': q})
    elif k == 'uscalar':
        sc = rng.choice(spec.data['scalars'])
        f['params'] = [{'name': 'v', 'type': _q(sc), 'default': None}]
        f['ret'] = 'str'
        f['body'] = _E('<str>v')
    return f


def _mk_global(rng, spec, mod, feats):
    types = _index(spec, 'types')
    name = _fresh(rng, GLOBAL_NAMES, _all_names(spec))
    plain = [g for g in spec.data['globals'] if not g.get('computed')
             and _base_of(spec, g['type']) == 'str']
    if plain and types and rng.random() < 0.4:
        g0 = rng.choice(plain)
        for q in rng.sample(list(types), len(types)):
            strs = [c for c in _cands(spec, q, types)
                    if c[1] == 'prop' and c[3] == 'str' and c[4] == 'single']
            if strs:
                c = rng.choice(strs)
                return {'mod': mod, 'name': name, 'type': q, 'required': False, 'default': None,
                        'computed': _E('select $0 filter .$1 = global $2', {'k': 'T', 'n': q},
                                       _rp(q, c[0], 'str'), {'k': 'G', 'n': _q(g0), 'ty': 'str'})}
    typ = rng.choice(['str', 'str', 'int64', 'bool'])
    g = {'mod': mod, 'name': name, 'type': typ, 'required': False, 'default': None,
         'computed': None}
    if rng.random() < 0.4:
        g['default'] = _default_for(rng, spec, typ)
        g['required'] = rng.random() < 0.5
    return g


def _add_overloads(rng, spec, feats):
    types = _index(spec, 'types')
    for q, t in types.items():
        if not t['bases'] or rng.random() > 0.4:
            continue
        inh = {}
        for a in _ancestors(spec, q, types):
            for kind, p in _own_ptrs(types[a]):
                inh.setdefault(p['name'], []).append((kind, p))
        own = {p['name'] for _, p in _own_ptrs(t)}
        cands = [(n, v[0]) for n, v in sorted(inh.items())
                 if len(v) == 1 and n not in own and not v[0][1].get('computed')]
        if not cands:
            continue
        n, (kind, bp) = rng.choice(cands)
        if kind == 'prop':
            p = _new_prop(n, bp['type'], bp['card'], bp['required'] or rng.random() < 0.5)
            if 'defaults' in feats and rng.random() < 0.4:
                p['default'] = _default_for(rng, spec, bp['type'])
            if 'constraints' in feats and rng.random() < 0.3:
                c = _mk_prop_constraint(rng, spec, bp['type'], feats)
                if json.dumps(c, sort_keys=True) not in [
                        json.dumps(x, sort_keys=True) for x in bp['constraints']]:
                    p['constraints'].append(c)
            p['anns'] = _mk_anns(rng, spec, feats, 0.3)
            p['overloaded'] = True
            t['props'].append(p)
        else:
            subs = [bp['target']]
            if not bp.get('default'):
                subs += _descendants(spec, bp['target'], types)
            l = _new_link(n, rng.choice(subs), bp['card'], bp['required'] or (
                rng.random() < 0.3 and bp.get('on_delete') != 'deferred restrict'))
            l['anns'] = _mk_anns(rng, spec, feats, 0.3)
            l['overloaded'] = True
            t['links'].append(l)


def _gen_once(rng, size, feats) -> Spec:
    spec = Spec()
    d = spec.data
    mods = ['default']
    if 'modules' in feats and rng.random() < 0.5:
        mods.append(rng.choice(MODULE_NAMES))
        if 'nested_modules' in feats and rng.random() < 0.5:
            mods.append(rng.choice(mods[:2]) + '::' + rng.choice(SUBMODULE_NAMES))
    d['modules'] = mods

    def mod():
        return mods[0] if rng.random() < 0.6 else rng.choice(mods)

    if 'user_annotations' in feats and 'annotations' in feats:
        for _ in range(rng.choice([0, 1, 1, 2])):
            d['annos'].append({'mod': mod(), 'name': _fresh(rng, ANNO_NAMES, _all_names(spec)),
                               'inheritable': rng.random() < 0.4})
    if 'scalars' in feats:
        for _ in range(rng.choice([0, 1, 1, 2])):
            d['scalars'].append(_mk_scalar(rng, spec, mod(), feats))
    if 'enums' in feats:
        for _ in range(rng.choice([0, 1, 1])):
            d['scalars'].append(_mk_scalar(rng, spec, mod(), feats, enum_=True))
    if 'abstract_ptrs' in feats:
        if rng.random() < 0.3:
            d['abs_props'].append({'mod': mod(), 'name': _fresh(rng, ABS_PROP_NAMES, _all_names(spec)),
                                   'anns': _mk_anns(rng, spec, feats, 0.5)})
        if rng.random() < 0.35 and 'links' in feats:
            al = {'mod': mod(), 'name': _fresh(rng, ABS_LINK_NAMES, _all_names(spec)),
                  'props': [], 'anns': _mk_anns(rng, spec, feats, 0.3)}
            if 'linkprops' in feats and rng.random() < 0.6:
                al['props'].append(_mk_lprop(rng, spec, feats, set()))
            d['abs_links'].append(al)
    ntypes = max(0, size + rng.choice([-1, 0, 0, 1])) if size > 0 else 0
    for _ in range(ntypes):
        d['types'].append(_mk_type(rng, spec, mod(), feats))
    for t in d['types']:
        q = _q(t)
        if 'props' in feats:
            for _ in range(rng.choice([1, 1, 2, 2, 3])):
                t['props'].append(_mk_prop(rng, spec, q, feats))
    if 'links' in feats and d['types']:
        for t in d['types']:
            q = _q(t)
            for _ in range(rng.choice([0, 1, 1, 2])):
                l = _mk_link(rng, spec, q, feats)
                if l:
                    t['links'].append(l)
        if 'self_link' in feats and rng.random() < 0.3:
            t = rng.choice(d['types'])
            l = _mk_link(rng, spec, _q(t), feats, target=_q(t))
            l['required'] = False
            t['links'].append(l)
        if 'link_cycle' in feats and len(d['types']) >= 2 and rng.random() < 0.4:
            a, b = rng.sample(d['types'], 2)
            a['links'].append(_mk_link(rng, spec, _q(a), feats, target=_q(b)))
            b['links'].append(_mk_link(rng, spec, _q(b), feats, target=_q(a)))
    if 'overloaded' in feats and 'inherit' in feats:
        _add_overloads(rng, spec, feats)
    if 'globals' in feats:
        for _ in range(rng.choice([0, 0, 1, 2])):
            d['globals'].append(_mk_global(rng, spec, mod(), feats))
    for t in d['types']:
        q = _q(t)
        if 'computed_props' in feats and rng.random() < 0.45:
            t['props'].append(_mk_computed_prop(rng, spec, q, feats))
        if 'computed_links' in feats and rng.random() < 0.4:
            l = _mk_computed_link(rng, spec, q, feats)
            if l:
                t['links'].append(l)
        if 'obj_constraints' in feats and 'constraints' in feats and rng.random() < 0.3:
            c = _mk_obj_constraint(rng, spec, q)
            if c:
                t['constraints'].append(c)
        if 'indexes' in feats and rng.random() < 0.4:
            i = _mk_index(rng, spec, q)
            if i:
                i['anns'] = _mk_anns(rng, spec, feats, 0.15, 1)
                t['indexes'].append(i)
    if 'functions' in feats:
        for _ in range(rng.choice([0, 1, 1, 2])):
            d['functions'].append(_mk_function(rng, spec, mod(), feats))
    if 'aliases' in feats:
        for _ in range(rng.choice([0, 1, 1, 2])):
            a = _mk_alias(rng, spec, mod(), feats)
            if a:
                d['aliases'].append(a)
    if 'shared_ptrs' in feats:
        for _ in range(rng.choice([1, 1, 2])):
            _shared_family(rng, spec, feats, mod())
    _fix_overloaded(spec)
    if 'pinned_facets' in feats:
        _unpin_randomly(rng, spec)
    _fix_overloaded(spec)
    _prune(spec)
    return spec


def gen_spec(rng, size: int = 4, features=None) -> Spec:
    """Random schema with about `size` object types (0 gives a type-less schema
    that may still contain scalars / functions / globals).  `features`
    restricts generation to the named feature groups (see `FEATURES`; default
    all; 'types' is implied).  The result satisfies ``check(spec) == []``."""
    feats = set(DEFAULT_FEATURES if features is None else features)
    unknown = feats - set(FEATURES)
    if unknown:
        raise ValueError(f'unknown features: {sorted(unknown)}')
    last = None
    for _ in range(20):
        spec = _gen_once(rng, size, feats)
        last = check(spec)
        if not last:
            return spec
    raise RuntimeError(f'gen_spec: cannot produce a valid spec: {last[:3]}')


def features_of(spec) -> set:
    """Feature groups (names from `FEATURES`) that `spec` actually uses."""
    d = spec.data
    out = set()
    types = _index(spec, 'types')
    if d['types']:
        out.add('types')
    if len(d['modules']) > 1 or any(e['mod'] != 'default' for s in _SECTIONS for e in d[s]):
        out.add('modules')
    if any('::' in m for m in d['modules']):
        out.add('nested_modules')
    if d['annos']:
        out.add('user_annotations')
    if any(s['base'] != 'enum' for s in d['scalars']):
        out.add('scalars')
    if any(s['base'] == 'enum' for s in d['scalars']):
        out.add('enums')
    if d['abs_links'] or d['abs_props']:
        out.add('abstract_ptrs')
    if d['aliases']:
        out.add('aliases')
    if any(': {' in a['expr']['t'] for a in d['aliases']):
        out.add('nested_alias_shapes')
    if d['functions']:
        out.add('functions')
    if any(p['type'] in types for f in d['functions'] for p in f['params']):
        out.add('obj_functions')
    if d['globals']:
        out.add('globals')

    def anns(a):
        if a:
            out.add('annotations')

    for sc in d['scalars']:
        anns(sc['anns'])
    for q, t in types.items():
        anns(t['anns'])
        if t['abstract']:
            out.add('abstract')
        if t['bases']:
            out.add('inherit')
        if len(t['bases']) > 1:
            out.add('multi_inherit')
        if t['constraints']:
            out.update(('constraints', 'obj_constraints'))
        if t['indexes']:
            out.add('indexes')
        for kind, p in _own_ptrs(t):
            anns(p['anns'])
            if p.get('overloaded'):
                out.add('overloaded')
            if p['constraints']:
                out.add('constraints')
            if any(c.get('delegated') for c in p['constraints']):
                out.add('delegated')
            if p.get('default'):
                out.add('defaults')
            if kind == 'prop':
                out.add('props')
                if p.get('computed'):
                    out.add('computed_props')
                elif p['card'] == 'multi':
                    out.add('multi_props')
                if not p.get('computed') and p['type'] not in BUILTIN_SCALARS:
                    out.add('enums' if _base_of(spec, p['type']).startswith('enum:') else 'scalars')
            else:
                out.add('links')
                if p.get('computed'):
                    out.add('computed_links')
                    if '.<' in p['computed']['t']:
                        out.add('backlinks')
                else:
                    if p['target'] == q:
                        out.add('self_link')
                    if p['props'] or (p.get('extending') and _link_props(spec, p)):
                        out.add('linkprops')
    # link cycles between distinct types
    graph = {q: {l['target'] for l in t['links'] if not l.get('computed') and l['target'] != q}
             for q, t in types.items()}

    def reach(a, b, seen):
        for n in graph.get(a, ()):
            if n == b or (n not in seen and reach(n, b, seen | {n})):
                return True
        return False
    if any(reach(q, q, {q}) for q in graph):
        out.add('link_cycle')
    return out


# ======================================================================
# 5. mutations
# ======================================================================

def _map_str(x, mapping):
    for pre in ('', 'link:', 'enum:'):
        if x.startswith(pre) and x[len(pre):] in mapping and (pre or x in mapping):
            return pre + mapping[x[len(pre):]]
    return x


def _replace_strings(x, mapping):
    if isinstance(x, dict):
        if x.get('k') == 'F':
            x['args'] = [_map_str(a, mapping) for a in x['args']]
        for k, v in x.items():
            if k in ('t', 'value', 'name', 'errmessage', 'labels', 'args', 'l'):
                if not (k == 'name' and isinstance(v, str) and '::' in v):
                    continue        # literal text / short names: never a qualified reference
            x[k] = _replace_strings(v, mapping)
        return x
    if isinstance(x, list):
        for i, v in enumerate(x):
            x[i] = _replace_strings(v, mapping)
        return x
    if isinstance(x, str):
        return _map_str(x, mapping)
    return x


def _rename_objects(spec, mapping) -> None:
    """simultaneously rename module-level objects: {old qual: new qual}"""
    moved = []
    for s in _SECTIONS:
        for e in spec.data[s]:
            if _q(e) in mapping:
                moved.append((e, mapping[_q(e)]))
    _replace_strings(spec.data, mapping)
    for e, new in moved:
        e['mod'], e['name'] = _split(new)


def _walk_refs(x):
    if isinstance(x, dict):
        if 'k' in x and x.get('k') in ('p', 'lp', 'T', 'E', 'F', 'G'):
            yield x
        else:
            for v in x.values():
                yield from _walk_refs(v)
    elif isinstance(x, list):
        for v in x:
            yield from _walk_refs(v)


def _rename_ptr(spec, q, old, new) -> None:
    types = _index(spec, 'types')
    fam = [q] + _descendants(spec, q, types)
    for t in fam:
        for _, p in _own_ptrs(types[t]):
            if p['name'] == old:
                p['name'] = new
    for r in _walk_refs(spec.data):
        if r['k'] == 'p' and r['n'] == old and r['o'] in fam:
            r['n'] = new
        elif r['k'] == 'lp' and r['l'] == old and r['o'] in fam:
            r['l'] = new


def _roots(spec, kind, computed=None):
    """[(type qual, entry)] of own, non-overloaded pointers of `kind`; `computed`
    True/False restricts to computed / stored pointers"""
    out = []
    for t in spec.data['types']:
        for k, p in _own_ptrs(t):
            if k == kind and not p.get('overloaded'):
                if computed is None or bool(p.get('computed')) == computed:
                    out.append((_q(t), p))
    return out


def _overloads(spec, q, name):
    types = _index(spec, 'types')
    return [p for t in _descendants(spec, q, types) for _, p in _own_ptrs(types[t])
            if p['name'] == name]


def _drop_ptr(spec, q, name) -> None:
    types = _index(spec, 'types')
    if q not in types:
        return
    t = types[q]
    was_root = any(p['name'] == name and not p.get('overloaded') for _, p in _own_ptrs(t))
    t['props'] = [p for p in t['props'] if p['name'] != name]
    t['links'] = [p for p in t['links'] if p['name'] != name]
    if was_root:
        for d in _descendants(spec, q, types):
            types[d]['props'] = [p for p in types[d]['props'] if p['name'] != name]
            types[d]['links'] = [p for p in types[d]['links'] if p['name'] != name]


def _drop_object(spec, qual) -> None:
    for s in _SECTIONS:
        spec.data[s][:] = [e for e in spec.data[s] if _q(e) != qual]


def _rand_mod(rng, spec):
    return rng.choice(spec.data['modules'])


# ---- individual mutations: fn(rng, spec, feats) -> tag | None (mutates in place)

def m_rename_type(rng, spec, feats):
    if not spec.data['types']:
        return None
    t = rng.choice(spec.data['types'])
    new = _fresh(rng, TYPE_NAMES, _all_names(spec))
    _rename_objects(spec, {_q(t): f"{t['mod']}::{new}"})
    return 'rename_type'


def _m_rename_ptr(rng, spec, kind, pool):
    c = _roots(spec, kind)
    if not c:
        return None
    q, p = rng.choice(c)
    fam = PROP_NAMES.get(_base_of(spec, p['type']), PROP_NAMES['str']) if kind == 'prop' and \
        not p.get('computed') else pool
    new = _fresh(rng, fam, _family_ptr_names(spec, q) | RESERVED_PTR_NAMES)
    _rename_ptr(spec, q, p['name'], new)
    return True


def m_rename_prop(rng, spec, feats):
    return 'rename_prop' if _m_rename_ptr(rng, spec, 'prop', COMPUTED_NAMES) else None


def m_rename_link(rng, spec, feats):
    return 'rename_link' if _m_rename_ptr(rng, spec, 'link', LINK_NAMES) else None


def m_rename_linkprop(rng, spec, feats):
    c = [(q, l) for q, l in _roots(spec, 'link', False) if l['props']]
    if not c:
        return None
    q, l = rng.choice(c)
    lp = rng.choice(l['props'])
    new = _fresh(rng, LPROP_NAMES, {x['name'] for x in _link_props(spec, l)} | RESERVED_PTR_NAMES)
    fam = [q] + _descendants(spec, q)
    for r in _walk_refs(spec.data):
        if r['k'] == 'lp' and r['o'] in fam and r['l'] == l['name'] and r['n'] == lp['name']:
            r['n'] = new
    lp['name'] = new
    return 'rename_linkprop'


def m_add_type(rng, spec, feats):
    t = _mk_type(rng, spec, _rand_mod(rng, spec), feats)
    spec.data['types'].append(t)
    q = _q(t)
    for _ in range(rng.randint(1, 2)):
        t['props'].append(_mk_prop(rng, spec, q, feats))
    if rng.random() < 0.5:
        l = _mk_link(rng, spec, q, feats)
        if l:
            t['links'].append(l)
    if rng.random() < 0.4 and len(spec.data['types']) > 1:
        o = rng.choice(spec.data['types'][:-1])
        l = _mk_link(rng, spec, _q(o), feats, target=q)
        o['links'].append(l)
    return 'add_type'


def m_drop_type(rng, spec, feats):
    if not spec.data['types']:
        return None
    _drop_object(spec, _q(rng.choice(spec.data['types'])))
    return 'drop_type'


def m_add_prop(rng, spec, feats):
    if not spec.data['types']:
        return None
    t = rng.choice(spec.data['types'])
    if rng.random() < 0.25:
        t['props'].append(_mk_computed_prop(rng, spec, _q(t), feats))
        return 'add_prop:computed'
    t['props'].append(_mk_prop(rng, spec, _q(t), feats))
    return 'add_prop'


def m_drop_prop(rng, spec, feats):
    c = [(_q(t), p) for t in spec.data['types'] for p in t['props']]
    if not c:
        return None
    q, p = rng.choice(c)
    _drop_ptr(spec, q, p['name'])
    return 'drop_prop'


def m_add_link(rng, spec, feats):
    if not spec.data['types']:
        return None
    t = rng.choice(spec.data['types'])
    if rng.random() < 0.25:
        l = _mk_computed_link(rng, spec, _q(t), feats)
        if l:
            t['links'].append(l)
            return 'add_link:computed'
    l = _mk_link(rng, spec, _q(t), feats)
    if l is None:
        return None
    t['links'].append(l)
    return 'add_link'


def m_drop_link(rng, spec, feats):
    c = [(_q(t), p) for t in spec.data['types'] for p in t['links']]
    if not c:
        return None
    q, p = rng.choice(c)
    _drop_ptr(spec, q, p['name'])
    return 'drop_link'


def m_add_linkprop(rng, spec, feats):
    c = [l for _, l in _roots(spec, 'link', False)]
    if not c:
        return None
    l = rng.choice(c)
    l['props'].append(_mk_lprop(rng, spec, feats, {x['name'] for x in _link_props(spec, l)}))
    return 'add_linkprop'


def m_drop_linkprop(rng, spec, feats):
    c = [l for t in spec.data['types'] for l in t['links'] if l['props']]
    if not c:
        return None
    l = rng.choice(c)
    l['props'].remove(rng.choice(l['props']))
    return 'drop_linkprop'


def m_add_base(rng, spec, feats):
    types = _index(spec, 'types')
    if len(types) < 2:
        return None
    q = rng.choice(list(types))
    cands = [b for b in types if b != q and b not in _ancestors(spec, q, types)
             and q not in _ancestors(spec, b, types)]
    if not cands:
        return None
    b = rng.choice(cands)
    t = types[q]
    # drop bases that are ancestors of the new base (keeps the MRO consistent)
    t['bases'] = [x for x in t['bases'] if x not in _ancestors(spec, b, types)]
    if rng.random() < 0.5:
        t['bases'].append(b)
    else:
        t['bases'].insert(0, b)
    return 'add_base'


def m_drop_base(rng, spec, feats):
    c = [t for t in spec.data['types'] if t['bases']]
    if not c:
        return None
    t = rng.choice(c)
    t['bases'].remove(rng.choice(t['bases']))
    return 'drop_base'


def m_change_base(rng, spec, feats):
    types = _index(spec, 'types')
    c = [q for q, t in types.items() if t['bases']]
    if not c:
        return None
    q = rng.choice(c)
    cands = [b for b in types if b != q and b not in types[q]['bases']
             and q not in _ancestors(spec, b, types)]
    if not cands:
        return None
    i = rng.randrange(len(types[q]['bases']))
    types[q]['bases'][i] = rng.choice(cands)
    return 'change_base'


def m_reorder_bases(rng, spec, feats):
    c = [t for t in spec.data['types'] if len(t['bases']) > 1]
    if not c:
        return None
    rng.choice(c)['bases'].reverse()
    return 'reorder_bases'


def _plain_type(rng, spec, mod):
    """a fresh object type without pointers (a mixin): can be combined with any other base without conflicts"""
    t = {'mod': mod, 'name': _fresh(rng, TYPE_NAMES, _all_names(spec)), 'abstract': False,
         'bases': [], 'props': [], 'links': [], 'constraints': [], 'indexes': [], 'anns': []}
    spec.data['types'].append(t)
    return _q(t)


def m_rebase_multi(rng, spec, feats):
    """multi-group rebase: >= 2 NEW bases (fresh pointer-less types created by the same step) inserted at
    DIFFERENT positions among the retained bases -> several `EXTENDING x BEFORE y` groups (+ a LAST group)"""
    c = [t for t in spec.data['types'] if len(t['bases']) >= 2]
    if not c:
        return None
    t = rng.choice(c)
    slots = sorted(rng.sample(range(len(t['bases']) + 1), rng.randint(2, min(3, len(t['bases']) + 1))), reverse=True)
    for sl in slots:
        t['bases'][sl:sl] = [_plain_type(rng, spec, t['mod']) for _ in range(rng.choice([1, 1, 2]))]
    return f'rebase_multi:{len(slots)}groups'


def m_drop_adjacent_bases(rng, spec, feats):
    """drop two bases that are ADJACENT in the base list in one step"""
    c = [t for t in spec.data['types'] if len(t['bases']) >= 2]
    if not c:
        return None
    t = rng.choice(c)
    i = rng.randrange(len(t['bases']) - 1)
    del t['bases'][i:i + 2]
    return 'drop_adjacent_bases'


def _shared_family(rng, spec, feats, mod='default'):
    """a same-named pointer provided by 2-3 unrelated parents, inherited by a non-overloading child and a grandchild"""
    d = spec.data
    used_types = _all_names(spec)

    def fresh_type():
        t = {'mod': mod, 'name': _fresh(rng, TYPE_NAMES, _all_names(spec)), 'abstract': False,
             'bases': [], 'props': [], 'links': [], 'constraints': [], 'indexes': [], 'anns': []}
        d['types'].append(t)
        return t
    k = rng.choice([2, 2, 3])
    parents = [fresh_type() for _ in range(k)]
    all_ptr = set()
    for t in d['types']:
        all_ptr.update(p['name'] for _, p in _own_ptrs(t))
    kind = rng.choice(['prop', 'prop', 'link'])
    if kind == 'prop':
        typ = rng.choice(['str', 'int64', 'bool', 'float64'])
        name = _fresh(rng, PROP_NAMES.get(typ, PROP_NAMES['str']), all_ptr | RESERVED_PTR_NAMES)
        for i, t in enumerate(parents):
            p = _new_prop(name, typ)
            if 'constraints' in feats and rng.random() < 0.3:
                p['constraints'].append({'kind': 'exclusive', 'args': [], 'on': None, 'delegated': False})
            if 'annotations' in feats and rng.random() < 0.3:
                p['anns'].append({'name': 'title', 'value': 'shared ' + str(i)})
            p['required'] = rng.random() < 0.25
            t['props'].append(p)
    else:
        tgt = fresh_type()
        name = _fresh(rng, LINK_NAMES, all_ptr | RESERVED_PTR_NAMES)
        for i, t in enumerate(parents):
            l = _new_link(name, _q(tgt))
            if 'linkprops' in feats and rng.random() < 0.5:
                l['props'].append(_new_prop('lp_note' if rng.random() < 0.7 else f'lp_{i}', 'str'))
            if 'annotations' in feats and rng.random() < 0.3:
                l['anns'].append({'name': 'title', 'value': 'shared ' + str(i)})
            l['required'] = rng.random() < 0.25
            t['links'].append(l)
    if rng.random() < 0.4:
        extra = rng.choice(parents)
        extra['props'].append(_new_prop(_fresh(rng, PROP_NAMES['int64'], all_ptr | {name} | RESERVED_PTR_NAMES), 'int64'))
    child = fresh_type()
    child['bases'] = [_q(t) for t in rng.sample(parents, len(parents))]
    grand = fresh_type()
    grand['bases'] = [_q(child)]
    return name


def shared_sites(spec) -> list:
    """[(child qual, pointer name, [owner quals])]: pointers that a type inherits, without overloading them, from
    two or more of its ancestors none of which is an ancestor of another"""
    types = _index(spec, 'types')
    out = []
    for q, t in types.items():
        if len(t['bases']) < 2:
            continue
        own = {p['name'] for _, p in _own_ptrs(t)}
        for name, defs in _visible(spec, q, types).items():
            owners = [o for o, _, _ in defs if o != q]
            if name in own or len(owners) < 2:
                continue
            if any(o1 != o2 and o1 in _ancestors(spec, o2, types) for o1 in owners for o2 in owners):
                continue
            out.append((q, name, owners))
    return out


def _own_entry(t, name):
    for kind, p in _own_ptrs(t):
        if p['name'] == name:
            return kind, p
    return None, None


def _remove_own(t, name):
    t['props'] = [p for p in t['props'] if p['name'] != name]
    t['links'] = [p for p in t['links'] if p['name'] != name]


def m_shared_drop_one(rng, spec, feats):
    """drop the shared pointer from ONE of the providing parents only"""
    c = shared_sites(spec)
    if not c:
        return None
    q, name, owners = rng.choice(c)
    _remove_own(_index(spec, 'types')[rng.choice(owners)], name)
    return 'shared_drop_from_one_parent'


def m_shared_alter_one(rng, spec, feats):
    """change the shared pointer in ONE parent only: toggle required, or (link) retarget to a subtype"""
    c = shared_sites(spec)
    if not c:
        return None
    q, name, owners = rng.choice(c)
    types = _index(spec, 'types')
    t = types[rng.choice(owners)]
    kind, p = _own_entry(t, name)
    if p is None or p.get('computed'):
        return None
    if kind == 'link' and rng.random() < 0.5:
        subs = [d for d in _descendants(spec, p['target'], types)]
        if not subs:
            st = {'mod': types[p['target']]['mod'], 'name': _fresh(rng, TYPE_NAMES, _all_names(spec)), 'abstract': False,
                  'bases': [p['target']], 'props': [], 'links': [], 'constraints': [], 'indexes': [], 'anns': []}
            spec.data['types'].append(st)
            subs = [_q(st)]
        p['target'] = rng.choice(subs)
        return 'shared_retarget_subtype_in_one_parent'
    p['required'] = not p['required']
    if p['required']:
        p['default'] = None
    return 'shared_required_in_one_parent:' + ('on' if p['required'] else 'off')


def m_shared_add_second(rng, spec, feats):
    """give a second parent of an existing child a pointer with the name of one that the child inherits from
    another parent"""
    types = _index(spec, 'types')
    c = []
    for q, t in types.items():
        if len(t['bases']) < 2:
            continue
        own = {p['name'] for _, p in _own_ptrs(t)}
        for b in t['bases']:
            for name, defs in _visible(spec, b, types).items():
                if name in own or name in RESERVED_PTR_NAMES or defs[0][2].get('computed'):
                    continue
                for b2 in t['bases']:
                    if b2 != b and name not in _visible(spec, b2, types) and not any(
                            name in {p['name'] for _, p in _own_ptrs(types[dd])} for dd in _descendants(spec, b2, types)):
                        c.append((b2, defs[0][1], defs[0][2]))
    if not c:
        return None
    b2, kind, p = rng.choice(c)
    cp = copy.deepcopy(p)
    cp['overloaded'] = False
    cp['constraints'], cp['anns'], cp['default'], cp['extending'] = [], [], None, None
    if kind == 'link':
        cp['props'] = []
    types[b2]['props' if kind == 'prop' else 'links'].append(cp)
    return 'shared_add_to_second_parent'


def m_shared_remove_parent(rng, spec, feats):
    """remove one of the providing parents from the child's bases"""
    c = shared_sites(spec)
    if not c:
        return None
    q, name, owners = rng.choice(c)
    types = _index(spec, 'types')
    t = types[q]
    direct = [b for b in t['bases'] if b in owners or any(o in _ancestors(spec, b, types) for o in owners)]
    if not direct:
        return None
    t['bases'].remove(rng.choice(direct))
    return 'shared_remove_parent_base'


def m_reparent_overload_away(rng, spec, feats):
    """re-parent a type that OWNS an overload of an inherited pointer so that no remaining base defines the pointer
    (the type keeps it as a pointer of its own); bases are replaced by a fresh pointer-less type or dropped"""
    types = _index(spec, 'types')
    c = []
    for q, t in types.items():
        if t['bases'] and any(p.get('overloaded') for _, p in _own_ptrs(t)):
            c.append(q)
    if not c:
        return None
    q = rng.choice(c)
    t = types[q]
    if rng.random() < 0.7:
        t['bases'] = [_plain_type(rng, spec, t['mod'])]
        return 'reparent_overload_away:new_base'
    t['bases'] = []
    return 'reparent_overload_away:no_base'


def _pin_sites(spec, want_unpinned):
    """[(entry, facet)]: facets of overloaded pointers that are currently stated locally with the value they would
    inherit anyway (want_unpinned=False) or currently left to inheritance (want_unpinned=True)"""
    types = _index(spec, 'types')
    out = []
    for q, t in types.items():
        for _, p in _own_ptrs(t):
            if not p.get('overloaded') or p.get('computed'):
                continue
            inh = [d for o, _, d in _visible(spec, q, types).get(p['name'], []) if o != q]
            if not inh:
                continue
            un = p.get('unpin') or []
            cands = []
            if p['required'] and all(d['required'] for d in inh):
                cands.append('required')
            if p['card'] == 'multi' and all(d['card'] == 'multi' for d in inh):
                cands.append('multi')
            if p.get('readonly') and all(d.get('readonly') for d in inh):
                cands.append('readonly')
            for f in cands:
                if (f in un) == want_unpinned:
                    out.append((p, f))
    return out


def m_unpin_facet(rng, spec, feats):
    """stop stating an inheritable facet (required / multi / readonly) of an overloaded pointer locally: the value is
    the one it inherits anyway, only the inherited-vs-local status changes"""
    c = _pin_sites(spec, False)
    if not c:
        return None
    p, f = rng.choice(c)
    p['unpin'] = sorted(set(p.get('unpin') or []) | {f})
    return 'unpin_facet:' + f


def m_pin_facet(rng, spec, feats):
    """state an inheritable facet of an overloaded pointer locally with the value it inherits anyway"""
    c = _pin_sites(spec, True)
    if not c:
        return None
    p, f = rng.choice(c)
    p['unpin'] = sorted(set(p.get('unpin') or []) - {f})
    return 'pin_facet:' + f


def m_parent_facet_toggle(rng, spec, feats):
    """change an inheritable facet (required) of a pointer that some subtype overloads"""
    types = _index(spec, 'types')
    c = []
    for q, t in types.items():
        for _, p in _own_ptrs(t):
            if p.get('overloaded') and not p.get('computed'):
                for o, _, d in _visible(spec, q, types).get(p['name'], []):
                    if o != q and not d.get('computed') and not d.get('overloaded'):
                        c.append(d)
    if not c:
        return None
    d = rng.choice(c)
    d['required'] = not d['required']
    if d['required']:
        d['default'] = None
    return 'parent_facet_toggle:required_' + ('on' if d['required'] else 'off')


PIN_MUTATIONS = ('pin_facet', 'unpin_facet', 'parent_facet_toggle')


def _unpin_randomly(rng, spec):
    """feature 'pinned_facets': leave some facets of generated overloads to inheritance"""
    for p, f in _pin_sites(spec, False):
        if rng.random() < 0.5:
            p['unpin'] = sorted(set(p.get('unpin') or []) | {f})


SHARED_MUTATIONS = ('shared_drop_from_one_parent', 'shared_alter_in_one_parent', 'shared_add_to_second_parent',
                    'shared_remove_parent_base')


def m_toggle_abstract(rng, spec, feats):
    if not spec.data['types']:
        return None
    t = rng.choice(spec.data['types'])
    t['abstract'] = not t['abstract']
    return 'toggle_abstract:' + ('to_abstract' if t['abstract'] else 'to_concrete')


# re-typing: POPULATE MIGRATION accepts a SET TYPE without USING exactly when an
# assignment cast exists (measured with scratch/gen/matrix.py): same base family
# (str <-> user scalar extending str, user scalar -> base ...), any int -> any
# int / float64 (int64 -> int32 included), str family -> enum.  Everything else
# (float64 -> int64, * -> str, * -> bool, enum -> *) is refused: "hard".
def _easy_retype(fo, fn) -> bool:
    if fo == fn:
        return True
    if fo in _INT and fn in _NUM:
        return True
    if fo == 'str' and fn.startswith('enum:'):
        return True
    return False


def _retype(rng, spec, feats, hard):
    c = [(q, p) for q, p in _roots(spec, 'prop', False)]
    rng.shuffle(c)
    scal = _index(spec, 'scalars')
    for q, p in c:
        old = p['type']
        fo = _base_of(spec, old)
        opts = []
        for new in list(BUILTIN_SCALARS) + list(scal):
            if new == old:
                continue
            fn = _base_of(spec, new)
            if _easy_retype(fo, fn) != hard:
                opts.append(new)
        if not opts:
            continue
        new = rng.choice(opts)
        fn = _base_of(spec, new)
        for x in [p] + _overloads(spec, q, p['name']):
            x['type'] = new
            x['constraints'] = [k for k in x['constraints'] if _cons_fits(k['kind'], fn, 'prop')
                                and (fo == fn or k['kind'] == 'exclusive' and not k.get('on'))]
            if x.get('default'):
                x['default'] = _default_for(rng, spec, new)
        return f'{fo.split(":")[0]}->{fn.split(":")[0]}'
    return None


def m_retype_prop(rng, spec, feats):
    r = _retype(rng, spec, feats, False)
    return r and 'retype_prop:' + r


def m_retype_prop_hard(rng, spec, feats):
    r = _retype(rng, spec, feats, True)
    return r and 'retype_prop_hard:' + r


def _retarget(rng, spec, hard):
    types = _index(spec, 'types')
    c = _roots(spec, 'link', False)
    rng.shuffle(c)
    for q, l in c:
        if _overloads(spec, q, l['name']):
            continue
        anc = _ancestors(spec, l['target'], types)
        opts = anc if not hard else [x for x in types if x != l['target'] and x not in anc]
        if opts:
            l['target'] = rng.choice(opts)
            l['default'] = None
            return True
    return None


def m_retarget_link(rng, spec, feats):
    return 'retarget_link' if _retarget(rng, spec, False) else None


def m_retarget_link_hard(rng, spec, feats):
    return 'retarget_link_hard' if _retarget(rng, spec, True) else None


def _stored_roots(spec):
    return _roots(spec, 'prop', False) + _roots(spec, 'link', False)


def _set_all(spec, q, p, key, val):
    for x in [p] + _overloads(spec, q, p['name']):
        x[key] = val


def m_card_to_multi(rng, spec, feats):
    c = [(q, p) for q, p in _stored_roots(spec) if p['card'] == 'single' and not p.get('readonly')]
    if not c:
        return None
    q, p = rng.choice(c)
    _set_all(spec, q, p, 'card', 'multi')
    return 'card_to_multi'


def m_card_to_single_hard(rng, spec, feats):
    c = [(q, p) for q, p in _stored_roots(spec) if p['card'] == 'multi']
    if not c:
        return None
    q, p = rng.choice(c)
    _set_all(spec, q, p, 'card', 'single')
    return 'card_to_single_hard'


def m_make_optional(rng, spec, feats):
    c = [(q, p) for q, p in _stored_roots(spec) if p['required']]
    if not c:
        return None
    q, p = rng.choice(c)
    _set_all(spec, q, p, 'required', False)
    return 'make_optional'


def m_make_required(rng, spec, feats):
    c = [(q, p) for q, p in _stored_roots(spec) if not p['required']
         and not ('target' in p and p.get('on_delete') == 'deferred restrict')]
    if not c:
        return None
    q, p = rng.choice(c)
    p['required'] = True
    return 'make_required'


def _all_stored_ptrs(spec):
    return [(t, k, p) for t in spec.data['types'] for k, p in _own_ptrs(t) if not p.get('computed')]


def m_add_constraint(rng, spec, feats):
    if not spec.data['types']:
        return None
    if rng.random() < 0.35:
        t = rng.choice(spec.data['types'])
        c = _mk_obj_constraint(rng, spec, _q(t))
        if c:
            t['constraints'].append(c)
            return 'add_constraint:object'
    c = _all_stored_ptrs(spec)
    if not c:
        return None
    t, k, p = rng.choice(c)
    if k == 'link':
        con = {'kind': 'exclusive', 'args': [], 'on': None, 'delegated': False}
    else:
        con = _mk_prop_constraint(rng, spec, p['type'], feats, t['abstract'])
    if json.dumps(con, sort_keys=True) in [json.dumps(x, sort_keys=True) for x in p['constraints']]:
        return None
    if any(x['kind'] == con['kind'] and x.get('on') == con.get('on') and x['args'] == con['args']
           for x in p['constraints']):
        return None
    p['constraints'].append(con)
    return 'add_constraint:' + k


def _constraint_holders(spec):
    out = []
    for t in spec.data['types']:
        if t['constraints']:
            out.append(t['constraints'])
        for _, p in _own_ptrs(t):
            if p['constraints']:
                out.append(p['constraints'])
            for lp in p.get('props', []):
                if lp['constraints']:
                    out.append(lp['constraints'])
    for sc in spec.data['scalars']:
        if sc['constraints']:
            out.append(sc['constraints'])
    return out


def m_drop_constraint(rng, spec, feats):
    h = _constraint_holders(spec)
    if not h:
        return None
    lst = rng.choice(h)
    lst.remove(rng.choice(lst))
    return 'drop_constraint'


def m_alter_constraint(rng, spec, feats):
    cs = [c for lst in _constraint_holders(spec) for c in lst]
    rng.shuffle(cs)
    for c in cs:
        if c['kind'] in ('max_len_value', 'min_len_value'):
            c['args'] = [str(int(c['args'][0]) + rng.choice([1, 7]))]
            return 'alter_constraint:args'
        if c['kind'] == 'exclusive' and not c.get('on'):
            c['delegated'] = not c.get('delegated')
            return 'alter_constraint:delegated'
        if c['kind'] != 'exclusive':
            c['errmessage'] = None if c.get('errmessage') else 'msg ' + rng.choice(WORDS)
            return 'alter_constraint:errmessage'
    return None


def m_add_index(rng, spec, feats):
    if not spec.data['types']:
        return None
    t = rng.choice(spec.data['types'])
    i = _mk_index(rng, spec, _q(t))
    if i is None or any(x['on'] == i['on'] for x in t['indexes']):
        return None
    t['indexes'].append(i)
    return 'add_index'


def m_drop_index(rng, spec, feats):
    c = [t for t in spec.data['types'] if t['indexes']]
    if not c:
        return None
    t = rng.choice(c)
    t['indexes'].remove(rng.choice(t['indexes']))
    return 'drop_index'


def _ann_holders(spec):
    out = []
    for t in spec.data['types']:
        out.append(t['anns'])
        for _, p in _own_ptrs(t):
            out.append(p['anns'])
        for i in t['indexes']:
            out.append(i.setdefault('anns', []))
    for s in ('scalars', 'abs_links', 'abs_props'):
        for e in spec.data[s]:
            out.append(e['anns'])
    return out


def m_add_annotation(rng, spec, feats):
    h = _ann_holders(spec)
    if not h:
        return None
    lst = rng.choice(h)
    names = ['title', 'description'] + [_q(a) for a in spec.data['annos']]
    names = [n for n in names if n not in [a['name'] for a in lst]]
    if not names:
        return None
    lst.append({'name': rng.choice(names), 'value': rng.choice(WORDS)})
    return 'add_annotation'


def m_drop_annotation(rng, spec, feats):
    h = [x for x in _ann_holders(spec) if x]
    if not h:
        return None
    lst = rng.choice(h)
    lst.remove(rng.choice(lst))
    return 'drop_annotation'


def m_alter_annotation(rng, spec, feats):
    h = [x for x in _ann_holders(spec) if x]
    if not h:
        return None
    a = rng.choice(rng.choice(h))
    a['value'] = a['value'] + ' ' + rng.choice(WORDS)
    return 'alter_annotation'


def m_add_abstract_annotation(rng, spec, feats):
    spec.data['annos'].append({'mod': _rand_mod(rng, spec),
                               'name': _fresh(rng, ANNO_NAMES, _all_names(spec)),
                               'inheritable': rng.random() < 0.5})
    if spec.data['types']:
        rng.choice(spec.data['types'])['anns'].append(
            {'name': _q(spec.data['annos'][-1]), 'value': rng.choice(WORDS)})
    return 'add_abstract_annotation'


def m_drop_abstract_annotation(rng, spec, feats):
    if not spec.data['annos']:
        return None
    _drop_object(spec, _q(rng.choice(spec.data['annos'])))
    return 'drop_abstract_annotation'


def m_toggle_inheritable(rng, spec, feats):
    if not spec.data['annos']:
        return None
    a = rng.choice(spec.data['annos'])
    a['inheritable'] = not a['inheritable']
    return 'toggle_inheritable'


def m_add_default(rng, spec, feats):
    c = [p for t, k, p in _all_stored_ptrs(spec) if k == 'prop' and not p.get('default')]
    if not c:
        return None
    p = rng.choice(c)
    p['default'] = _default_for(rng, spec, p['type'])
    return 'add_default'


def m_drop_default(rng, spec, feats):
    c = [p for t, k, p in _all_stored_ptrs(spec) if p.get('default')]
    if not c:
        return None
    rng.choice(c)['default'] = None
    return 'drop_default'


def m_alter_default(rng, spec, feats):
    c = [p for t, k, p in _all_stored_ptrs(spec) if k == 'prop' and p.get('default')]
    rng.shuffle(c)
    for p in c:
        for _ in range(5):
            d = _default_for(rng, spec, p['type'])
            if d != p['default']:
                p['default'] = d
                return 'alter_default'
    return None


def _computed(spec, kind):
    return [(_q(t), p) for t in spec.data['types'] for k, p in _own_ptrs(t)
            if k == kind and p.get('computed')]


def m_change_computed(rng, spec, feats):
    c = _computed(spec, 'prop') + _computed(spec, 'link')
    if not c:
        return None
    q, p = rng.choice(c)
    if 'target' in p:
        n = _mk_computed_link(rng, spec, q, feats, used=set(), exclude=(p['name'],))
        if n is None or n['computed'] == p['computed']:
            return None
        p['computed'], p['target'], p['card'] = n['computed'], n['target'], n['card']
        return 'change_computed:link'
    n = _mk_computed_prop(rng, spec, q, feats, used=set(), exclude=(p['name'],))
    if n['computed'] == p['computed']:
        return None
    p['computed'], p['type'] = n['computed'], n['type']
    return 'change_computed:prop'


def m_computed_to_stored(rng, spec, feats):
    c = _computed(spec, 'prop') + _computed(spec, 'link')
    if not c:
        return None
    q, p = rng.choice(c)
    p['card'] = _expr_card(spec, p['computed'])
    p['computed'] = None
    p['required'] = False
    return 'computed_to_stored:' + ('link' if 'target' in p else 'prop')


def m_stored_to_computed(rng, spec, feats):
    c = [(q, p) for q, p in _stored_roots(spec) if not _overloads(spec, q, p['name'])]
    rng.shuffle(c)
    for q, p in c:
        if 'target' in p:
            n = _mk_computed_link(rng, spec, q, feats, used=set(), exclude=(p['name'],))
            if n is None:
                continue
            p.update(computed=n['computed'], target=n['target'], card=n['card'], props=[],
                     on_delete=None, extending=None)
        else:
            n = _mk_computed_prop(rng, spec, q, feats, used=set(), exclude=(p['name'],))
            p.update(computed=n['computed'], type=n['type'], card='single', readonly=False,
                     extending=None)
        p.update(required=False, default=None, constraints=[])
        return 'stored_to_computed:' + ('link' if 'target' in p else 'prop')
    return None


def m_add_alias(rng, spec, feats):
    a = _mk_alias(rng, spec, _rand_mod(rng, spec), feats)
    if a is None:
        return None
    spec.data['aliases'].append(a)
    return 'add_alias'


def m_drop_alias(rng, spec, feats):
    if not spec.data['aliases']:
        return None
    _drop_object(spec, _q(rng.choice(spec.data['aliases'])))
    return 'drop_alias'


def m_change_alias(rng, spec, feats):
    if not spec.data['aliases']:
        return None
    i = rng.randrange(len(spec.data['aliases']))
    old = spec.data['aliases'][i]
    tmp = Spec(copy.deepcopy(spec.data))
    tmp.data['aliases'] = tmp.data['aliases'][:i]       # only earlier aliases as sources
    for _ in range(5):
        a = _mk_alias(rng, tmp, old['mod'], feats)
        if a and a['expr'] != old['expr']:
            a['name'] = old['name']
            a['expr']['t'] = re.sub(r'x_[a-z0-9]+ :=', f"x_{old['name'].lower()} :=", a['expr']['t'])
            spec.data['aliases'][i] = a
            return 'change_alias'
    return None


def m_add_function(rng, spec, feats):
    spec.data['functions'].append(_mk_function(rng, spec, _rand_mod(rng, spec), feats))
    return 'add_function'


def m_drop_function(rng, spec, feats):
    if not spec.data['functions']:
        return None
    _drop_object(spec, _q(rng.choice(spec.data['functions'])))
    return 'drop_function'


def m_change_function_body(rng, spec, feats):
    c = [f for f in spec.data['functions'] if not f['body']['r']]
    if not c:
        return None
    f = rng.choice(c)
    sig = [p['type'] for p in f['params']]
    if sig == ['int64']:
        new = rng.choice(['x + 2', 'x * 3', '(x - 1) * 2', 'x // 2'])
    elif sig == ['str', 'str']:
        new = rng.choice(["y ++ x", "x ++ '+' ++ y", 'str_lower(x ++ y)'])
    else:
        return None
    if new == f['body']['t']:
        return None
    f['body'] = _E(new)
    return 'change_function_body'


def m_change_function_sig(rng, spec, feats):
    if not spec.data['functions']:
        return None
    f = rng.choice(spec.data['functions'])
    sig = [p['type'] for p in f['params']]
    k = rng.choice(['add_param', 'rename_param', 'retype'])
    if k == 'add_param':
        f['params'].append({'name': 'extra', 'type': 'int64', 'default': '0'})
        if any(p['name'] == 'extra' for p in f['params'][:-1]):
            return None
    elif k == 'rename_param' and sig == ['int64'] and not f['body']['r']:
        f['params'][0]['name'] = 'n'
        f['body'] = _E(re.sub(r'\bx\b', 'n', f['body']['t']))
    elif k == 'retype' and sig == ['int64'] and not f['body']['r']:
        f['params'][0]['type'] = 'float64'
        f['ret'] = 'float64'
    else:
        return None
    return 'change_function_sig:' + k


def m_add_global(rng, spec, feats):
    spec.data['globals'].append(_mk_global(rng, spec, _rand_mod(rng, spec), feats))
    return 'add_global'


def m_drop_global(rng, spec, feats):
    if not spec.data['globals']:
        return None
    _drop_object(spec, _q(rng.choice(spec.data['globals'])))
    return 'drop_global'


def m_alter_global(rng, spec, feats):
    c = [g for g in spec.data['globals'] if not g.get('computed')]
    if not c:
        return None
    g = rng.choice(c)
    if g.get('default'):
        g['default'] = None
        g['required'] = False
        return 'alter_global:drop_default'
    g['default'] = _default_for(rng, spec, g['type'])
    return 'alter_global:set_default'


def m_add_scalar(rng, spec, feats):
    sc = _mk_scalar(rng, spec, _rand_mod(rng, spec), feats, enum_=rng.random() < 0.4)
    spec.data['scalars'].append(sc)
    if spec.data['types']:
        t = rng.choice(spec.data['types'])
        p = _new_prop(_pname_for(rng, spec, _q(sc), _family_ptr_names(spec, _q(t))), _q(sc))
        t['props'].append(p)
    return 'add_scalar'


def m_drop_scalar(rng, spec, feats):
    if not spec.data['scalars']:
        return None
    _drop_object(spec, _q(rng.choice(spec.data['scalars'])))
    return 'drop_scalar'


def m_rename_scalar(rng, spec, feats):
    if not spec.data['scalars']:
        return None
    sc = rng.choice(spec.data['scalars'])
    new = _fresh(rng, ENUM_NAMES if sc['base'] == 'enum' else SCALAR_NAMES, _all_names(spec))
    _rename_objects(spec, {_q(sc): f"{sc['mod']}::{new}"})
    return 'rename_scalar'


def m_alter_enum(rng, spec, feats):
    c = [s for s in spec.data['scalars'] if s['base'] == 'enum']
    if not c:
        return None
    sc = rng.choice(c)
    k = rng.choice(['add', 'add', 'drop', 'reorder'])
    if k == 'add':
        sc['labels'].append(_fresh(rng, ENUM_LABELS, sc['labels']))
    elif k == 'drop' and len(sc['labels']) > 1:
        sc['labels'].remove(rng.choice(sc['labels']))
    elif k == 'reorder' and len(sc['labels']) > 1:
        sc['labels'].reverse()
    else:
        return None
    return 'alter_enum:' + k


def m_rename_other(rng, spec, feats):
    c = [(s, e) for s in ('aliases', 'functions', 'globals', 'annos', 'abs_links', 'abs_props')
         for e in spec.data[s]]
    if not c:
        return None
    s, e = rng.choice(c)
    pool = {'aliases': ALIAS_NAMES, 'functions': FUNC_NAMES, 'globals': GLOBAL_NAMES,
            'annos': ANNO_NAMES, 'abs_links': ABS_LINK_NAMES, 'abs_props': ABS_PROP_NAMES}[s]
    new = _fresh(rng, pool, _all_names(spec))
    _rename_objects(spec, {_q(e): f"{e['mod']}::{new}"})
    return 'rename_other:' + s


def m_move_type(rng, spec, feats):
    mods = spec.data['modules']
    if len(mods) < 2 or not spec.data['types']:
        return None
    t = rng.choice(spec.data['types'])
    new = rng.choice([m for m in mods if m != t['mod']])
    _rename_objects(spec, {_q(t): f"{new}::{t['name']}"})
    return 'move_type'


def m_move_other(rng, spec, feats):
    mods = spec.data['modules']
    c = [e for s in _SECTIONS if s != 'types' for e in spec.data[s]]
    if len(mods) < 2 or not c:
        return None
    e = rng.choice(c)
    new = rng.choice([m for m in mods if m != e['mod']])
    _rename_objects(spec, {_q(e): f"{new}::{e['name']}"})
    return 'move_other'


def m_add_module(rng, spec, feats):
    mods = spec.data['modules']
    if rng.random() < 0.4:
        new = rng.choice(mods) + '::' + _fresh(rng, SUBMODULE_NAMES, set())
    else:
        new = _fresh(rng, MODULE_NAMES, set(mods))
    if new in mods:
        return None
    mods.append(new)
    c = [e for s in _SECTIONS for e in spec.data[s]]
    if c and rng.random() < 0.7:
        e = rng.choice(c)
        _rename_objects(spec, {_q(e): f"{new}::{e['name']}"})
    return 'add_module'


def _mod_mapping(spec, old, new):
    mapping = {}
    for s in _SECTIONS:
        for e in spec.data[s]:
            if e['mod'] == old or e['mod'].startswith(old + '::'):
                mapping[_q(e)] = new + e['mod'][len(old):] + '::' + e['name']
    return mapping


def m_rename_module(rng, spec, feats):
    mods = spec.data['modules']
    c = [m for m in mods if m != 'default']
    if not c:
        return None
    old = rng.choice(c)
    parent, _, leaf = old.rpartition('::')
    newleaf = _fresh(rng, SUBMODULE_NAMES if parent else MODULE_NAMES,
                     {m.rpartition('::')[2] for m in mods} | _mod_names(spec, parent))
    new = f'{parent}::{newleaf}' if parent else newleaf
    _rename_objects(spec, _mod_mapping(spec, old, new))
    spec.data['modules'] = [new + m[len(old):] if (m == old or m.startswith(old + '::')) else m
                            for m in mods]
    return 'rename_module'


def m_drop_module(rng, spec, feats):
    mods = spec.data['modules']
    c = [m for m in mods if m != 'default']
    if not c:
        return None
    old = rng.choice(c)
    for s in _SECTIONS:
        spec.data[s][:] = [e for e in spec.data[s]
                           if not (e['mod'] == old or e['mod'].startswith(old + '::'))]
    spec.data['modules'] = [m for m in mods if not (m == old or m.startswith(old + '::'))]
    return 'drop_module'


def m_reuse_name(rng, spec, feats):
    """cross-class name reuse: an object disappears and an object of another
    class takes its (module, name)"""
    c = [(s, e) for s in ('types', 'scalars', 'aliases', 'globals') for e in spec.data[s]]
    if not c:
        return None
    s, e = rng.choice(c)
    mod, name = e['mod'], e['name']
    _drop_object(spec, _q(e))
    _prune(spec)
    target = rng.choice([x for x in ('types', 'scalars', 'aliases', 'globals') if x != s])
    if target == 'types':
        t = _mk_type(rng, spec, mod, feats, name=name)
        spec.data['types'].append(t)
        t['props'].append(_mk_prop(rng, spec, _q(t), feats))
    elif target == 'scalars':
        sc = _mk_scalar(rng, spec, mod, feats, enum_=rng.random() < 0.3)
        sc['name'] = name
        spec.data['scalars'].append(sc)
        if spec.data['types']:
            t = rng.choice(spec.data['types'])
            t['props'].append(_new_prop(
                _pname_for(rng, spec, _q(sc), _family_ptr_names(spec, _q(t))), _q(sc)))
    elif target == 'aliases':
        a = _mk_alias(rng, spec, mod, feats)
        if a is None:
            a = {'mod': mod, 'name': name, 'expr': _E('1 + 1'), 'of': None}
        a['name'] = name
        spec.data['aliases'].append(a)
    else:
        g = _mk_global(rng, spec, mod, feats)
        g['name'] = name
        spec.data['globals'].append(g)
    return f'reuse_name:{s}->{target}'


def m_rename_chain(rng, spec, feats):
    """X takes the name of Y while Y gets a fresh name (X, Y of any class
    among types / scalars / aliases, same module)"""
    c = [(s, e) for s in ('types', 'scalars', 'aliases') for e in spec.data[s]]
    if len(c) < 2:
        return None
    rng.shuffle(c)
    for (s1, x) in c:
        ys = [(s2, y) for s2, y in c if y is not x and y['mod'] == x['mod']]
        if ys:
            s2, y = rng.choice(ys)
            pool = {'types': TYPE_NAMES, 'scalars': SCALAR_NAMES, 'aliases': ALIAS_NAMES}[s2]
            fresh = _fresh(rng, pool, _all_names(spec))
            _rename_objects(spec, {_q(x): _q(y), _q(y): f"{y['mod']}::{fresh}"})
            return f'rename_chain:{s1}->{s2}'
    return None


def m_swap_names(rng, spec, feats):
    k = rng.choice(['types', 'types', 'props', 'links', 'cross'])
    if k == 'types' and len(spec.data['types']) >= 2:
        a, b = rng.sample(spec.data['types'], 2)
        _rename_objects(spec, {_q(a): _q(b), _q(b): _q(a)})
        return 'swap_names:types'
    if k == 'cross':
        c = [e for s in ('types', 'scalars', 'aliases') for e in spec.data[s]]
        if len(c) >= 2:
            a, b = rng.sample(c, 2)
            _rename_objects(spec, {_q(a): _q(b), _q(b): _q(a)})
            return 'swap_names:cross'
        return None
    if k in ('props', 'links'):
        kind = 'prop' if k == 'props' else 'link'
        byq = {}
        for q, p in _roots(spec, kind):
            byq.setdefault(q, []).append(p)
        c = [(q, ps) for q, ps in byq.items() if len(ps) >= 2]
        if not c:
            return None
        q, ps = rng.choice(c)
        a, b = rng.sample(ps, 2)
        na, nb = a['name'], b['name']
        _rename_ptr(spec, q, na, '\x00tmp')
        _rename_ptr(spec, q, nb, na)
        _rename_ptr(spec, q, '\x00tmp', nb)
        return 'swap_names:' + k
    return None


def m_make_empty(rng, spec, feats):
    if spec.is_empty():
        return None
    for s in _SECTIONS:
        spec.data[s] = []
    spec.data['modules'] = ['default']
    return 'make_empty'


_MUT_TABLE = (
    # (name, function, weight, hard)
    ('rename_type', m_rename_type, 3, False),
    ('rename_prop', m_rename_prop, 3, False),
    ('rename_link', m_rename_link, 3, False),
    ('rename_linkprop', m_rename_linkprop, 1, False),
    ('add_type', m_add_type, 2, False),
    ('drop_type', m_drop_type, 2, False),
    ('add_prop', m_add_prop, 2, False),
    ('drop_prop', m_drop_prop, 2, False),
    ('add_link', m_add_link, 2, False),
    ('drop_link', m_drop_link, 2, False),
    ('add_linkprop', m_add_linkprop, 1, False),
    ('drop_linkprop', m_drop_linkprop, 1, False),
    ('add_base', m_add_base, 2, False),
    ('drop_base', m_drop_base, 2, False),
    ('change_base', m_change_base, 2, False),
    ('reorder_bases', m_reorder_bases, 1, False),
    # weight 0: drawn only when requested through `kinds=` (keeps the default random stream of other packages unchanged)
    ('rebase_multi', m_rebase_multi, 0, False),
    ('drop_adjacent_bases', m_drop_adjacent_bases, 0, False),
    ('reparent_overload_away', m_reparent_overload_away, 0, False),
    ('pin_facet', m_pin_facet, 0, False),
    ('unpin_facet', m_unpin_facet, 0, False),
    ('parent_facet_toggle', m_parent_facet_toggle, 0, False),
    ('shared_drop_from_one_parent', m_shared_drop_one, 0, False),
    ('shared_alter_in_one_parent', m_shared_alter_one, 0, False),
    ('shared_add_to_second_parent', m_shared_add_second, 0, False),
    ('shared_remove_parent_base', m_shared_remove_parent, 0, False),
    ('toggle_abstract', m_toggle_abstract, 2, False),
    ('retype_prop', m_retype_prop, 2, False),
    ('retype_prop_hard', m_retype_prop_hard, 1, True),
    ('retarget_link', m_retarget_link, 2, False),
    ('retarget_link_hard', m_retarget_link_hard, 1, True),
    ('card_to_multi', m_card_to_multi, 2, False),
    ('card_to_single_hard', m_card_to_single_hard, 1, True),
    ('make_optional', m_make_optional, 2, False),
    ('make_required', m_make_required, 2, False),
    ('add_constraint', m_add_constraint, 2, False),
    ('drop_constraint', m_drop_constraint, 2, False),
    ('alter_constraint', m_alter_constraint, 2, False),
    ('add_index', m_add_index, 2, False),
    ('drop_index', m_drop_index, 2, False),
    ('add_annotation', m_add_annotation, 2, False),
    ('drop_annotation', m_drop_annotation, 2, False),
    ('alter_annotation', m_alter_annotation, 2, False),
    ('add_abstract_annotation', m_add_abstract_annotation, 1, False),
    ('drop_abstract_annotation', m_drop_abstract_annotation, 1, False),
    ('toggle_inheritable', m_toggle_inheritable, 1, False),
    ('add_default', m_add_default, 2, False),
    ('drop_default', m_drop_default, 2, False),
    ('alter_default', m_alter_default, 2, False),
    ('change_computed', m_change_computed, 3, False),
    ('computed_to_stored', m_computed_to_stored, 2, False),
    ('stored_to_computed', m_stored_to_computed, 2, False),
    ('add_alias', m_add_alias, 1, False),
    ('drop_alias', m_drop_alias, 1, False),
    ('change_alias', m_change_alias, 2, False),
    ('add_function', m_add_function, 1, False),
    ('drop_function', m_drop_function, 1, False),
    ('change_function_body', m_change_function_body, 2, False),
    ('change_function_sig', m_change_function_sig, 2, False),
    ('add_global', m_add_global, 1, False),
    ('drop_global', m_drop_global, 1, False),
    ('alter_global', m_alter_global, 1, False),
    ('add_scalar', m_add_scalar, 1, False),
    ('drop_scalar', m_drop_scalar, 1, False),
    ('rename_scalar', m_rename_scalar, 2, False),
    ('alter_enum', m_alter_enum, 2, False),
    ('rename_other', m_rename_other, 2, False),
    ('move_type', m_move_type, 3, False),
    ('move_other', m_move_other, 1, False),
    ('add_module', m_add_module, 1, False),
    ('rename_module', m_rename_module, 2, False),
    ('drop_module', m_drop_module, 1, False),
    ('reuse_name', m_reuse_name, 3, False),
    ('rename_chain', m_rename_chain, 2, False),
    ('swap_names', m_swap_names, 2, False),
    ('make_empty', m_make_empty, 1, False),
)

#: names of the mutation kinds; a tag returned by `mutate` is a kind name,
#: optionally followed by ':detail' (e.g. 'retype_prop:int32->int64')
MUTATIONS = tuple(m[0] for m in _MUT_TABLE)
#: kinds that normally need a USING clause / data conversion, i.e. that POPULATE
#: MIGRATION is expected to refuse (kept as a minority on purpose)
HARD_MUTATIONS = tuple(m[0] for m in _MUT_TABLE if m[3])


def mutate(rng, spec: Spec, n: int = 1, kinds=None, features=None, hard_weight: float = 0.5):
    """Apply `n` random mutations to a copy of `spec`.

    Returns ``(new_spec, tags)``; each tag is a name from `MUTATIONS`, possibly
    with a ':detail' suffix.  The result satisfies ``check`` (a mutation whose
    outcome is not valid is discarded and another one is drawn); dependents of
    dropped / re-typed entities are pruned.  `kinds` restricts the mutation
    kinds, `features` the feature groups used by add-mutations, `hard_weight`
    scales the weight of `HARD_MUTATIONS` (0 disables them).  Fewer than `n`
    tags are returned only when nothing is applicable (e.g. the empty spec
    and only drop kinds allowed).
    """
    feats = set(DEFAULT_FEATURES if features is None else features)
    table = [m for m in _MUT_TABLE if kinds is None or m[0] in kinds]
    if kinds is not None and set(kinds) - set(MUTATIONS):
        raise ValueError(f'unknown mutation kinds: {sorted(set(kinds) - set(MUTATIONS))}')
    weights = [(m[2] or (1 if kinds is not None else 0)) * (hard_weight if m[3] else 1.0) for m in table]
    cur = spec.copy()
    tags = []
    for _ in range(n):
        for _try in range(40):
            if not table or sum(weights) <= 0:
                break
            name, fn, _w, _h = rng.choices(table, weights)[0]
            cand = cur.copy()
            tag = fn(rng, cand, feats)
            if not tag:
                continue
            _fix_overloaded(cand)
            _prune(cand)
            _fix_overloaded(cand)
            if check(cand) or cand == cur:
                continue
            cur = cand
            tags.append(tag)
            break
    return cur, tags


# ======================================================================
# 6. shrinking a failing pair
# ======================================================================

def _shrink_candidates(spec):
    """yield functions that each remove one piece of `spec` (in place)"""
    d = spec.data
    for s in _SECTIONS:
        for e in list(d[s]):
            yield ('obj', _q(e)), (lambda sp, qn=_q(e): _drop_object(sp, qn))
    for t in d['types']:
        q = _q(t)
        for kind, p in _own_ptrs(t):
            yield ('ptr', q, p['name']), (lambda sp, q=q, n=p['name']: _drop_ptr(sp, q, n))
        for b in t['bases']:
            def rmbase(sp, q=q, b=b):
                tt = _index(sp, 'types').get(q)
                if tt and b in tt['bases']:
                    tt['bases'].remove(b)
            yield ('base', q, b), rmbase

    def clear(path_fn, key, empty):
        def f(sp):
            x = path_fn(sp)
            if x is not None and x.get(key):
                x[key] = copy.deepcopy(empty)
        return f
    for t in d['types']:
        q = _q(t)

        def tget(sp, q=q):
            return _index(sp, 'types').get(q)
        for key, empty in (('constraints', []), ('indexes', []), ('anns', [])):
            if t[key]:
                yield ('t.' + key, q), clear(tget, key, empty)
        if t['abstract']:
            yield ('t.abstract', q), clear(tget, 'abstract', False)
        for kind, p in _own_ptrs(t):
            def pget(sp, q=q, n=p['name']):
                tt = _index(sp, 'types').get(q)
                if tt:
                    for _, pp in _own_ptrs(tt):
                        if pp['name'] == n:
                            return pp
            for key, empty in (('constraints', []), ('anns', []), ('default', None), ('props', []),
                               ('required', False), ('readonly', False), ('on_delete', None),
                               ('extending', None)):
                if p.get(key):
                    yield ('p.' + key, q, p['name']), clear(pget, key, empty)
    for m in d['modules']:
        if m != 'default':
            def rmmod(sp, m=m):
                if not any(e['mod'] == m or e['mod'].startswith(m + '::')
                           for s in _SECTIONS for e in sp.data[s]):
                    sp.data['modules'] = [x for x in sp.data['modules']
                                          if x != m and not x.startswith(m + '::')]
            yield ('mod', m), rmmod


def shrink_pair(a: Spec, b: Spec, pred, max_rounds: int = 6):
    """Greedy spec-level minimisation of a pair of specs.

    ``pred(a, b) -> bool`` must return True when the (valid) pair still shows
    the behaviour of interest.  Pieces (objects, pointers, bases, constraints,
    annotations, flags ...) are removed from BOTH specs (where present) as long
    as `pred` stays true.  Returns the reduced ``(a, b)``.
    """
    for _ in range(max_rounds):
        progress = False
        keys = {}
        for sp in (a, b):
            for k, f in _shrink_candidates(sp):
                keys.setdefault(k, f)
        for k, f in keys.items():
            na, nb = a.copy(), b.copy()
            for sp in (na, nb):
                f(sp)
                _fix_overloaded(sp)
                _prune(sp)
                _fix_overloaded(sp)
            if (na == a and nb == b) or check(na) or check(nb):
                continue
            try:
                ok = pred(na, nb)
            except Exception:
                ok = False
            if ok:
                a, b = na, nb
                progress = True
        if not progress:
            break
    return a, b
